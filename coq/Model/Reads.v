(* C11 — read operations over the object-graph model.  Every modelled read is a function of the
   state that returns a value and NO state: this file gives them a common syntax so that the
   purity statement can quantify over arbitrary sequences of reads. *)
From Coq Require Import ZArith List Bool.
Import ListNotations.
From V Require Import Model.Val Model.Graph.
Open Scope Z_scope.

Inductive read :=
| RByUuid (u : Z)                 (* MelodyModel.by_uuid / loader[u] *)
| RSearch (xts : list Z)          (* MelodyModel.search *)
| RAncestors (h : Z)              (* parent / layer / search(below=) *)
| RParent (h : Z)
| RMatches (u : Z)
| RScanType (xts : list Z).

Definition eval (frs : list frag) (r : read) : val :=
  match r with
  | RByUuid u => match by_uuid frs u with ROk h => VZ h | RErr e => VE e end
  | RSearch xts => VL (map VZ (search frs xts))
  | RAncestors h => VL (map VZ (ancestors frs h))
  | RParent h => match parent_of frs h with Some p => VZ p | None => VNone end
  | RMatches u => VL (map VZ (matches frs u))
  | RScanType xts => VL (map VZ (scan_xt frs xts))
  end.

(* a session: reads interleaved with the state they observe; a read step never changes the state *)
Definition step (st : list frag * list val) (r : read) : list frag * list val :=
  (fst st, snd st ++ [eval (fst st) r]).
Definition session (frs : list frag) (rs : list read) : list frag * list val := fold_left step rs (frs, []).

(* the documented exception: first PVMT access applies property-value groups, i.e. may attach nodes *)
Inductive access := Read (r : read) | PvmtFirstUse (f : Z) (groups : list node).
Definition access_step (st : res (list frag)) (a : access) : res (list frag) :=
  match st with
  | RErr e => RErr e
  | ROk frs => match a with
               | Read _ => ROk frs
               | PvmtFirstUse f groups => step_all false frs (Attach f groups)
               end
  end.
