(* DeclYaml: the tag layer of decl.YDMDumper / decl.YDMLoader between instruction-stream values (with the
   four marker types) and PyYAML's node graph, plus the one-or-two-document layout of dump /
   load_with_metadata.  The tags and the handling of the new-object type hint come from
   Gen/Decl_consts.v (read from the source on every run).  PyYAML's own text layer (emitter, scanner,
   implicit resolver, standard scalar constructors) is NOT modelled: standard scalars are carried as values.
   Mappings are association lists in insertion order; PyYAML sorts the pairs of a mapping by key when
   representing, which Python's dict equality does not see — [canon] sorts for the correspondence.
   Executable definitions only. *)
From Coq Require Import ZArith NArith List Bool.
Import ListNotations.
From V Require Import Model.Val Gen.Decl_consts.

Inductive std := SStr (s : str) | SInt (z : Z) | SBool (b : bool) | SNull.

Inductive yv :=
| YStd (v : std)
| YList (l : yvs)
| YMap (m : ykvs)
| YPromise (id : str)
| YUuid (u : str)
| YNew (hint : str) (kw : ykvs)
| YFind (attrs : ykvs)
with yvs := VNil | VCons (v : yv) (r : yvs)
with ykvs := KNil | KCons (k : str) (v : yv) (r : ykvs).

(* PyYAML nodes: a tag of None is the standard tag of the node kind *)
Inductive node :=
| NStd (v : std)
| NTag (tag : str) (s : str)                 (* scalar node with an application tag *)
| NSeq (tag : option str) (l : nodes)
| NMap (tag : option str) (m : nkvs)
with nodes := NNil | NCons (n : node) (r : nodes)
with nkvs := MNil | MCons (k : node) (v : node) (r : nkvs).

Inductive res (A : Type) := ROk (a : A) | RErr (e : N).
Arguments ROk {A} a. Arguments RErr {A} e.

Fixpoint assoc_tag (k : N) (l : list (N * str)) : str :=
  match l with [] => [] | (k', t) :: r => if N.eqb k k' then t else assoc_tag k r end.
Fixpoint assoc_marker (t : str) (l : list (str * N)) : option N :=
  match l with [] => None | (t', k) :: r => if str_eqb t t' then Some k else assoc_marker t r end.
Definition M_PROMISE : N := 0. Definition M_UUID : N := 1. Definition M_NEW : N := 2. Definition M_FIND : N := 3.
Definition dump_tag (k : N) : str := assoc_tag k DUMP_TAGS.

Definition is_empty (s : str) : bool := match s with [] => true | _ => false end.
Fixpoint mapp (a b : nkvs) : nkvs := match a with MNil => b | MCons k v r => MCons k v (mapp r b) end.

(* ---- YDMDumper ---- *)
Fixpoint represent (v : yv) : node :=
  match v with
  | YStd s => NStd s
  | YList l => NSeq None (represent_list l)
  | YMap m => NMap None (represent_kvs m)
  | YPromise id => NTag (dump_tag M_PROMISE) id
  | YUuid u => NTag (dump_tag M_UUID) u
  | YNew hint kw =>
      (* attrs = dict(kw); if hint: attrs["_type"] = hint *)
      NMap (Some (dump_tag M_NEW))
           (if NEWOBJ_DUMP_ONLY_IF_TRUTHY && is_empty hint then represent_kvs kw
            else mapp (represent_kvs kw) (MCons (NStd (SStr NEWOBJ_DUMP_KEY)) (NStd (SStr hint)) MNil))
  | YFind attrs => NMap (Some (dump_tag M_FIND)) (represent_kvs attrs)
  end
with represent_list (l : yvs) : nodes :=
  match l with VNil => NNil | VCons v r => NCons (represent v) (represent_list r) end
with represent_kvs (m : ykvs) : nkvs :=
  match m with KNil => MNil | KCons k v r => MCons (NStd (SStr k)) (represent v) (represent_kvs r) end.

(* ---- YDMLoader ---- *)
Fixpoint pop_key (k : str) (m : ykvs) : option (yv * ykvs) :=
  match m with
  | KNil => None
  | KCons k' v r => if str_eqb k k' then Some (v, r)
                    else match pop_key k r with Some (x, r') => Some (x, KCons k' v r') | None => None end
  end.

Section Loader.
  Variable is_uuid : str -> bool.            (* helpers.is_uuid_string *)

  Fixpoint construct (n : node) : res yv :=
    match n with
    | NStd s => ROk (YStd s)
    | NTag tag s =>
        match assoc_marker tag LOAD_TAGS with
        | Some 0%N => ROk (YPromise s)
        | Some 1%N => if is_uuid s then ROk (YUuid s) else RErr E_ValueError
        | Some _ => RErr E_TypeError            (* !new_object / !find only accept mapping nodes *)
        | None => RErr E_Other                  (* yaml ConstructorError: unknown tag *)
        end
    | NSeq None l => match construct_list l with ROk l' => ROk (YList l') | RErr e => RErr e end
    | NSeq (Some tag) _ =>
        match assoc_marker tag LOAD_TAGS with Some _ => RErr E_TypeError | None => RErr E_Other end
    | NMap None m => match construct_kvs m with ROk m' => ROk (YMap m') | RErr e => RErr e end
    | NMap (Some tag) m =>
        match assoc_marker tag LOAD_TAGS with
        | Some 2%N =>
            match construct_kvs m with
            | ROk m' =>
                match pop_key NEWOBJ_LOAD_KEY m' with
                | Some (YStd (SStr h), rest) => ROk (YNew h rest)
                | Some (_, _) => RErr E_Malformed      (* a type hint that is not a string: outside the model *)
                | None => if NEWOBJ_LOAD_REQUIRED then RErr E_ValueError else ROk (YNew [] m')
                end
            | RErr e => RErr e
            end
        | Some 3%N => match construct_kvs m with ROk m' => ROk (YFind m') | RErr e => RErr e end
        | Some _ => RErr E_TypeError            (* !promise / !uuid only accept scalar nodes *)
        | None => RErr E_Other
        end
    end
  with construct_list (l : nodes) : res yvs :=
    match l with
    | NNil => ROk VNil
    | NCons n r => match construct n, construct_list r with
                   | ROk v, ROk r' => ROk (VCons v r') | RErr e, _ => RErr e | _, RErr e => RErr e end
    end
  with construct_kvs (m : nkvs) : res ykvs :=
    match m with
    | MNil => ROk KNil
    | MCons (NStd (SStr k)) v r =>
        match construct v, construct_kvs r with
        | ROk v', ROk r' => ROk (KCons k v' r') | RErr e, _ => RErr e | _, RErr e => RErr e end
    | MCons _ _ _ => RErr E_Malformed            (* non-string keys: outside the model *)
    end.

  (* ---- dump / load_with_metadata: one document, or metadata + instructions ---- *)
  Definition falsy (v : yv) : bool :=
    match v with
    | YStd SNull => true | YStd (SBool b) => negb b | YStd (SInt z) => Z.eqb z 0 | YStd (SStr s) => is_empty s
    | YList VNil => true | YMap KNil => true | _ => false
    end.
  Definition or_default (v d : yv) : yv := if falsy v then d else v.
  Definition dump_stream (md : ykvs) (ins : yvs) : list node :=
    match md with
    | KNil => [represent (YList ins)]
    | _ => [represent (YMap md); represent (YList ins)]
    end.
  Definition load_stream (docs : list node) : res (yv * yv) :=
    match docs with
    | [] => ROk (YMap KNil, YList VNil)
    | [d] => match construct d with ROk v => ROk (YMap KNil, or_default v (YList VNil)) | RErr e => RErr e end
    | [m; d] => match construct m, construct d with
                | ROk vm, ROk vd => ROk (or_default vm (YMap KNil), or_default vd (YList VNil))
                | RErr e, _ => RErr e | _, RErr e => RErr e end
    | _ => RErr E_ValueError
    end.
End Loader.

(* ---- well-formed values: what a stream built from the marker classes can contain ---- *)
Fixpoint has_kkey (k : str) (m : ykvs) : bool :=
  match m with KNil => false | KCons k' _ r => str_eqb k k' || has_kkey k r end.
Section Wf.
  Variable is_uuid : str -> bool.
  Fixpoint wf (v : yv) : bool :=
    match v with
    | YStd _ => true
    | YList l => wf_list l
    | YMap m => wf_kvs m
    | YPromise _ => true
    | YUuid u => is_uuid u                                  (* UUIDReference.__post_init__ *)
    | YNew hint kw => negb (is_empty hint) && negb (has_kkey NEWOBJ_DUMP_KEY kw) && wf_kvs kw
    | YFind a => wf_kvs a
    end
  with wf_list (l : yvs) : bool := match l with VNil => true | VCons v r => wf v && wf_list r end
  with wf_kvs (m : ykvs) : bool := match m with KNil => true | KCons _ v r => wf v && wf_kvs r end.
End Wf.

(* helpers.is_uuid_string as the generated character class, repeated at least once *)
Definition in_ranges (c : N) : bool := existsb (fun r => N.leb (fst r) c && N.leb c (snd r)) UUID_RANGES.
Definition is_uuid_re (s : str) : bool := negb (is_empty s) && forallb in_ranges s.

(* ------------------------------------------------------------------ val decoding / encoding *)
Definition dec_std (v : val) : option std :=
  match v with VS s => Some (SStr s) | VZ z => Some (SInt z) | VB b => Some (SBool b) | VNone => Some SNull | _ => None end.
Definition enc_std (s : std) : val :=
  match s with SStr s => VS s | SInt z => VZ z | SBool b => VB b | SNull => VNone end.

Fixpoint dec_yv (v : val) {struct v} : option yv :=
  let fix dl (l : list val) : option yvs :=
    match l with [] => Some VNil
    | x :: r => match dec_yv x, dl r with Some a, Some b => Some (VCons a b) | _, _ => None end end in
  let fix dk (l : list val) : option ykvs :=
    match l with [] => Some KNil
    | VL [VS k; x] :: r => match dec_yv x, dk r with Some a, Some b => Some (KCons k a b) | _, _ => None end
    | _ => None end in
  match v with
  | VL [VZ 0; VL l] => match dl l with Some l => Some (YList l) | None => None end
  | VL [VZ 1; VL m] => match dk m with Some m => Some (YMap m) | None => None end
  | VL [VZ 2; VS id] => Some (YPromise id)
  | VL [VZ 3; VS u] => Some (YUuid u)
  | VL [VZ 4; VS h; VL m] => match dk m with Some m => Some (YNew h m) | None => None end
  | VL [VZ 5; VL m] => match dk m with Some m => Some (YFind m) | None => None end
  | VL _ => None
  | s => match dec_std s with Some s => Some (YStd s) | None => None end
  end.

Fixpoint enc_yv (v : yv) : val :=
  match v with
  | YStd s => enc_std s
  | YList l => VL [VZ 0; VL (enc_yvs l)]
  | YMap m => VL [VZ 1; VL (enc_ykvs m)]
  | YPromise id => VL [VZ 2; VS id]
  | YUuid u => VL [VZ 3; VS u]
  | YNew h m => VL [VZ 4; VS h; VL (enc_ykvs m)]
  | YFind m => VL [VZ 5; VL (enc_ykvs m)]
  end
with enc_yvs (l : yvs) : list val := match l with VNil => [] | VCons v r => enc_yv v :: enc_yvs r end
with enc_ykvs (m : ykvs) : list val := match m with KNil => [] | KCons k v r => VL [VS k; enc_yv v] :: enc_ykvs r end.

Definition dec_tag (v : val) : option (option str) :=
  match v with VNone => Some None | VS t => Some (Some t) | _ => None end.
Fixpoint dec_node (v : val) {struct v} : option node :=
  let fix dl (l : list val) : option nodes :=
    match l with [] => Some NNil
    | x :: r => match dec_node x, dl r with Some a, Some b => Some (NCons a b) | _, _ => None end end in
  let fix dk (l : list val) : option nkvs :=
    match l with [] => Some MNil
    | VL [k; x] :: r => match dec_node k, dec_node x, dk r with Some k, Some a, Some b => Some (MCons k a b) | _, _, _ => None end
    | _ => None end in
  match v with
  | VL [VZ 0; s] => match dec_std s with Some s => Some (NStd s) | None => None end
  | VL [VZ 1; VS t; VS s] => Some (NTag t s)
  | VL [VZ 2; t; VL l] => match dec_tag t, dl l with Some t, Some l => Some (NSeq t l) | _, _ => None end
  | VL [VZ 3; t; VL m] => match dec_tag t, dk m with Some t, Some m => Some (NMap t m) | _, _ => None end
  | _ => None
  end.
Definition enc_tag (t : option str) : val := match t with None => VNone | Some t => VS t end.
Fixpoint enc_node (n : node) : val :=
  match n with
  | NStd s => VL [VZ 0; enc_std s]
  | NTag t s => VL [VZ 1; VS t; VS s]
  | NSeq t l => VL [VZ 2; enc_tag t; VL (enc_nodes l)]
  | NMap t m => VL [VZ 3; enc_tag t; VL (enc_nkvs m)]
  end
with enc_nodes (l : nodes) : list val := match l with NNil => [] | NCons n r => enc_node n :: enc_nodes r end
with enc_nkvs (m : nkvs) : list val := match m with MNil => [] | MCons k v r => VL [enc_node k; enc_node v] :: enc_nkvs r end.

(* sort the pairs of every mapping node by key (string keys; code point order = Python's str order) *)
Fixpoint str_leb (a b : str) : bool :=
  match a, b with
  | [], _ => true
  | _ :: _, [] => false
  | x :: a', y :: b' => if N.ltb x y then true else if N.eqb x y then str_leb a' b' else false
  end.
Definition key_of (n : node) : str := match n with NStd (SStr s) => s | _ => [] end.
Fixpoint ins_pair (k v : node) (l : list (node * node)) : list (node * node) :=
  match l with
  | [] => [(k, v)]
  | (k', v') :: r => if str_leb (key_of k) (key_of k') then (k, v) :: (k', v') :: r else (k', v') :: ins_pair k v r
  end.
Fixpoint of_pairs (l : list (node * node)) : nkvs := match l with [] => MNil | (k, v) :: r => MCons k v (of_pairs r) end.
Fixpoint canon (n : node) : node :=
  match n with
  | NStd s => NStd s
  | NTag t s => NTag t s
  | NSeq t l => NSeq t (canon_list l)
  | NMap t m => NMap t (of_pairs (canon_pairs m))
  end
with canon_list (l : nodes) : nodes := match l with NNil => NNil | NCons n r => NCons (canon n) (canon_list r) end
with canon_pairs (m : nkvs) : list (node * node) :=
  match m with MNil => [] | MCons k v r => ins_pair k (canon v) (canon_pairs r) end.

Definition enc_res {A} (enc : A -> val) (r : res A) : val := match r with ROk a => enc a | RErr e => VE e end.

Definition w_represent (v : val) : val :=
  match dec_yv v with Some y => enc_node (canon (represent y)) | None => bad end.
Definition w_construct (v : val) : val :=
  match dec_node v with Some n => enc_res enc_yv (construct is_uuid_re n) | None => bad end.
Definition w_load_stream (v : val) : val :=
  match v with
  | VL docs => match all_some (map dec_node docs) with
               | Some ds => enc_res (fun p => VL [enc_yv (fst p); enc_yv (snd p)]) (load_stream is_uuid_re ds)
               | None => bad end
  | _ => bad
  end.
Definition w_dump_stream (v : val) : val :=
  match v with
  | VL [md; ins] => match dec_yv md, dec_yv ins with
                    | Some (YMap m), Some (YList l) => VL (map (fun n => enc_node (canon n)) (dump_stream m l))
                    | _, _ => bad end
  | _ => bad
  end.
Definition w_is_uuid (v : val) : val := match v with VS s => VB (is_uuid_re s) | _ => bad end.
