(* C07 / Pods: the typed attribute descriptors of capellambse/model/_pods.py
   (BasePOD.__get__/__set__ and the codecs of its subclasses), lxml's check of attribute
   text, the attribute escaper of loader/exs.py with a reference reader, and the
   linked-text escaping of helpers.py at the level of parsed fragments.
   Executable definitions only; the literal constants come from Gen/PodsTab.v. *)
From Coq Require Import ZArith NArith List Bool.
Import ListNotations.
From V Require Import Model.Val Gen.PodsTab.
Open Scope N_scope.

Inductive res (A : Type) := ROk (a : A) | RErr (e : N).
Arguments ROk {A} a. Arguments RErr {A} e.
Definition rmap {A B} (f : A -> B) (r : res A) : res B :=
  match r with ROk a => ROk (f a) | RErr e => RErr e end.

(* ------------------------------------------------------------------ attributes of one element *)
Notation attrs := (list (str * str)) (only parsing).
Fixpoint attr_get (a : str) (e : attrs) : option str :=
  match e with
  | [] => None
  | (k, v) :: r => if str_eqb k a then Some v else attr_get a r
  end.
(* lxml: assignment keeps the position of an existing attribute, a new one goes last *)
Fixpoint attr_set (a d : str) (e : attrs) : attrs :=
  match e with
  | [] => [(a, d)]
  | (k, v) :: r => if str_eqb k a then (k, d) :: r else (k, v) :: attr_set a d r
  end.
Fixpoint attr_pop (a : str) (e : attrs) : attrs :=
  match e with
  | [] => []
  | (k, v) :: r => if str_eqb k a then attr_pop a r else (k, v) :: attr_pop a r
  end.
Definition attr_has (a : str) (e : attrs) : bool := match attr_get a e with Some _ => true | None => false end.
Definition others (a : str) (e : attrs) : attrs := filter (fun kv => negb (str_eqb (fst kv) a)) e.

(* lxml refuses text that is not XML compatible (ValueError; for lone surrogates the UTF-8
   codec's UnicodeEncodeError, a ValueError too) *)
Definition cp_ok (c : N) : bool :=
  ((32 <=? c) || (c =? 9) || (c =? 10) || (c =? 13))
  && negb ((55296 <=? c) && (c <=? 57343)) && negb (c =? 65534) && negb (c =? 65535) && (c <=? 1114111).
Definition xml_ok (s : str) : bool := forallb cp_ok s.

(* ------------------------------------------------------------------ BasePOD *)
Record codec (V : Type) := {
  c_to : V -> res str;          (* _to_xml, may raise *)
  c_from : str -> res V;        (* _from_xml, may raise *)
  c_default : option V;         (* None = Python None *)
  c_isdef : V -> bool           (* not (value != self.default) *)
}.
Arguments c_to {V} c. Arguments c_from {V} c. Arguments c_default {V} c. Arguments c_isdef {V} c.

Definition pod_get {V} (c : codec V) (a : str) (e : attrs) : res (option V) :=
  match attr_get a e with
  | None => ROk (c_default c)
  | Some d => rmap Some (c_from c d)
  end.

(* result: the element afterwards and the exception raised, if any *)
Definition pod_set {V} (c : codec V) (writable : bool) (a : str) (e : attrs) (v : option V) : attrs * option N :=
  if negb writable && attr_has a e then (e, Some E_TypeError) else
  match v with
  | None => (attr_pop a e, None)
  | Some x =>
      if c_isdef c x then (attr_pop a e, None) else
      match c_to c x with
      | RErr er => (e, Some er)
      | ROk d => if xml_ok d then (attr_set a d e, None) else (e, Some E_ValueError)
      end
  end.

(* ------------------------------------------------------------------ String / PVMT selector rules *)
Definition str_codec (dflt : str) : codec str :=
  {| c_to := fun s : str => ROk s; c_from := fun s : str => ROk s; c_default := Some dflt; c_isdef := fun s : str => str_eqb s dflt |}.

(* PVMTDescriptionProperty: values are SelectorRules(raw) or, for convenience, a plain str; a str
   never compares equal to the SelectorRules default *)
Inductive pvv := PVRules (raw : str) | PVStr (s : str).
Definition pv_raw (v : pvv) : str := match v with PVRules r => r | PVStr s => s end.
Definition pvmt_codec (dflt : str) : codec pvv :=
  {| c_to := fun v : pvv => ROk (pv_raw v); c_from := fun s : str => ROk (PVRules s); c_default := Some (PVRules dflt);
     c_isdef := fun v : pvv => match v with PVRules r => str_eqb r dflt | PVStr _ => false end |}.

(* ------------------------------------------------------------------ Bool *)
Definition bool_codec (dflt : bool) : codec bool :=
  {| c_to := fun b : bool => ROk (if b then src_bool_true else src_bool_false);
     c_from := fun s : str => ROk (str_eqb s src_bool_read_true);
     c_default := Some dflt; c_isdef := fun b : bool => Bool.eqb b dflt |}.

(* ------------------------------------------------------------------ Int: str(int) / int(str) *)
Fixpoint digs (fuel : nat) (n : N) : list N :=
  match fuel with
  | O => [n]
  | S f => if n <? 10 then [n] else digs f (n / 10) ++ [n mod 10]
  end.
Definition N_dec (n : N) : str := map (fun d => 48 + d) (digs (N.to_nat (N.size n)) n).
Definition Z_dec (z : Z) : str := if (z <? 0)%Z then 45 :: N_dec (Z.abs_N z) else N_dec (Z.abs_N z).

Definition is_digit (c : N) : bool := (48 <=? c) && (c <=? 57).
Definition dec_val (s : str) : N := fold_left (fun a c => a * 10 + (c - 48)) s 0.
Definition N_parse (s : str) : option N :=
  match s with [] => None | _ => if forallb is_digit s then Some (dec_val s) else None end.
(* the part of int(str) that matters here: optional sign, ASCII digits (no whitespace, no '_') *)
Definition Z_parse (s : str) : res Z :=
  match s with
  | [] => RErr E_ValueError
  | c :: r =>
      if c =? 45 then match N_parse r with Some n => ROk (- Z.of_N n)%Z | None => RErr E_ValueError end
      else if c =? 43 then match N_parse r with Some n => ROk (Z.of_N n) | None => RErr E_ValueError end
      else match N_parse s with Some n => ROk (Z.of_N n) | None => RErr E_ValueError end
  end.
Definition int_codec (dflt : Z) : codec Z :=
  {| c_to := fun z : Z => ROk (Z_dec z); c_from := Z_parse; c_default := Some dflt; c_isdef := fun z : Z => Z.eqb z dflt |}.

(* ------------------------------------------------------------------ Enum *)
Notation etab := (list (str * str)) (only parsing).     (* (member name, value) *)
Inductive ev := EObj (i : nat) | EName (s : str).
Fixpoint find_idx {A} (p : A -> bool) (l : list A) : option nat :=
  match l with
  | [] => None
  | x :: r => if p x then Some O else option_map S (find_idx p r)
  end.
Definition enum_by_name (t : etab) (s : str) : option nat := find_idx (fun m => str_eqb (fst m) s) t.
Definition enum_by_value (t : etab) (s : str) : option nat := find_idx (fun m => str_eqb (snd m) s) t.
Definition enum_to (t : etab) (v : ev) : res str :=
  match v with
  | EObj i => match nth_error t i with Some m => ROk (snd m) | None => RErr E_Other end
  | EName s => match enum_by_name t s with
               | Some i => match nth_error t i with Some m => ROk (snd m) | None => RErr E_Other end
               | None => RErr E_KeyError end
  end.
Definition enum_from (t : etab) (s : str) : res ev :=
  match enum_by_value t s with Some i => ROk (EObj i) | None => RErr E_ValueError end.
Definition enum_isdef (stringy : bool) (t : etab) (dflt : nat) (v : ev) : bool :=
  match v with
  | EObj i => Nat.eqb i dflt
  | EName s => stringy && match nth_error t dflt with Some m => str_eqb (fst m) s | None => false end
  end.
Definition enum_codec (stringy : bool) (t : etab) (dflt : nat) : codec ev :=
  {| c_to := enum_to t; c_from := enum_from t; c_default := Some (EObj dflt); c_isdef := enum_isdef stringy t dflt |}.
Definition enum_norm (t : etab) (v : ev) : ev :=
  match v with EObj i => EObj i | EName s => match enum_by_name t s with Some i => EObj i | None => v end end.

(* ------------------------------------------------------------------ Float *)
Inductive fl (F : Type) := FNaN | FPInf | FNInf | FFin (f : F).
Arguments FNaN {F}. Arguments FPInf {F}. Arguments FNInf {F}. Arguments FFin {F} f.
(* does this tree's FloatPOD._from_xml recognise the marker that _to_xml writes for +inf? *)
Definition float_reads_marker : bool := existsb (str_eqb src_float_inf_marker) src_float_inf_read.
Section FloatCodec.
  Variable F : Type.
  Variable frepr : F -> str.                 (* str(float) of a finite float *)
  Variable fparse : str -> option (fl F).    (* float(str) *)
  Variable feq : F -> F -> bool.             (* Python == on finite floats *)
  Definition float_to (v : fl F) : res str :=
    match v with
    | FNaN => RErr E_ValueError
    | FPInf => ROk src_float_inf_marker
    | FNInf => RErr E_ValueError
    | FFin f => ROk (frepr f)
    end.
  Definition float_from (s : str) : res (fl F) :=
    if float_reads_marker && str_eqb s src_float_inf_marker then ROk FPInf
    else match fparse s with Some v => ROk v | None => RErr E_ValueError end.
  Definition float_isdef (dflt : F) (v : fl F) : bool := match v with FFin f => feq f dflt | _ => false end.
  Definition float_codec (dflt : F) : codec (fl F) :=
    {| c_to := float_to; c_from := float_from; c_default := Some (FFin dflt); c_isdef := float_isdef dflt |}.
End FloatCodec.

(* ------------------------------------------------------------------ HTML *)
Section HtmlCodec.
  Variable repair : str -> str.              (* helpers.repair_html: lxml *)
  Definition html_codec (dflt : str) : codec str :=
    {| c_to := fun h : str => ROk (repair h); c_from := fun s : str => ROk s; c_default := Some dflt; c_isdef := fun h : str => str_eqb h dflt |}.
End HtmlCodec.

(* ------------------------------------------------------------------ Datetime *)
Record dt := { d_y : N; d_mo : N; d_d : N; d_h : N; d_mi : N; d_s : N; d_us : N;
               d_naive : bool; d_oneg : bool; d_omin : N }.
Definition pad2 (x : N) : str := [48 + x / 10; 48 + x mod 10].
Definition pad3 (x : N) : str := (48 + x / 100) :: pad2 (x mod 100).
Definition pad4 (x : N) : str := pad2 (x / 100) ++ pad2 (x mod 100).
(* value.isoformat("T", "milliseconds") of an aware datetime with a whole-minute offset *)
Definition iso_prefix (x : dt) : str :=
  pad4 (d_y x) ++ 45 :: pad2 (d_mo x) ++ 45 :: pad2 (d_d x) ++ 84 :: pad2 (d_h x) ++ 58 :: pad2 (d_mi x) ++ 58 :: pad2 (d_s x)
  ++ 46 :: pad3 (d_us x / 1000).
Definition iso_off (x : dt) : str :=
  [if d_oneg x then 45 else 43; 48 + (d_omin x / 60) / 10; 48 + (d_omin x / 60) mod 10; 58;
   48 + (d_omin x mod 60) / 10; 48 + (d_omin x mod 60) mod 10].
Definition iso_ms (x : dt) : str := iso_prefix x ++ iso_off x.
Definition is_sign (c : N) : bool := (c =? 43) || (c =? 45).
(* re_set.sub("", s):  (?<=[+-]\d\d):(?=\d\d$)   — ASCII digits; $ also matches before a final \n *)
Definition re_set_rev (r : str) : option str :=
  match r with
  | e :: c :: 58 :: b :: a :: sg :: p =>
      if is_digit e && is_digit c && is_digit b && is_digit a && is_sign sg then Some (e :: c :: b :: a :: sg :: p) else None
  | _ => None
  end.
Definition re_set (s : str) : str :=
  match re_set_rev (rev s) with
  | Some r => rev r
  | None => match rev s with
            | 10 :: r' => match re_set_rev r' with Some r => rev (10 :: r) | None => s end
            | _ => s
            end
  end.
(* re_get.sub(":", s):  (?<=[+-]\d\d)(?=\d\d$) *)
Definition re_get_rev (r : str) : option str :=
  match r with
  | e :: c :: b :: a :: sg :: p =>
      if is_digit e && is_digit c && is_digit b && is_digit a && is_sign sg then Some (e :: c :: 58 :: b :: a :: sg :: p) else None
  | _ => None
  end.
Definition re_get (s : str) : str :=
  match re_get_rev (rev s) with
  | Some r => rev r
  | None => match rev s with
            | 10 :: r' => match re_get_rev r' with Some r => rev (10 :: r) | None => s end
            | _ => s
            end
  end.

Definition dig (c : N) : option N := if is_digit c then Some (c - 48) else None.
Definition rd2 (s : str) : option (N * str) :=
  match s with
  | a :: b :: r => match dig a, dig b with Some x, Some y => Some (10 * x + y, r) | _, _ => None end
  | _ => None
  end.
Definition rd3 (s : str) : option (N * str) :=
  match s with
  | a :: r => match dig a, rd2 r with Some x, Some (y, r') => Some (100 * x + y, r') | _, _ => None end
  | _ => None
  end.
Definition rd4 (s : str) : option (N * str) :=
  match rd2 s with
  | Some (x, r) => match rd2 r with Some (y, r') => Some (100 * x + y, r') | None => None end
  | None => None
  end.
Definition expect (c : N) (s : str) : option str :=
  match s with x :: r => if x =? c then Some r else None | [] => None end.
Definition bind {A B} (o : option A) (f : A -> option B) : option B := match o with Some a => f a | None => None end.
(* datetime.fromisoformat restricted to the one layout  YYYY-MM-DDTHH:MM:SS.mmm(+|-)HH:MM *)
Definition parse_iso (s : str) : option dt :=
  bind (rd4 s) (fun '(y, s) => bind (expect 45 s) (fun s =>
  bind (rd2 s) (fun '(mo, s) => bind (expect 45 s) (fun s =>
  bind (rd2 s) (fun '(d, s) => bind (expect 84 s) (fun s =>
  bind (rd2 s) (fun '(h, s) => bind (expect 58 s) (fun s =>
  bind (rd2 s) (fun '(mi, s) => bind (expect 58 s) (fun s =>
  bind (rd2 s) (fun '(sec, s) => bind (expect 46 s) (fun s =>
  bind (rd3 s) (fun '(ms, s) =>
  match s with
  | sg :: s =>
      if is_sign sg then
        bind (rd2 s) (fun '(oh, s) => bind (expect 58 s) (fun s =>
        bind (rd2 s) (fun '(om, s) =>
        match s with
        | [] =>
            if (1 <=? y) && (1 <=? mo) && (mo <=? 12) && (1 <=? d) && (d <=? 31) && (h <? 24) && (mi <? 60) && (sec <? 60)
               && (om <? 60) && (oh <? 24) && negb ((sg =? 45) && (60 * oh + om =? 0))
            then Some {| d_y := y; d_mo := mo; d_d := d; d_h := h; d_mi := mi; d_s := sec; d_us := ms * 1000;
                         d_naive := false; d_oneg := sg =? 45; d_omin := 60 * oh + om |}
            else None
        | _ => None
        end)))
      else None
  | [] => None
  end))))))))))))).
(* a naive datetime is first moved to the local zone: value.astimezone().  The harness runs
   with TZ=UTC, so that step only attaches +00:00; other zones enter as the parameter. *)
Definition localize (local : dt -> dt) (x : dt) : dt := if d_naive x then local x else x.
Definition local_utc (x : dt) : dt :=
  {| d_y := d_y x; d_mo := d_mo x; d_d := d_d x; d_h := d_h x; d_mi := d_mi x; d_s := d_s x; d_us := d_us x;
     d_naive := false; d_oneg := false; d_omin := 0 |}.
Definition dt_to (local : dt -> dt) (x : dt) : res str := ROk (re_set (iso_ms (localize local x))).
Definition dt_from (s : str) : res dt :=
  match parse_iso (re_get s) with Some x => ROk x | None => RErr E_ValueError end.
Definition dt_codec (local : dt -> dt) : codec dt :=
  {| c_to := dt_to local; c_from := dt_from; c_default := None; c_isdef := fun _ : dt => false |}.
Definition trunc_ms (x : dt) : dt :=
  {| d_y := d_y x; d_mo := d_mo x; d_d := d_d x; d_h := d_h x; d_mi := d_mi x; d_s := d_s x; d_us := (d_us x / 1000) * 1000;
     d_naive := d_naive x; d_oneg := d_oneg x; d_omin := d_omin x |}.
Definition dt_valid (x : dt) : Prop :=
  1 <= d_y x /\ d_y x < 10000 /\ 1 <= d_mo x /\ d_mo x <= 12 /\ 1 <= d_d x /\ d_d x <= 31 /\ d_h x < 24 /\ d_mi x < 60
  /\ d_s x < 60 /\ d_us x < 1000000 /\ d_omin x < 1440 /\ d_naive x = false /\ (d_oneg x = true -> 0 < d_omin x).

(* ------------------------------------------------------------------ exs.py: attribute text on disk *)
Definition memN (c : N) (l : list N) : bool := existsb (N.eqb c) l.
Definition hexdigit (n : N) : N := if n <? 10 then 48 + n else 55 + n.
Definition hexval (c : N) : option N :=
  if (48 <=? c) && (c <=? 57) then Some (c - 48)
  else if (65 <=? c) && (c <=? 70) then Some (c - 55)
  else if (97 <=? c) && (c <=? 102) then Some (c - 87)
  else None.
Fixpoint hexdigs (fuel : nat) (n : N) : list N :=
  match fuel with
  | O => [hexdigit n]
  | S f => if n <? 16 then [hexdigit n] else hexdigs f (n / 16) ++ [hexdigit (n mod 16)]
  end.
Definition N_hex (n : N) : str := hexdigs (N.to_nat (N.size n)) n.
(* html.entities.codepoint2name restricted to the printable ASCII range *)
Definition cp2name (c : N) : option str :=
  if c =? 34 then Some [113;117;111;116] else if c =? 38 then Some [97;109;112]
  else if c =? 60 then Some [108;116] else if c =? 62 then Some [103;116] else None.
(* _escape_char: body of the reference between '&' and ';' (None = KeyError) *)
Definition esc_body (c : N) : option str :=
  if (32 <=? c) && (c <=? 126) then cp2name c else Some (35 :: 120 :: N_hex c).
Fixpoint escape_with (cls : list N) (s : str) : res str :=
  match s with
  | [] => ROk []
  | c :: r =>
      match escape_with cls r with
      | RErr e => RErr e
      | ROk r' => if memN c cls then match esc_body c with Some b => ROk (38 :: b ++ 59 :: r') | None => RErr E_KeyError end
                  else ROk (c :: r')
      end
  end.
Definition escape_attr : str -> res str := escape_with src_esc_class.

(* reference reader for a double-quoted attribute value (XML 1.0 §3.3.3): predefined entities,
   character references, literal TAB/LF/CR become a space; less-than and the double quote cannot occur *)
Definition hex_val (s : str) : option N :=
  match s with [] => None | _ =>
    fold_left (fun a c => match a, hexval c with Some a, Some d => Some (a * 16 + d) | _, _ => None end) s (Some 0) end.
Definition decode_ent (b : str) : option N :=
  match b with
  | 35 :: 120 :: h => hex_val h
  | 35 :: d => N_parse d
  | _ => if str_eqb b [113;117;111;116] then Some 34 else if str_eqb b [97;109;112] then Some 38
         else if str_eqb b [108;116] then Some 60 else if str_eqb b [103;116] then Some 62
         else if str_eqb b [97;112;111;115] then Some 39 else None
  end.
Fixpoint attr_rd (ent : option str) (s : str) : option str :=
  match s with
  | [] => match ent with None => Some [] | Some _ => None end
  | c :: r =>
      match ent with
      | Some acc =>
          if c =? 59 then match decode_ent (rev acc) with
                          | Some x => option_map (cons x) (attr_rd None r)
                          | None => None end
          else attr_rd (Some (c :: acc)) r
      | None =>
          if c =? 38 then attr_rd (Some []) r
          else if (c =? 60) || (c =? 34) then None
          else option_map (cons (if (c =? 9) || (c =? 10) || (c =? 13) then 32 else c)) (attr_rd None r)
      end
  end.
Definition attr_read (s : str) : option str := attr_rd None s.

(* ------------------------------------------------------------------ linked text (helpers.py) *)
(* what lxml.html.fragments_fromstring yields: optional leading text, then elements with tails *)
Inductive pnode :=
| PA (href : option str) (text : str) (nchildren : nat) (tail : str)
| POther (tail : str).
(* html.escape(s) (quote=True) *)
Definition html_esc1 (c : N) : str :=
  if c =? 38 then [38;97;109;112;59] else if c =? 60 then [38;108;116;59] else if c =? 62 then [38;103;116;59]
  else if c =? 34 then [38;113;117;111;116;59] else if c =? 39 then [38;35;120;50;55;59] else [c].
Definition html_esc (s : str) : str := flat_map html_esc1 s.
Definition HLINK : str := [104;108;105;110;107;58;47;47].     (* "hlink://" *)
Fixpoint strip_prefix (p s : str) : option str :=
  match p, s with
  | [], _ => Some s
  | x :: p', y :: s' => if x =? y then strip_prefix p' s' else None
  | _, [] => None
  end.
(* escape_linked_text, per element; [keep_tail] = the text after an <a> element is kept *)
Definition lt_esc_node (keep_tail : bool) (n : pnode) : res str :=
  match n with
  | POther _ => RErr E_ValueError
  | PA href text nch tail =>
      let body := match href with
                  | None => html_esc text
                  | Some h => match strip_prefix HLINK h with
                              | Some id => [60;97;32;104;114;101;102;61;34] ++ html_esc id ++ [34;47;62]
                              | None => html_esc text end
                  end in
      if Nat.eqb nch 0 then ROk (body ++ (if keep_tail then html_esc tail else [])) else RErr E_ValueError
  end.
Fixpoint lt_esc_nodes (keep_tail : bool) (l : list pnode) : res str :=
  match l with
  | [] => ROk []
  | n :: r => match lt_esc_node keep_tail n, lt_esc_nodes keep_tail r with
              | ROk a, ROk b => ROk (a ++ b) | RErr e, _ => RErr e | _, RErr e => RErr e end
  end.
Definition lt_escape (keep_tail : bool) (lead : str) (l : list pnode) : res str :=
  rmap (fun x => html_esc lead ++ x) (lt_esc_nodes keep_tail l).
(* abstract linked text: text pieces and links to live objects *)
Inductive frag := FText (s : str) | FLink (id : str).
(* stored form (the <bodies> text) and user-facing form (what __getitem__ returns) *)
Section LinkedText.
  Variable name_of : str -> str.             (* html.escape(target name), every link live *)
  Definition stored1 (f : frag) : str :=
    match f with FText s => html_esc s | FLink id => [60;97;32;104;114;101;102;61;34] ++ html_esc id ++ [34;47;62] end.
  Definition user1 (f : frag) : str :=
    match f with
    | FText s => html_esc s
    | FLink id => [60;97;32;104;114;101;102;61;34] ++ HLINK ++ html_esc id ++ [34;62] ++ name_of id ++ [60;47;97;62]
    end.
  Definition stored (d : list frag) : str := flat_map stored1 d.
  Definition user (d : list frag) : str := flat_map user1 d.
  (* the parse of [user d]: leading text, then one <a> per link carrying the following text as tail.
     Canonical documents alternate: (text, [(link, text)...]) *)
  Definition cdoc := (str * list (str * str))%type.     (* lead, [(id, following text)] *)
  Definition cdoc_frags (c : cdoc) : list frag :=
    FText (fst c) :: flat_map (fun p => [FLink (fst p); FText (snd p)]) (snd c).
  Definition cdoc_nodes (c : cdoc) : list pnode :=
    map (fun p => PA (Some (HLINK ++ fst p)) (name_of (fst p)) 0 (snd p)) (snd c).
End LinkedText.

(* ------------------------------------------------------------------ wrappers for the correspondence *)
Definition of_attrs (e : attrs) : val := VL (map (fun kv => VL [VS (fst kv); VS (snd kv)]) e).
Fixpoint as_attrs (l : list val) : option attrs :=
  match l with
  | [] => Some []
  | VL [VS k; VS v] :: r => match as_attrs r with Some r' => Some ((k, v) :: r') | None => None end
  | _ => None
  end.
Definition of_err (o : option N) : val := match o with Some e => VE e | None => VNone end.
Definition of_res {A} (f : A -> val) (r : res A) : val := match r with ROk a => f a | RErr e => VE e end.

Definition w_xml_ok (v : val) : val := match v with VS s => VB (xml_ok s) | _ => bad end.
Definition w_int_to (v : val) : val := match v with VZ z => VS (Z_dec z) | _ => bad end.
Definition w_int_from (v : val) : val := match v with VS s => of_res VZ (Z_parse s) | _ => bad end.
Definition w_re_set (v : val) : val := match v with VS s => VS (re_set s) | _ => bad end.
Definition w_re_get (v : val) : val := match v with VS s => VS (re_get s) | _ => bad end.
Definition w_escape (v : val) : val := match v with VS s => of_res VS (escape_attr s) | _ => bad end.
Definition w_attr_read (v : val) : val :=
  match v with VS s => match attr_read s with Some x => VS x | None => VNone end | _ => bad end.

Definition of_dt (x : dt) : val :=
  VL [VZ (Z.of_N (d_y x)); VZ (Z.of_N (d_mo x)); VZ (Z.of_N (d_d x)); VZ (Z.of_N (d_h x)); VZ (Z.of_N (d_mi x));
      VZ (Z.of_N (d_s x)); VZ (Z.of_N (d_us x)); VB (d_naive x); VB (d_oneg x); VZ (Z.of_N (d_omin x))].
Definition as_dt (v : val) : option dt :=
  match v with
  | VL [VZ y; VZ mo; VZ d; VZ h; VZ mi; VZ s; VZ us; VB nv; VB ng; VZ om] =>
      Some {| d_y := Z.to_N y; d_mo := Z.to_N mo; d_d := Z.to_N d; d_h := Z.to_N h; d_mi := Z.to_N mi; d_s := Z.to_N s;
              d_us := Z.to_N us; d_naive := nv; d_oneg := ng; d_omin := Z.to_N om |}
  | _ => None
  end.
Definition w_dt_to (v : val) : val := match as_dt v with Some x => of_res VS (dt_to local_utc x) | None => bad end.
Definition w_dt_from (v : val) : val := match v with VS s => of_res of_dt (dt_from s) | _ => bad end.

Definition enum_tab (i : nat) : option (bool * list (str * str)) :=
  match nth_error enum_tabs i with Some (_, st, t) => Some (st, t) | None => None end.
Definition as_ev (v : val) : option ev :=
  match v with VZ i => Some (EObj (Z.to_nat i)) | VS s => Some (EName s) | _ => None end.
Definition of_ev (v : ev) : val := match v with EObj i => VZ (Z.of_nat i) | EName s => VS s end.
Definition w_enum_to (v : val) : val :=
  match v with
  | VL [VZ e; x] => match enum_tab (Z.to_nat e), as_ev x with
                    | Some (_, t), Some x => of_res VS (enum_to t x) | _, _ => bad end
  | _ => bad
  end.
Definition w_enum_from (v : val) : val :=
  match v with
  | VL [VZ e; VS s] => match enum_tab (Z.to_nat e) with Some (_, t) => of_res of_ev (enum_from t s) | None => bad end
  | _ => bad
  end.

(* floats in the correspondence: a finite float is its repr text; VL [VZ tag; VS repr], tag 0 finite 1 nan 2 +inf 3 -inf *)
Definition fz (s : str) : bool := str_eqb s [48;46;48] || str_eqb s [45;48;46;48].
Definition w_feq (a b : str) : bool := str_eqb a b || (fz a && fz b).
Definition w_fparse (s : str) : option (fl str) := if str_eqb s src_float_inf_marker then None else Some (FFin s).
Definition as_fl (v : val) : option (fl str) :=
  match v with
  | VL [VZ 0%Z; VS r] => Some (FFin r) | VL [VZ 1%Z; _] => Some FNaN | VL [VZ 2%Z; _] => Some FPInf | VL [VZ 3%Z; _] => Some FNInf
  | _ => None
  end.
Definition of_fl (v : fl str) : val :=
  match v with FFin r => VL [VZ 0; VS r] | FNaN => VL [VZ 1; VS []] | FPInf => VL [VZ 2; VS []] | FNInf => VL [VZ 3; VS []] end.

Definition run_pod {V} (c : codec V) (wr : bool) (a : str) (e : attrs) (v : option V) (enc : V -> val) : val :=
  let '(e', er) := pod_set c wr a e v in
  VL [of_err er; of_attrs e'; of_res (fun o => match o with Some x => enc x | None => VNone end) (pod_get c a e')].
Definition opt_val {A} (dec : val -> option A) (v : val) : option (option A) :=
  match v with VNone => Some None | _ => match dec v with Some x => Some (Some x) | None => None end end.

(* input: [kind; writable; xml attribute; default; enum table index; attributes before; value]
   value = VNone for Python None; HTML values come as [text; repair_html(text)] (lxml is external)
   output: [exception or None; attributes after; value read back or exception] *)
Definition w_pod (v : val) : val :=
  match v with
  | VL [VZ k; VB wr; VS a; dflt; VZ en; VL e; x] =>
      match as_attrs e with
      | None => bad
      | Some e =>
        match k, dflt with
        | 0%Z, VS d => match opt_val as_str x with Some x => run_pod (str_codec d) wr a e x VS | None => bad end
        | 1%Z, VS d => match x with
                       | VNone => run_pod (html_codec (fun h => h) d) wr a e None VS
                       | VL [VS h; VS rep] => run_pod (html_codec (fun _ => rep) d) wr a e (Some h) VS
                       | _ => bad end
        | 2%Z, VB d => match opt_val as_bool x with Some x => run_pod (bool_codec d) wr a e x VB | None => bad end
        | 3%Z, VZ d => match opt_val as_Z x with Some x => run_pod (int_codec d) wr a e x VZ | None => bad end
        | 4%Z, VS d => match opt_val as_fl x with
                       | Some x => run_pod (float_codec str (fun r => r) w_fparse w_feq d) wr a e x of_fl | None => bad end
        | 5%Z, VNone => match opt_val as_dt x with Some x => run_pod (dt_codec local_utc) wr a e x of_dt | None => bad end
        | 6%Z, VZ d => match enum_tab (Z.to_nat en), opt_val as_ev x with
                       | Some (st, t), Some x => run_pod (enum_codec st t (Z.to_nat d)) wr a e x of_ev | _, _ => bad end
        | 7%Z, VS d => match x with
                       | VNone => run_pod (pvmt_codec d) wr a e None (fun v => VS (pv_raw v))
                       | VL [VB isrules; VS s] =>
                           run_pod (pvmt_codec d) wr a e (Some (if isrules then PVRules s else PVStr s)) (fun v => VS (pv_raw v))
                       | _ => bad end
        | _, _ => bad
        end
      end
  | _ => bad
  end.

(* linked text: [keep_tail; lead; [[href or None; text; nchildren; tail] | [tail]] ...] -> stored text *)
Definition as_pnode (v : val) : option pnode :=
  match v with
  | VL [VS h; VS t; VZ n; VS tl] => Some (PA (Some h) t (Z.to_nat n) tl)
  | VL [VNone; VS t; VZ n; VS tl] => Some (PA None t (Z.to_nat n) tl)
  | VL [VS tl] => Some (POther tl)
  | _ => None
  end.
Definition w_lt_escape (v : val) : val :=
  match v with
  | VL [VB keep; VS lead; VL ns] =>
      match all_some (map as_pnode ns) with Some l => of_res VS (lt_escape keep lead l) | None => bad end
  | _ => bad
  end.
Definition w_html_esc (v : val) : val := match v with VS s => VS (html_esc s) | _ => bad end.
