(* C20 / Reqif: executable model of capellambse/extensions/reqif/exporter.py.
   An abstract requirements module (folder tree of requirements with typed attributes,
   attribute definitions, data types, enumeration values) is mapped to an abstract ReqIF
   document (identifier per declared element, every *-REF text, spec objects, hierarchy,
   values).  All identifier / reference strings are built with the templates and NULL-*
   constants that tools/gen_reqif.py reads from the exporter's source on every run
   (Gen/Consts_reqif.v), one template per source site, so a definition site and a reference
   site that drift apart in the source drift apart here as well.
   lxml's HTML parser is external: it enters as the Section variable [xhtml].
   Executable definitions only; proofs are in Proofs/ReqifP.v. *)
From Coq Require Import ZArith NArith List Bool.
Import ListNotations.
From V Require Import Model.Val Model.PyPrims Gen.Consts_reqif.

(* ---------- small string helpers ---------- *)
Definition up_c (c : N) : N := if (N.leb 97 c && N.leb c 122)%bool then (c - 32)%N else c.
Definition up (s : str) : str := map up_c s.               (* str.upper() on ASCII *)
Definition memstr (x : str) (l : list str) : bool := existsb (str_eqb x) l.
Definition nonempty (s : str) : bool := match s with [] => false | _ => true end.
Definition opt_str_eqb (a b : option str) : bool :=
  match a, b with None, None => true | Some x, Some y => str_eqb x y | _, _ => false end.

Fixpoint uint_digits (u : Decimal.uint) : str :=
  match u with
  | Decimal.Nil => [] | Decimal.D0 r => 48%N :: uint_digits r | Decimal.D1 r => 49%N :: uint_digits r | Decimal.D2 r => 50%N :: uint_digits r
  | Decimal.D3 r => 51%N :: uint_digits r | Decimal.D4 r => 52%N :: uint_digits r | Decimal.D5 r => 53%N :: uint_digits r
  | Decimal.D6 r => 54%N :: uint_digits r | Decimal.D7 r => 55%N :: uint_digits r | Decimal.D8 r => 56%N :: uint_digits r
  | Decimal.D9 r => 57%N :: uint_digits r
  end.
Definition dec_of_Z (z : Z) : str :=                        (* str(int(x)) *)
  match z with
  | Z0 => [48%N]
  | Zpos p => uint_digits (Pos.to_uint p)
  | Zneg p => 45%N :: uint_digits (Pos.to_uint p)
  end.

(* ---------- the abstract module ---------- *)
Inductive kind := KBool | KDate | KEnum | KInt | KReal | KStr.
Definition kind_idx (k : kind) : nat :=
  match k with KBool => 0 | KDate => 1 | KEnum => 2 | KInt => 3 | KReal => 4 | KStr => 5 end.
Definition kind_name (k : kind) : str := nth (kind_idx k) KIND_NAMES [].     (* _attrtype2reqif *)
Definition kind_eqb (a b : kind) : bool := Nat.eqb (kind_idx a) (kind_idx b).

Record dtype := mkDt { dt_uuid : str; dt_values : list str }.                 (* (Enumeration)DataTypeDefinition *)
Record adef := mkAd { ad_uuid : str; ad_enum : bool; ad_multi : bool; ad_dtype : option dtype }.
Inductive payload :=
| PBool (b : bool) | PDate (d : option str) | PEnum (vs : list str) | PInt (z : Z)
| PReal (cls : N) (repr : str)      (* cls 1 = +inf, 2 = -inf, else finite with Python's str(float) *)
| PStr (s : str).
Record attr := mkAt { at_def : option adef; at_val : payload }.
Definition at_kind (a : attr) : kind :=
  match at_val a with PBool _ => KBool | PDate _ => KDate | PEnum _ => KEnum | PInt _ => KInt
                 | PReal _ _ => KReal | PStr _ => KStr end.
Record req := mkReq { r_uuid : str; r_type : option str; r_long : str; r_ident : str;
                      r_chap : str; r_name : str; r_text : str; r_attrs : list attr }.
Inductive folder := Folder (reqs : list req) (subs : list folder).
Record module := mkMod { m_model : str; m_uuid : str; m_type : option str; m_long : str; m_root : folder }.

(* the module's requirements in depth-first order (own requirements, then sub-folders) *)
Fixpoint dfs (f : folder) : list req :=
  match f with Folder rs subs => rs ++ flat_map dfs subs end.

(* ---------- the abstract ReqIF document ---------- *)
Record dtdecl := mkDd { dd_tag : str; dd_id : str; dd_vals : list str }.
Record addecl := mkAdd { a_tag : str; a_id : str; a_dtref : str; a_multi : option bool }.
Record sotype := mkSt { st_id : str; st_std : list addecl; st_attrs : list addecl }.
Inductive value :=
| VSimple (tag the_value defref : str)
| VXhtml (defref content : str)
| VEnumV (defref : str) (refs : list str).
Record sobj := mkSo { so_id : str; so_long : option str; so_values : list value; so_typeref : str }.
Record hier := mkH { h_id : str; h_ref : str }.
Record reqif := mkQ { q_header : str; q_datatypes : list dtdecl; q_sotypes : list sotype; q_stype : sotype;
                      q_objs : list sobj; q_spec_id : str; q_spec_typeref : str; q_spec_values : list value;
                      q_hier : list hier }.

Definition value_refs (v : value) : list str :=
  match v with VSimple _ _ d => [d] | VXhtml d _ => [d] | VEnumV d rs => d :: rs end.
Definition sotype_ids (t : sotype) : list str := st_id t :: map a_id (st_std t) ++ map a_id (st_attrs t).
Definition sotype_refs (t : sotype) : list str := map a_dtref (st_std t) ++ map a_dtref (st_attrs t).
Definition sobj_refs (o : sobj) : list str := flat_map value_refs (so_values o) ++ [so_typeref o].

(* every IDENTIFIER attribute of the document, in document order *)
Definition identifiers (q : reqif) : list str :=
  q_header q :: flat_map (fun d => dd_id d :: dd_vals d) (q_datatypes q)
  ++ flat_map sotype_ids (q_sotypes q) ++ sotype_ids (q_stype q)
  ++ map so_id (q_objs q) ++ [q_spec_id q] ++ map h_id (q_hier q).
(* the text of every *-REF element, in document order *)
Definition references (q : reqif) : list str :=
  flat_map sotype_refs (q_sotypes q) ++ sotype_refs (q_stype q)
  ++ flat_map sobj_refs (q_objs q)
  ++ [q_spec_typeref q] ++ flat_map value_refs (q_spec_values q) ++ map h_ref (q_hier q).

Fixpoint sequence {A} (l : list (result A)) : result (list A) :=
  match l with
  | [] => Ok []
  | Err e :: _ => Err e
  | Ok a :: r => match sequence r with Ok r' => Ok (a :: r') | Err e => Err e end
  end.

(* ---------- _collect_objects ---------- *)
Definition akey := (option adef * kind)%type.                 (* _AttributeDefinition(modelobj, type) *)
Definition akey_eqb (a b : akey) : bool :=
  opt_str_eqb (option_map ad_uuid (fst a)) (option_map ad_uuid (fst b)) && kind_eqb (snd a) (snd b).
Definition add_key (acc : list akey) (k : akey) : list akey :=
  if existsb (akey_eqb k) acc then acc else acc ++ [k].
Definition attr_key (a : attr) : akey := (at_def a, at_kind a).
Notation tytab := (list (option str * list akey)) (only parsing).
Fixpoint upd_ty (tys : tytab) (t : option str) (ks : list akey) : tytab :=
  match tys with
  | [] => [(t, fold_left add_key ks [])]
  | (t', ks') :: rest =>
      if opt_str_eqb t t' then (t', fold_left add_key ks ks') :: rest
      else (t', ks') :: upd_ty rest t ks
  end.
Notation cstate := (list str * list (option str * list akey))%type (only parsing).
Definition collect_requirement (st : cstate) (r : req) : cstate :=
  let '(seen, tys) := st in
  if memstr (r_uuid r) seen then st
  else (r_uuid r :: seen, upd_ty tys (r_type r) (map attr_key (r_attrs r))).
Fixpoint collect_folder (f : folder) (st : cstate) : cstate :=
  match f with
  | Folder rs subs =>
      (fix go (l : list folder) (st : cstate) : cstate :=
         match l with [] => st | f' :: t => go t (collect_folder f' st) end)
        subs (fold_left collect_requirement rs st)
  end.
Definition collect_objects (m : module) : list (option str * list akey) := snd (collect_folder (m_root m) ([], [])).

(* ---------- datatypes ---------- *)
Definition dedup_names (l : list (str * str * str)) : list (str * str * str) :=
  fold_left (fun acc x => if existsb (fun y => str_eqb (fst (fst x)) (fst (fst y))) acc then acc else acc ++ [x]) l [].
Definition std_datatypes : list dtdecl :=                    (* _synthesize_standard_datatypes *)
  map (fun x => mkDd (snd (fst x)) (T_std_datatype_id (fst (fst x))) [])
      (dedup_names (STD_SPEC_OBJECT_ATTRIBUTES ++ STD_SPECIFICATION_ATTRIBUTES)).

Definition dt_base (d : option adef) : str :=
  match d with
  | Some a => match ad_dtype a with Some t => T_dt_uuid (up (dt_uuid t)) | None => C_dt_null end
  | None => C_dt_null
  end.
Definition dt_enum_values (d : option adef) : result (list str) :=
  match d with
  | Some a => if ad_enum a then
                match ad_dtype a with
                | Some t => Ok (map (fun v => T_enumvalue_id (up v)) (dt_values t))
                | None => Err E_AttributeError       (* attrdef.data_type.values on None *)
                end
              else Ok []
  | None => Ok []
  end.
Fixpoint build_datatypes (keys : list akey) (visited : list str) : result (list dtdecl) :=
  match keys with
  | [] => Ok []
  | (d, k) :: rest =>
      let id := T_datatype_id (dt_base d) (kind_name k) in
      if memstr id visited then build_datatypes rest visited
      else match dt_enum_values d with
           | Err e => Err e
           | Ok vals => match build_datatypes rest (id :: visited) with
                        | Err e => Err e
                        | Ok r => Ok (mkDd (kind_name k) id vals :: r)
                        end
           end
  end.

(* ---------- spec types ---------- *)
Definition sot_base (t : option str) : str :=
  match t with Some u => T_sot_uuid (up u) | None => C_sot_null end.
Definition attid_of (d : option adef) : str :=
  match d with Some a => T_attid_uuid (up (ad_uuid a)) | None => C_attid_null end.
Definition dtid_of (d : option adef) : str :=
  match d with
  | Some a => match ad_dtype a with Some t => T_dtid_uuid (up (dt_uuid t)) | None => C_dtid_null_a end
  | None => C_dtid_null_b
  end.
Definition build_attr_decl (key : akey) : result addecl :=
  let '(d, k) := key in
  let K := kind_name k in
  let mk m := mkAdd K (T_attrdef_id (attid_of d) K) (T_attrdef_dtref (dtid_of d) K) m in
  match k with
  | KEnum => match d with
             | None => Err E_AssertionError              (* assert attr_def.modelobj is not None *)
             | Some a => if ad_enum a then Ok (mk (Some (ad_multi a)))
                         else Err E_AttributeError       (* AttributeDefinition has no multi_valued *)
             end
  | _ => Ok (mk None)
  end.
Definition std_attr_decls (tbl : list (str * str * str)) (idf : str -> str) (reff : str -> str) : list addecl :=
  map (fun x => mkAdd (snd (fst x)) (idf (fst (fst x))) (reff (fst (fst x))) None) tbl.
Definition build_sotype (e : option str * list akey) : result sotype :=
  let '(t, ks) := e in
  match sequence (map build_attr_decl ks) with
  | Err e => Err e
  | Ok ds => Ok (mkSt (T_sot_id (sot_base t))
                      (std_attr_decls STD_SPEC_OBJECT_ATTRIBUTES (T_stdattr_id (sot_base t)) T_stdattr_dtref) ds)
  end.
Definition spectype_base (t : option str) : str :=
  match t with Some u => T_spectype_uuid (up u) | None => C_spectype_null end.
Definition build_specification_type (t : option str) : sotype :=
  mkSt (match t with None => T_spectype_id_null (spectype_base t) | Some _ => T_spectype_id (spectype_base t) end)
       (std_attr_decls STD_SPECIFICATION_ATTRIBUTES (T_stdspecattr_id (spectype_base t)) T_stdspecattr_dtref) [].

Section Export.
(* lxml.html.fromstring + html_to_xhtml: the canonical form of the tree, or the exception it raises
   (ParserError for an empty document, ValueError for an invalid tag name) *)
Variable xhtml : str -> result str.

(* ---------- spec objects ---------- *)
Definition std_field (r : req) (pyattr : str) : result str :=
  if str_eqb pyattr [105;100;101;110;116;105;102;105;101;114]%N then Ok (r_ident r)            (* identifier *)
  else if str_eqb pyattr [99;104;97;112;116;101;114;95;110;97;109;101]%N then Ok (r_chap r)    (* chapter_name *)
  else if str_eqb pyattr [110;97;109;101]%N then Ok (r_name r)                                 (* name *)
  else if str_eqb pyattr [116;101;120;116]%N then Ok (r_text r)                                (* text *)
  else if str_eqb pyattr [108;111;110;103;95;110;97;109;101]%N then Ok (r_long r)              (* long_name *)
  else Err E_AttributeError.
Definition T_STRING : str := [83;84;82;73;78;71]%N.
Definition T_XHTML : str := [88;72;84;77;76]%N.
Definition stdval_base (t : option str) : str :=
  match t with Some u => T_stdval_type_uuid (up u) | None => C_stdval_type_null end.
Definition build_std_value (r : req) (row : str * str * str) : result (list value) :=
  let '(name, ty, pyattr) := row in
  let defref := T_stdval_defref (stdval_base (r_type r)) name in
  match std_field r pyattr with
  | Err e => Err e
  | Ok v =>
      if str_eqb ty T_STRING then Ok [VSimple T_STRING v defref]
      else if str_eqb ty T_XHTML then
        match xhtml (if nonempty v then v else EMPTY_HTML) with
        | Ok c => Ok [VXhtml defref c]
        | Err e => Err e
        end
      else Ok []
  end.
Definition attr_defref (k : kind) (d : option adef) : str :=   (* _ref_attribute_definition *)
  match d with
  | Some a => T_attrref_some (up (ad_uuid a)) (kind_name k)
  | None => T_attrref_none (kind_name k)
  end.
Definition s_true : str := [116;114;117;101]%N.
Definition s_false : str := [102;97;108;115;101]%N.
Definition s_inf : str := [73;110;102;105;110;105;116;121]%N.
Definition s_ninf : str := 45%N :: s_inf.
Definition build_attr_value (a : attr) : value :=
  let k := at_kind a in
  let K := kind_name k in
  let dr := attr_defref k (at_def a) in
  match at_val a with
  | PBool b => VSimple K (if b then s_true else s_false) dr
  | PDate None => VSimple K DATE_DEFAULT dr
  | PDate (Some s) => VSimple K s dr
  | PInt z => VSimple K (dec_of_Z z) dr
  | PReal cls repr => VSimple K (if N.eqb cls 1 then s_inf else if N.eqb cls 2 then s_ninf else repr) dr
  | PStr s => VSimple K s dr
  | PEnum vs => VEnumV dr (map (fun v => T_enumvalue_ref (up v)) vs)
  end.
Definition concat_res {A} (l : list (result (list A))) : result (list A) :=
  match sequence l with Ok ls => Ok (concat ls) | Err e => Err e end.
Definition build_spec_object (r : req) : result sobj :=
  match concat_res (map (build_std_value r) STD_SPEC_OBJECT_ATTRIBUTES) with
  | Err e => Err e
  | Ok std =>
      Ok (mkSo (T_specobj_id (up (r_uuid r)))
               (if nonempty (r_long r) then Some (r_long r) else None)
               (std ++ map build_attr_value (r_attrs r))
               (match r_type r with Some u => T_specobj_typeref (up u) | None => C_specobj_typeref_null end))
  end.
(* _build_spec_objects: own requirements, then each sub-folder *)
Fixpoint spec_objects_of (f : folder) : list (result sobj) :=
  match f with Folder rs subs => map build_spec_object rs ++ flat_map spec_objects_of subs end.

(* ---------- specification + hierarchy ---------- *)
Definition hier_object (r : req) : hier :=
  let id := T_hier_objref (up (r_uuid r)) in mkH (T_hier_id id) (T_hier_ref_is_id id).
Fixpoint hierarchy_of (f : folder) : list hier :=            (* create_hierarchy_folder *)
  match f with Folder rs subs => map hier_object rs ++ flat_map hierarchy_of subs end.
Definition spec_base (t : option str) : str :=
  match t with Some u => T_spec_type_uuid (up u) | None => C_spec_type_null end.
Definition s_div_open : str := [60;100;105;118;62]%N.
Definition s_div_close : str := [60;47;100;105;118;62]%N.
Definition build_spec_value (m : module) (row : str * str * str) : result (list value) :=
  let '(name, ty, pyattr) := row in
  let defref := T_spec_valdefref (spec_base (m_type m)) name in
  if str_eqb ty T_XHTML then
    match xhtml (s_div_open ++ m_long m ++ s_div_close) with
    | Ok c => Ok [VXhtml (T_spec_valref_a defref) c]
    | Err e => Err e
    end
  else Ok [VSimple ty (m_long m) (T_spec_valref_b defref)].

(* ---------- _build_content ---------- *)
Definition export (m : module) : result reqif :=
  let tys := collect_objects m in
  match build_datatypes (flat_map snd tys) [] with
  | Err e => Err e
  | Ok dts =>
  match sequence (map build_sotype tys) with
  | Err e => Err e
  | Ok sots =>
  match sequence (spec_objects_of (m_root m)) with
  | Err e => Err e
  | Ok objs =>
  match concat_res (map (build_spec_value m) STD_SPECIFICATION_ATTRIBUTES) with
  | Err e => Err e
  | Ok svals =>
      Ok (mkQ (T_header_id (up (m_model m)))
              (std_datatypes ++ dts) sots (build_specification_type (m_type m))
              objs (T_spec_id (up (m_uuid m))) (T_spec_typeref (spec_base (m_type m))) svals
              (hierarchy_of (m_root m)))
  end end end end.
End Export.

(* ---------- export_module: the compress decision and the container ---------- *)
Fixpoint ends_with_rev (rs rsuf : str) : bool :=
  match rsuf, rs with
  | [], _ => true
  | x :: a, y :: b => N.eqb x y && ends_with_rev b a
  | _ :: _, [] => false
  end.
Definition ends_with (s suf : str) : bool := ends_with_rev (rev s) (rev suf).
(* compress argument (None / Some b), whether the target is a path, the path text *)
Definition decide_compress (c : option bool) (is_path : bool) (name : str) : bool :=
  match c with
  | None => if is_path then ends_with name COMPRESS_SUFFIX else false
  | Some _ => false
  end.
Section Container.
Variable zip : list (str * str) -> str.                      (* zipfile stand-in *)
Definition write_container (compress : bool) (doc : str) : str :=
  if compress then zip [(ARCHIVE_MEMBER, doc)] else doc.
End Container.

(* ---------- val wrappers for the correspondence ---------- *)
Definition dec_opt_str (v : val) : option (option str) :=
  match v with VNone => Some None | VS s => Some (Some s) | _ => None end.
Definition dec_dtype (v : val) : option (option dtype) :=
  match v with
  | VNone => Some None
  | VL [VS u; vs] => match as_strs vs with Some l => Some (Some (mkDt u l)) | None => None end
  | _ => None
  end.
Definition dec_adef (v : val) : option (option adef) :=
  match v with
  | VNone => Some None
  | VL [VS u; VB e; VB mv; dt] => match dec_dtype dt with Some d => Some (Some (mkAd u e mv d)) | None => None end
  | _ => None
  end.
Definition dec_payload (v : val) : option payload :=
  match v with
  | VL [VZ 0; VB b] => Some (PBool b)
  | VL [VZ 1; d] => match dec_opt_str d with Some o => Some (PDate o) | None => None end
  | VL [VZ 2; vs] => match as_strs vs with Some l => Some (PEnum l) | None => None end
  | VL [VZ 3; VZ z] => Some (PInt z)
  | VL [VZ 4; VZ c; VS r] => Some (PReal (Z.to_N c) r)
  | VL [VZ 5; VS s] => Some (PStr s)
  | _ => None
  end.
Definition dec_attr (v : val) : option attr :=
  match v with
  | VL [d; p] => match dec_adef d, dec_payload p with Some d', Some p' => Some (mkAt d' p') | _, _ => None end
  | _ => None
  end.
Definition dec_req (v : val) : option req :=
  match v with
  | VL [VS u; t; VS long; VS ident; VS chap; VS name; VS text; VL attrs] =>
      match dec_opt_str t, all_some (map dec_attr attrs) with
      | Some t', Some a' => Some (mkReq u t' long ident chap name text a')
      | _, _ => None
      end
  | _ => None
  end.
Fixpoint dec_folder (v : val) : option folder :=
  match v with
  | VL [VL rs; VL subs] =>
      match all_some (map dec_req rs),
            (fix go (l : list val) : option (list folder) :=
               match l with
               | [] => Some []
               | x :: t => match dec_folder x, go t with Some f, Some r => Some (f :: r) | _, _ => None end
               end) subs with
      | Some rs', Some subs' => Some (Folder rs' subs')
      | _, _ => None
      end
  | _ => None
  end.
Definition dec_module (v : val) : option module :=
  match v with
  | VL [VS model; VS u; t; VS long; f] =>
      match dec_opt_str t, dec_folder f with
      | Some t', Some f' => Some (mkMod model u t' long f')
      | _, _ => None
      end
  | _ => None
  end.
Fixpoint lookup_x (tbl : list val) (s : str) : result str :=
  match tbl with
  | VL [VS k; v] :: r => if str_eqb k s then match v with VS c => Ok c | VE e => Err e | _ => Err E_Malformed end
                         else lookup_x r s
  | _ => Err E_Malformed
  end.

Fixpoint str_leb (a b : str) : bool :=
  match a, b with
  | [], _ => true
  | _ :: _, [] => false
  | x :: a', y :: b' => if N.ltb x y then true else if N.ltb y x then false else str_leb a' b'
  end.
Fixpoint insert_by {A} (key : A -> str) (x : A) (l : list A) : list A :=
  match l with
  | [] => [x]
  | y :: r => if str_leb (key x) (key y) then x :: l else y :: insert_by key x r
  end.
Definition sort_by {A} (key : A -> str) (l : list A) : list A := fold_right (insert_by key) [] l.

Definition enc_opt_str (o : option str) : val := match o with Some s => VS s | None => VNone end.
Definition enc_addecl (d : addecl) : val :=
  VL [VS (a_tag d); VS (a_id d); VS (a_dtref d); match a_multi d with Some b => VB b | None => VNone end].
Definition enc_sotype (t : sotype) : val :=
  VL [VS (st_id t); VL (map enc_addecl (st_std t)); VL (map enc_addecl (sort_by a_id (st_attrs t)))].
Definition enc_value (v : value) : val :=
  match v with
  | VSimple t x d => VL [VZ 0; VS t; VS x; VS d]
  | VXhtml d c => VL [VZ 1; VS d; VS c]
  | VEnumV d rs => VL [VZ 2; VS d; of_strs rs]
  end.
Definition enc_sobj (o : sobj) : val :=
  VL [VS (so_id o); enc_opt_str (so_long o); VL (map enc_value (so_values o)); VS (so_typeref o)].
Definition enc_reqif (q : reqif) : val :=
  VL [VS (q_header q);
      VL (map (fun d => VL [VS (dd_tag d); VS (dd_id d); of_strs (dd_vals d)]) (sort_by dd_id (q_datatypes q)));
      VL (map enc_sotype (sort_by st_id (q_sotypes q)));
      enc_sotype (q_stype q);
      VL (map enc_sobj (q_objs q));
      VL [VS (q_spec_id q); VS (q_spec_typeref q); VL (map enc_value (q_spec_values q));
          VL (map (fun h => VL [VS (h_id h); VS (h_ref h)]) (q_hier q))];
      of_strs (sort_by (fun s => s) (identifiers q));
      of_strs (sort_by (fun s => s) (references q))].
(* input: [module; xhtml table] *)
Definition w_export (v : val) : val :=
  match v with
  | VL [mv; VL tbl] =>
      match dec_module mv with
      | Some m => match export (lookup_x tbl) m with Ok q => enc_reqif q | Err e => VE e end
      | None => bad
      end
  | _ => bad
  end.
(* input: [compress (None/bool); is_path; name] -> compressed? *)
Definition w_compress (v : val) : val :=
  match v with
  | VL [c; VB p; VS name] =>
      match c with
      | VNone => VB (decide_compress None p name)
      | VB b => VB (decide_compress (Some b) p name)
      | _ => bad
      end
  | _ => bad
  end.
(* input: a requirement folder; output the uuids in depth-first order *)
Definition w_dfs (v : val) : val :=
  match dec_folder v with Some f => of_strs (map r_uuid (dfs f)) | None => bad end.
Definition w_dec (v : val) : val := match v with VZ z => VS (dec_of_Z z) | _ => bad end.
Definition w_upper (v : val) : val := match v with VS s => VS (up s) | _ => bad end.
