(* C10 — reference search with its XPath pre-filter, and list filters. *)
From Coq Require Import ZArith List Bool.
Import ListNotations.
From V Require Import Model.Val.
Open Scope Z_scope.

Definition memq (x : Z) (l : list Z) : bool := existsb (Z.eqb x) l.

(* an object as the reference search sees it: the ids that occur as '#id' in its own attributes, in the
   attributes of its direct children, and its link-storing relations (name, ordered targets) *)
Record qobj := mkQ { q_h : Z; q_own : list Z; q_child : list Z; q_rels : list (Z * list Z) }.

Fixpoint index_of (y : Z) (l : list Z) (i : Z) : option Z :=
  match l with [] => None | x :: r => if x =? y then Some i else index_of y r (i + 1) end.

(* //*[@*[contains(., '#y')] | */@*[contains(., '#y')]] *)
Definition prefilter (y : Z) (x : qobj) : bool := memq y (q_own x) || memq y (q_child x).
Definition hits (y : Z) (x : qobj) : list (Z * Z * Z) :=
  flat_map (fun r => match index_of y (snd r) 0 with Some i => [(q_h x, fst r, i)] | None => [] end) (q_rels x).
Definition find_references (xs : list qobj) (y : Z) : list (Z * Z * Z) := flat_map (hits y) (filter (prefilter y) xs).
Definition brute_force (xs : list qobj) (y : Z) : list (Z * Z * Z) := flat_map (hits y) xs.

(* back-reference accessor: candidates of the given classes whose listed relations contain y *)
Definition backrefs (xs : list qobj) (attrs : list Z) (y : Z) : list Z :=
  map q_h (filter (fun x => existsb (fun r => memq (fst r) attrs && memq y (snd r)) (q_rels x)) xs).

(* list filters: the key of an element may be unavailable (AttributeError) *)
Definition by_key (key : Z -> option Z) (v : Z) (l : list Z) : list Z :=
  filter (fun e => match key e with Some k => k =? v | None => false end) l.
Definition exclude_key (key : Z -> option Z) (v : Z) (l : list Z) : list Z :=
  filter (fun e => match key e with Some k => negb (k =? v) | None => true end) l.
(* before the fix a member whose key cannot be read matched neither filter *)
Definition exclude_key_old (key : Z -> option Z) (v : Z) (l : list Z) : list Z :=
  filter (fun e => match key e with Some k => negb (k =? v) | None => false end) l.
Definition single (l : list Z) : option Z := match l with [x] => Some x | _ => None end.

(* wrappers *)
Definition dec_zl (v : val) : option (list Z) := match v with VL l => all_some (map as_Z l) | _ => None end.
Definition dec_rel (v : val) : option (Z * list Z) := match v with VL [VZ n; ts] => match dec_zl ts with Some ts => Some (n, ts) | None => None end | _ => None end.
Definition dec_q (v : val) : option qobj :=
  match v with
  | VL [VZ h; own; ch; VL rels] =>
      match dec_zl own, dec_zl ch, all_some (map dec_rel rels) with
      | Some own, Some ch, Some rels => Some (mkQ h own ch rels)
      | _, _, _ => None end
  | _ => None
  end.
Definition enc_hits (l : list (Z * Z * Z)) : val := VL (map (fun t => match t with (h, r, i) => VL [VZ h; VZ r; VZ i] end) l).
Definition w_find_references (v : val) : val :=
  match v with
  | VL [VL xs; VZ y] => match all_some (map dec_q xs) with Some xs => enc_hits (find_references xs y) | None => bad end
  | _ => bad
  end.
Definition w_filters (v : val) : val :=
  match v with
  | VL [VL keys; VZ val_; l] =>
      match all_some (map (fun p => match p with VL [VZ e; VNone] => Some (e, None) | VL [VZ e; VZ k] => Some (e, Some k) | _ => None end) keys), dec_zl l with
      | Some keys, Some l =>
          let key := fun e => match find (fun p => fst p =? e) keys with Some p => snd p | None => None end in
          VL [VL (map VZ (by_key key val_ l)); VL (map VZ (exclude_key key val_ l))]
      | _, _ => bad
      end
  | _ => bad
  end.

(* ReferenceSearchingAccessor.__get__ as its loop is written: for each candidate the attribute paths in order; a path
   that cannot be followed (AttributeError: "source.owner" when source is empty) is skipped and the NEXT path is tried;
   the first path whose value contains y reports the candidate, once *)
Fixpoint paths_hit (y : Z) (ps : list (option (list Z))) : bool :=
  match ps with
  | [] => false
  | None :: r => paths_hit y r
  | Some vs :: r => memq y vs || paths_hit y r
  end.
(* ... and with `break` in place of `continue` on a path that cannot be followed *)
Fixpoint paths_hit_break (y : Z) (ps : list (option (list Z))) : bool :=
  match ps with
  | [] => false
  | None :: _ => false
  | Some vs :: r => memq y vs || paths_hit_break y r
  end.
Definition backrefs_loop (cs : list (Z * list (option (list Z)))) (y : Z) : list Z :=
  map fst (filter (fun c => paths_hit y (snd c)) cs).
Definition backrefs_loop_break (cs : list (Z * list (option (list Z)))) (y : Z) : list Z :=
  map fst (filter (fun c => paths_hit_break y (snd c)) cs).

Definition dec_path (v : val) : option (option (list Z)) :=
  match v with VNone => Some None | VL l => option_map Some (all_some (map as_Z l)) | _ => None end.
Definition dec_cand (v : val) : option (Z * list (option (list Z))) :=
  match v with VL [VZ h; VL ps] => option_map (pair h) (all_some (map dec_path ps)) | _ => None end.
(* [candidates; y] -> handles of the reported candidates, in candidate order *)
Definition w_backrefs_loop (v : val) : val :=
  match v with
  | VL [VL cs; VZ y] => match all_some (map dec_cand cs) with Some cs => VL (map VZ (backrefs_loop cs y)) | None => bad end
  | _ => bad
  end.
