(* C18 / types shared by the generated tables (Gen/SvgTables.v) and the drawing model
   (Model/SvgDraw.v).  Executable definitions only. *)
From Coq Require Import ZArith NArith List Bool.
Import ListNotations.
From V Require Import Model.Val.
Open Scope N_scope.

(* a CSS style value as capstyle.STYLES / style overrides hold it; colours are kept as the
   hex text RGB.tohex() yields (the only way the drawing code uses them in ids) *)
Inductive sval :=
| SvNone
| SvInt (z : Z)
| SvStr (s : str)
| SvRGB (hex : str)
| SvGrad (hexes : list str).

Notation styles := (list (str * sval)) (only parsing).
Notation style_table := (list (str * list (str * list (str * sval)))) (only parsing).

Record marker_row := mk_marker {
  mk_name : str;
  mk_id_ok : bool;            (* factory(id_) returns an element whose id is id_ *)
  mk_ids : list str;          (* ids inside (probe id included) *)
  mk_refs : list str;         (* references inside *)
  mk_deps : list str }.

Record symbol_row := mk_symbol {
  sy_key : str;               (* registry key, e.g. "LogicalComponentSymbol" *)
  sy_id : str;                (* id of the element the factory returns *)
  sy_ids : list str;          (* all ids inside, own id included *)
  sy_refs : list str;         (* all url(#..)/href="#.." targets inside *)
  sy_deps : list str }.       (* declared dependencies, names without "Symbol" *)

(* ---- strings ---- *)
(* string equality that stops at the first difference (Val.str_eqb's [&&] is strict under vm_compute) *)
Fixpoint seqb (a b : str) : bool :=
  match a, b with
  | [], [] => true
  | x :: a', y :: b' => if N.eqb x y then seqb a' b' else false
  | _, _ => false
  end.
Definition mem_str (s : str) (l : list str) : bool := existsb (seqb s) l.
Fixpoint subset_str (a b : list str) : bool :=
  match a with [] => true | x :: r => if mem_str x b then subset_str r b else false end.
Fixpoint assoc {A} (k : str) (l : list (str * A)) : option A :=
  match l with [] => None | (k', v) :: r => if seqb k k' then Some v else assoc k r end.

(* lexicographic order on code points = Python's str order *)
Fixpoint str_ltb (a b : str) : bool :=
  match a, b with
  | [], [] => false
  | [], _ :: _ => true
  | _ :: _, [] => false
  | x :: a', y :: b' => if x <? y then true else if y <? x then false else str_ltb a' b'
  end.
Fixpoint insert_sorted (x : str) (l : list str) : list str :=
  match l with
  | [] => [x]
  | y :: r => if seqb x y then l else if str_ltb x y then x :: l else y :: insert_sorted x r
  end.
(* sorted(set(l)) *)
Definition sort_set (l : list str) : list str := fold_right insert_sorted [] l.
Fixpoint insert_dup (x : str) (l : list str) : list str :=
  match l with
  | [] => [x]
  | y :: r => if str_ltb y x then y :: insert_dup x r else x :: l
  end.
(* sorted(l), duplicates kept *)
Definition sort_list (l : list str) : list str := fold_right insert_dup [] l.

Definition lower1 (c : N) : N := if (65 <=? c) && (c <=? 90) then c + 32 else c.
Definition lower (s : str) : str := map lower1 s.
Fixpoint prefixb (p s : str) : bool :=
  match p, s with
  | [], _ => true
  | x :: p', y :: s' => if N.eqb x y then prefixb p' s' else false
  | _, [] => false
  end.
Fixpoint containsb (s sub : str) : bool :=
  if prefixb sub s then true else match s with [] => false | _ :: r => containsb r sub end.
Definition has_char (c : N) (s : str) : bool := existsb (N.eqb c) s.
(* s.split(".", 1)[0] *)
Fixpoint before_dot (s : str) : str :=
  match s with [] => [] | c :: r => if c =? 46 then [] else c :: before_dot r end.
Fixpoint drop (n : nat) (s : str) : str :=
  match n, s with O, _ => s | S n', _ :: r => drop n' r | _, [] => [] end.
