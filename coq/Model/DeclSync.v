(* DeclSync: the find-or-create semantics of decl._operate_sync / _resolve_findby for documents made
   only of `sync` instructions (find keys, `set` values, nested `sync`; no promises, no `extend`),
   on a tree of objects with string attributes and named child lists.
   Executable definitions only. *)
From Coq Require Import ZArith NArith List Bool.
Import ListNotations.
From V Require Import Model.Val.

(* an object: its string attributes (first binding of a key counts) and its child lists *)
Inductive obj := Obj (attrs : list (str * str)) (kids : list (str * list obj)).
Definition o_attrs (x : obj) := match x with Obj a _ => a end.
Definition o_kids (x : obj) := match x with Obj _ k => k end.

(* a sync entry: find attributes, set attributes, nested sync groups *)
Inductive entry := Entry (find : list (str * str)) (set : list (str * str)) (nested : sgroups)
with entries := SNil | SCons (e : entry) (r : entries)
with sgroups := QNil | QCons (attr : str) (es : entries) (r : sgroups).

Definition e_find (e : entry) := match e with Entry f _ _ => f end.
Definition e_set (e : entry) := match e with Entry _ s _ => s end.
Definition e_nested (e : entry) := match e with Entry _ _ g => g end.

(* reading an attribute that was never written gives the empty string (the POD default) *)
Fixpoint get (k : str) (l : list (str * str)) : str :=
  match l with [] => [] | (k', v) :: r => if str_eqb k k' then v else get k r end.
Fixpoint has_key {B} (k : str) (l : list (str * B)) : bool :=
  match l with [] => false | (k', _) :: r => str_eqb k k' || has_key k r end.
(* setattr: overwrite the binding, or add one *)
Fixpoint set_attr (k v : str) (l : list (str * str)) : list (str * str) :=
  match l with
  | [] => [(k, v)]
  | (k', v') :: r => if str_eqb k k' then (k', v) :: r else (k', v') :: set_attr k v r
  end.
Definition set_attrs (s l : list (str * str)) : list (str * str) :=
  fold_left (fun l kv => set_attr (fst kv) (snd kv) l) s l.

Fixpoint get_kids (a : str) (l : list (str * list obj)) : list obj :=
  match l with [] => [] | (a', k) :: r => if str_eqb a a' then k else get_kids a r end.
Fixpoint set_kids (a : str) (k : list obj) (l : list (str * list obj)) : list (str * list obj) :=
  match l with
  | [] => [(a, k)]
  | (a', k') :: r => if str_eqb a a' then (a', k) :: r else (a', k') :: set_kids a k r
  end.

(* _resolve_findby's filter: every find attribute reads back equal *)
Definition matches (f : list (str * str)) (x : obj) : bool :=
  forallb (fun kv => str_eqb (get (fst kv) (o_attrs x)) (snd kv)) f.
Definition count_matches (f : list (str * str)) (l : list obj) : nat := length (filter (matches f) l).

Fixpoint mapM {A B} (f : A -> option B) (l : list A) : option (list B) :=
  match l with
  | [] => Some []
  | x :: r => match f x, mapM f r with Some y, Some r' => Some (y :: r') | _, _ => None end
  end.

(* None = ValueError("Ambiguous match directive") *)
Fixpoint sync_entry (e : entry) (l : list obj) {struct e} : option (list obj) :=
  match e with
  | Entry f s g =>
      match count_matches f l with
      | O =>
          (* no candidate: create from find | set, then the nested sync finds it again and descends *)
          match sync_groups g (Obj (f ++ s) []) with
          | Some n => Some (l ++ [n])
          | None => None
          end
      | S O =>
          (* the candidate: nested sync first, then set *)
          mapM (fun x => if matches f x
                         then match sync_groups g x with
                              | Some x' => Some (Obj (set_attrs s (o_attrs x')) (o_kids x'))
                              | None => None
                              end
                         else Some x) l
      | _ => None
      end
  end
with sync_entries (es : entries) (l : list obj) {struct es} : option (list obj) :=
  match es with
  | SNil => Some l
  | SCons e r => match sync_entry e l with Some l' => sync_entries r l' | None => None end
  end
with sync_groups (g : sgroups) (x : obj) {struct g} : option obj :=
  match g with
  | QNil => Some x
  | QCons a es r =>
      match sync_entries es (get_kids a (o_kids x)) with
      | Some l' => sync_groups r (Obj (o_attrs x) (set_kids a l' (o_kids x)))
      | None => None
      end
  end.

(* number of objects in a tree *)
Fixpoint size (x : obj) : nat :=
  match x with
  | Obj _ k => S ((fix go (k : list (str * list obj)) : nat :=
                     match k with
                     | [] => O
                     | (_, l) :: r => ((fix gol (l : list obj) : nat :=
                                          match l with [] => O | y :: l' => size y + gol l' end) l + go r)%nat
                     end) k)
  end.

(* ------------------------------------------------------------------ well-formed sync documents *)
Definition NAME : str := [110; 97; 109; 101]%N.
Fixpoint nodup_keys {B} (l : list (str * B)) : bool :=
  match l with [] => true | (k, _) :: r => negb (has_key k r) && nodup_keys r end.
Definition disjoint_keys (a b : list (str * str)) : bool := forallb (fun kv => negb (has_key (fst kv) b)) a.
Fixpoint mem_str (s : str) (l : list str) : bool :=
  match l with [] => false | x :: r => str_eqb s x || mem_str s r end.

Fixpoint entry_names (es : entries) : list str :=
  match es with SNil => [] | SCons e r => get NAME (e_find e) :: entry_names r end.
Fixpoint nodup_strs (l : list str) : bool :=
  match l with [] => true | x :: r => negb (mem_str x r) && nodup_strs r end.
Fixpoint group_attrs (g : sgroups) : list str :=
  match g with QNil => [] | QCons a _ r => a :: group_attrs r end.

(* find_keys_stable: every entry is keyed by a name (plus optional further find attributes), the keys of a
   mapping are distinct, `set` does not touch a find key, the entries of one list have different names and
   one sync mapping mentions a list once *)
Fixpoint wf_entry (e : entry) : bool :=
  match e with
  | Entry f s g =>
      has_key NAME f && nodup_keys f && nodup_keys s && disjoint_keys s f && wf_groups g
  end
with wf_entries (es : entries) : bool :=
  match es with SNil => true | SCons e r => wf_entry e && wf_entries r end
with wf_groups (g : sgroups) : bool :=
  match g with
  | QNil => true
  | QCons a es r => wf_entries es && nodup_strs (entry_names es) && negb (mem_str a (group_attrs r)) && wf_groups r
  end.

(* ------------------------------------------------------------------ val decoding / encoding *)
Definition dec_pair (v : val) : option (str * str) :=
  match v with VL [VS k; VS x] => Some (k, x) | _ => None end.
Definition dec_pairs (v : val) : option (list (str * str)) :=
  match v with VL l => all_some (map dec_pair l) | _ => None end.

Fixpoint dec_obj (v : val) {struct v} : option obj :=
  match v with
  | VL [a; VL ks] =>
      match dec_pairs a,
            (fix go (ks : list val) : option (list (str * list obj)) :=
               match ks with
               | [] => Some []
               | VL [VS attr; VL xs] :: r =>
                   match (fix gol (xs : list val) : option (list obj) :=
                            match xs with
                            | [] => Some []
                            | x :: r' => match dec_obj x, gol r' with Some o, Some l => Some (o :: l) | _, _ => None end
                            end) xs, go r with
                   | Some l, Some k => Some ((attr, l) :: k)
                   | _, _ => None
                   end
               | _ => None
               end) ks with
      | Some a, Some k => Some (Obj a k)
      | _, _ => None
      end
  | _ => None
  end.

Fixpoint dec_entry (v : val) {struct v} : option entry :=
  match v with
  | VL [f; s; VL gs] =>
      match dec_pairs f, dec_pairs s,
            (fix go (gs : list val) : option sgroups :=
               match gs with
               | [] => Some QNil
               | VL [VS attr; VL xs] :: r =>
                   match (fix goe (xs : list val) : option entries :=
                            match xs with
                            | [] => Some SNil
                            | x :: r' => match dec_entry x, goe r' with Some e, Some l => Some (SCons e l) | _, _ => None end
                            end) xs, go r with
                   | Some es, Some g => Some (QCons attr es g)
                   | _, _ => None
                   end
               | _ => None
               end) gs with
      | Some f, Some s, Some g => Some (Entry f s g)
      | _, _, _ => None
      end
  | _ => None
  end.
Definition dec_groups (v : val) : option sgroups :=
  match dec_entry (VL [VL []; VL []; v]) with Some e => Some (e_nested e) | None => None end.

Fixpoint enc_obj (x : obj) : val :=
  match x with
  | Obj a k =>
      VL [VL (map (fun kv => VL [VS (fst kv); VS (snd kv)]) a);
          VL ((fix go (k : list (str * list obj)) : list val :=
                 match k with
                 | [] => []
                 | (attr, l) :: r => VL [VS attr; VL ((fix gol (l : list obj) : list val :=
                                                        match l with [] => [] | y :: l' => enc_obj y :: gol l' end) l)] :: go r
                 end) k)]
  end.

(* observation: the attributes the harness lists, and the child lists the harness lists, recursively *)
Fixpoint observe (fuel : nat) (akeys lkeys : list str) (x : obj) : val :=
  match fuel with
  | O => VNone
  | S f => VL [VL (map (fun k => VS (get k (o_attrs x))) akeys);
               VL (map (fun a => VL (map (observe f akeys lkeys) (get_kids a (o_kids x)))) lkeys)]
  end.

(* input: [object tree; sync groups; attribute keys to observe; list keys to observe]
   output: [wf?; size and observation after the first run; same after the second run] *)
Definition w_sync2 (v : val) : val :=
  match v with
  | VL [xo; gs; ak; lk] =>
      match dec_obj xo, dec_groups gs, as_strs ak, as_strs lk with
      | Some x, Some g, Some ak, Some lk =>
          match sync_groups g x with
          | None => VL [VB (wf_groups g); VE E_ValueError]
          | Some x1 =>
              match sync_groups g x1 with
              | None => VL [VB (wf_groups g); VL [VZ (Z.of_nat (size x1)); observe 12 ak lk x1]; VE E_ValueError]
              | Some x2 => VL [VB (wf_groups g); VL [VZ (Z.of_nat (size x1)); observe 12 ak lk x1];
                               VL [VZ (Z.of_nat (size x2)); observe 12 ak lk x2]]
              end
          end
      | _, _, _, _ => bad
      end
  | _ => bad
  end.
