(* MX / XmlRead: a reference reader for exactly the language the writer of Model/SerExs.v
   emits — the stand-in for lxml's XMLParser(remove_blank_text=True) on such input.
     * entity / character reference decoding ([unesc]): the five predefined XML entities and
       hexadecimal character references;
     * [read_nodes]: start/empty/end tags with double-quoted attributes, arbitrary XML
       whitespace between attributes and between child elements (ignorable whitespace is
       dropped), no character data (stage A: attribute-only trees).
   The result is a [relem] whose attribute values are decoded and whose [expanded] flag says
   whether the element was written with a separate end tag and no children.
   Executable definitions only. *)
From Coq Require Import ZArith NArith List Bool.
Import ListNotations.
From V Require Import Model.Val Model.XmlTree Gen.ExsConsts Model.SerExs.
Open Scope N_scope.

(* ---- references ---- *)
Definition hex_digit_val (c : N) : option N :=
  if (48 <=? c) && (c <=? 57) then Some (c - 48)
  else if (65 <=? c) && (c <=? 70) then Some (c - 55)
  else if (97 <=? c) && (c <=? 102) then Some (c - 87)
  else None.
Fixpoint hexval (s : str) (acc : N) : option N :=
  match s with
  | [] => Some acc
  | c :: r => match hex_digit_val c with Some d => hexval r (16 * acc + d) | None => None end
  end.
(* fixed by the XML recommendation (section 4.6), not by the code under check *)
Definition XML_ENTITIES : list (str * N) :=
  [([108;116], 60); ([103;116], 62); ([97;109;112], 38); ([113;117;111;116], 34); ([97;112;111;115], 39)].
Definition decode_ref (body : str) : option N :=
  match body with
  | 35 :: 120 :: d :: ds => hexval (d :: ds) 0
  | _ => assoc_str body XML_ENTITIES
  end.
(* one pass; [st] = the reversed body of the reference being read, if any.
   A stray '&', an unknown entity or an unterminated reference is an error (None). *)
Fixpoint unesc (s : str) (st : option str) : option str :=
  match s with
  | [] => match st with None => Some [] | Some _ => None end
  | c :: r =>
      match st with
      | None => if c =? AMP then unesc r (Some [])
                else match unesc r None with Some o => Some (c :: o) | None => None end
      | Some acc =>
          if c =? SEMI then
            match decode_ref (rev acc) with
            | Some ch => match unesc r None with Some o => Some (ch :: o) | None => None end
            | None => None
            end
          else unesc r (Some (c :: acc))
      end
  end.
Definition unescape (s : str) : option str := unesc s None.

(* ---- tags ---- *)
Definition is_xml_ws (c : N) : bool := (c =? 32) || (c =? 10) || (c =? 13) || (c =? 9).
(* characters that end a name in the writer's output language *)
Definition name_char (c : N) : bool :=
  negb (is_xml_ws c || (c =? 61) || (c =? QUOT) || (c =? LT) || (c =? GT) || (c =? 47)).
Fixpoint skip_ws (s : str) : str :=
  match s with c :: r => if is_xml_ws c then skip_ws r else s | [] => [] end.
Fixpoint take_name (s : str) : str * str :=
  match s with
  | c :: r => if name_char c then let '(n, rest) := take_name r in (c :: n, rest) else ([], s)
  | [] => ([], [])
  end.
Fixpoint take_value (s : str) : option (str * str) :=       (* up to the closing quote *)
  match s with
  | [] => None
  | c :: r => if c =? QUOT then Some ([], r)
              else match take_value r with Some (v, rest) => Some (c :: v, rest) | None => None end
  end.

(* attributes up to '>' or '/>' : returns attrs, empty-element flag, rest *)
Fixpoint read_attrs (fuel : nat) (s : str) : option (list (str * str) * bool * str) :=
  match fuel with
  | O => None
  | S f =>
      match skip_ws s with
      | [] => None
      | c :: r =>
          if c =? GT then Some ([], false, r)
          else if c =? 47 then match r with c' :: r' => if c' =? GT then Some ([], true, r') else None | [] => None end
          else
            let '(n, rest) := take_name (c :: r) in
            match n, rest with
            | _ :: _, e :: q :: rest' =>
                if (e =? 61) && (q =? QUOT) then
                  match take_value rest' with
                  | Some (v, rest'') =>
                      match unescape v, read_attrs f rest'' with
                      | Some v', Some (ats, emp, rest3) => Some ((n, v') :: ats, emp, rest3)
                      | _, _ => None
                      end
                  | None => None
                  end
                else None
            | _, _ => None
            end
      end
  end.

(* A stack machine over the input: [stack] holds the open elements (tag, attrs, children
   read so far, reversed).  Returns the single top-level element and the unread rest. *)
Definition frame := (str * list (str * str) * list relem)%type.
Definition close_frame (fr : frame) (expanded : bool) : relem :=
  let '(t, a, ch) := fr in RElem t a expanded None (rev ch) None.
Definition push_child (r : relem) (stack : list frame) : list frame :=
  match stack with
  | (t, a, ch) :: st => (t, a, r :: ch) :: st
  | [] => []
  end.

Fixpoint read_nodes (fuel : nat) (s : str) (stack : list frame) : option (relem * str) :=
  match fuel with
  | O => None
  | S f =>
      match skip_ws s with
      | c :: r =>
          if c =? LT then
            match r with
            | c' :: r' =>
                if c' =? 47 then                             (* end tag *)
                  let '(n, rest) := take_name r' in
                  match rest, stack with
                  | g :: rest', (t, a, ch) :: st =>
                      if (g =? GT) && str_eqb n t then
                        let el := close_frame (t, a, ch) (is_nil ch) in
                        match st with
                        | [] => Some (el, rest')
                        | _ => read_nodes f rest' (push_child el st)
                        end
                      else None
                  | _, _ => None
                  end
                else                                         (* start / empty tag *)
                  let '(n, rest) := take_name r in
                  match n with
                  | [] => None
                  | _ =>
                      match read_attrs (S (List.length rest)) rest with
                      | Some (ats, true, rest') =>
                          let el := RElem n ats false None [] None in
                          match stack with
                          | [] => Some (el, rest')
                          | _ => read_nodes f rest' (push_child el stack)
                          end
                      | Some (ats, false, rest') => read_nodes f rest' ((n, ats, []) :: stack)
                      | None => None
                      end
                  end
            | [] => None
            end
          else None                                          (* character data: outside stage A *)
      | [] => None
      end
  end.
Definition read_elem (s : str) : option (relem * str) := read_nodes (S (List.length s)) s [].

(* what the reader returns for a written attribute-only tree: values decoded, the [expanded]
   flag reduced to "written with a separate end tag and no children" *)
Definition dec_val (w : str) : str := match unescape w with Some v => v | None => w end.
Fixpoint decode_tree (r : relem) : relem :=
  let 'RElem t a e _ ch _ := r in
  RElem t (map (fun nv => (fst nv, dec_val (snd nv))) a) (e && is_nil ch) None (map decode_tree ch) None.
(* escape the attribute values again (what phase 1 of the writer does with parsed values) *)
Fixpoint reescape (r : relem) : relem :=
  let 'RElem t a e tx ch tl := r in
  RElem t (map (fun nv => (fst nv, escape TEXT_CLASS (snd nv))) a) e tx (map reescape ch) tl.

(* val wrappers *)
Definition w_unescape (v : val) : val :=
  match v with VS s => match unescape s with Some o => VS o | None => VE E_ValueError end | _ => bad end.
Fixpoint val_of_relem (r : relem) : val :=
  let 'RElem t a ex tx ch tl := r in
  VL [VS t; pairs_val a; VB ex;
      VL ((fix go (l : list relem) : list val := match l with [] => [] | c :: r => val_of_relem c :: go r end) ch)].
Definition w_read (v : val) : val :=
  match v with
  | VS s => match read_elem s with Some (r, rest) => VL [val_of_relem r; VS rest] | None => VE E_ValueError end
  | _ => bad
  end.

(* lxml's view of what was read: namespace declarations apart from the attributes (both in
   document order); the expanded flag is not observable in lxml and is left out *)
Fixpoint starts_with (p s : str) : bool :=
  match p, s with
  | [], _ => true
  | x :: p', y :: s' => (x =? y) && starts_with p' s'
  | _ :: _, [] => false
  end.
Fixpoint sem_of_relem (r : relem) : val :=
  let 'RElem t a ex tx ch tl := r in
  VL [VS t;
      pairs_val (filter (fun nv => starts_with XMLNS_PREFIX (fst nv)) a);
      pairs_val (filter (fun nv => negb (starts_with XMLNS_PREFIX (fst nv))) a);
      VL ((fix go (l : list relem) : list val := match l with [] => [] | c :: r => sem_of_relem c :: go r end) ch)].
(* input: the bytes of one element as written (ASCII or already decoded code points) *)
Definition w_read_sem (v : val) : val :=
  match v with
  | VS s => match read_elem s with Some (r, rest) => VL [sem_of_relem r; VS rest] | None => VE E_ValueError end
  | _ => bad
  end.

(* ======================================================================================
   Stage B reader: the same tag language plus
     * character data of leaf elements (<bodies>, <languages>): everything up to the next '<',
       references decoded; white-space-only character data is kept when it is the whole content
       of a childless element and dropped between element children (what libxml2 does under
       XML_PARSE_NOBLANKS / lxml remove_blank_text=True);
     * comments before and after the root element ([read_doc]); comment content is taken
       verbatim (XML does not decode references in comments), "--" inside a comment is an error.
   Mixed content (character data next to element children) and comments inside elements are
   outside the language and rejected (None).  [read_nodes]/[read_elem] above are unchanged. *)
Fixpoint take_text (s : str) : str * str :=                 (* up to the next '<' *)
  match s with
  | c :: r => if c =? LT then ([], s) else let '(t, rest) := take_text r in (c :: t, rest)
  | [] => ([], [])
  end.
Definition all_wsb (s : str) : bool := forallb is_xml_ws s.
(* the text of an element being closed: [leaf] = it has no element children, [raw] = the
   character data in front of the end tag *)
Definition close_text (leaf : bool) (raw : str) : option (option str) :=
  if leaf then
    if is_nil raw then Some None
    else match unescape raw with Some t => Some (Some t) | None => None end
  else if all_wsb raw then Some None else None.

Fixpoint read_nodes_t (fuel : nat) (s : str) (stack : list frame) : option (relem * str) :=
  match fuel with
  | O => None
  | S f =>
      let '(raw, s1) := take_text s in
      match s1 with
      | _ :: c' :: r' =>                                     (* s1 starts with '<' *)
          if c' =? 47 then                                   (* end tag *)
            let '(n, rest) := take_name r' in
            match rest, stack with
            | g :: rest', (t, a, ch) :: st =>
                if (g =? GT) && str_eqb n t then
                  match close_text (is_nil ch) raw with
                  | Some tx =>
                      let el := RElem t a (is_nil ch && is_none tx) tx (rev ch) None in
                      match st with
                      | [] => Some (el, rest')
                      | _ => read_nodes_t f rest' (push_child el st)
                      end
                  | None => None
                  end
                else None
            | _, _ => None
            end
          else if negb (all_wsb raw) then None               (* character data before a child: mixed content *)
          else                                               (* start / empty tag *)
            let '(n, rest) := take_name (c' :: r') in
            match n with
            | [] => None
            | _ =>
                match read_attrs (S (List.length rest)) rest with
                | Some (ats, true, rest') =>
                    let el := RElem n ats false None [] None in
                    match stack with
                    | [] => Some (el, rest')
                    | _ => read_nodes_t f rest' (push_child el stack)
                    end
                | Some (ats, false, rest') => read_nodes_t f rest' ((n, ats, []) :: stack)
                | None => None
                end
            end
      | _ => None
      end
  end.
Definition read_elem_t (s : str) : option (relem * str) := read_nodes_t (S (List.length s)) s [].

(* the content of a comment, after "<!--": up to the first "--", which must be followed by '>' *)
Fixpoint take_comment (s : str) : option (str * str) :=
  match s with
  | [] => None
  | c :: r =>
      if c =? 45 then
        match r with
        | c1 :: r1 =>
            if c1 =? 45 then match r1 with c2 :: r2 => if c2 =? GT then Some ([], r2) else None | [] => None end
            else match take_comment r with Some (t, rest) => Some (c :: t, rest) | None => None end
        | [] => None
        end
      else match take_comment r with Some (t, rest) => Some (c :: t, rest) | None => None end
  end.
Definition COMMENT_OPEN : str := [LT; 33; 45; 45].
(* a run of comments separated by white space; returns their contents and the rest (leading
   white space removed) *)
Fixpoint read_comments (fuel : nat) (s : str) : option (list str * str) :=
  match fuel with
  | O => None
  | S f =>
      let s' := skip_ws s in
      if starts_with COMMENT_OPEN s' then
        match take_comment (skipn 4 s') with
        | Some (t, rest) =>
            match read_comments f rest with Some (cs, rest') => Some (t :: cs, rest') | None => None end
        | None => None
        end
      else Some ([], s')
  end.
(* a document as [lay_doc] writes it (without the XML declaration): comments, the root element,
   comments, white space up to the end of the input *)
Definition read_doc (s : str) : option (list str * relem * list str) :=
  match read_comments (S (List.length s)) s with
  | Some (b, s1) =>
      match read_elem_t s1 with
      | Some (r, s2) =>
          match read_comments (S (List.length s2)) s2 with
          | Some (a, []) => Some (b, r, a)
          | _ => None
          end
      | None => None
      end
  | None => None
  end.
(* … and with the declaration that exs.write puts in front *)
Definition read_file (s : str) : option (list str * relem * list str) :=
  if starts_with declaration s then read_doc (skipn (List.length declaration) s) else None.

(* what [read_doc] returns for a written tree (the parser's view of it): attribute values decoded;
   text kept only where the writer writes it and the parser keeps it — non-empty text of a
   childless element; tails dropped; [expanded] = written as <t></t> *)
Definition kept_text (leaf : bool) (tx : option str) : option str :=
  if leaf then match tx with Some (c :: s) => Some (c :: s) | _ => None end else None.
Fixpoint norm_tree (r : relem) : relem :=
  let 'RElem t a e tx ch _ := r in
  let tx' := kept_text (is_nil ch) tx in
  RElem t (map (fun nv => (fst nv, dec_val (snd nv))) a)
        (is_nil ch && is_none tx' && negb (is_none tx && negb e)) tx' (map norm_tree ch) None.
(* restrictions under which the writer's comment handling is faithful: no '>' (it is written as
   "&gt;", which XML does not decode inside a comment), no newline (the lines are joined without
   a separator), no "--" and no trailing '-' (not well-formed XML) *)
Fixpoint no_double_dash (s : str) : bool :=
  match s with
  | [] => true
  | c :: r => if c =? 45 then match r with [] => false | c1 :: _ => negb (c1 =? 45) && no_double_dash r end
              else no_double_dash r
  end.
Definition comment_text_ok (s : str) : bool :=
  forallb (fun c => negb (c =? GT) && negb (c =? 10)) s && no_double_dash s.

(* val wrappers for the stage B reader: text included *)
Definition opt_str_val (o : option str) : val := match o with Some s => VS s | None => VNone end.
Fixpoint sem_of_relem_t (r : relem) : val :=
  let 'RElem t a ex tx ch tl := r in
  VL [VS t;
      pairs_val (filter (fun nv => starts_with XMLNS_PREFIX (fst nv)) a);
      pairs_val (filter (fun nv => negb (starts_with XMLNS_PREFIX (fst nv))) a);
      opt_str_val tx;
      VL ((fix go (l : list relem) : list val := match l with [] => [] | c :: r => sem_of_relem_t c :: go r end) ch)].
(* input: the payload as written (code points); output: [comments before; root; comments after] *)
Definition w_read_doc (v : val) : val :=
  match v with
  | VS s => match read_doc s with
            | Some (b, r, a) => VL [of_strs b; sem_of_relem_t r; of_strs a]
            | None => VE E_ValueError
            end
  | _ => bad
  end.
