(* C18 / the SVG pipeline as a function from a diagram (capellambse.diagram.Diagram: elements
   with hidden flags, style class, overrides, label/feature presence) to an abstract SVG:
   viewBox, the top-level groups (id, class attribute), the ids defined under <defs> and the
   ids referenced by url(#..) / href="#..".

   Follows, function by function:
     diagram/_json_enc.py   DiagramJSONEncoder.__encode_diagram, _intround
     svg/generate.py        DiagramMetadata.__init__
     svg/drawing.py         Drawing.draw_object, _draw_box/_add_rect, _draw_box_symbol, _draw_symbol/_add_port,
                            _draw_edge, _draw_circle, _draw_label/_add_label_image, _deploy_defs, _add_decofactory
     svg/style.py           Styling.__getattribute__ (marker urls), _to_dict/_to_css, _generate_id, __iter__
     diagram/capstyle.py    get_style
     diagram/_icons.py      get_svg_symbol, has_icon
   The tables (STYLES, marker factories, symbol registry with the ids/references found inside every
   symbol, the port / icon class sets) are a parameter [T]; Gen/SvgTables.v supplies the ones of the
   tree under check.  A Python exception is [None].
   Not modelled: geometry of labels (PIL extents), text_transform overrides, CAPELLAMBSE_SVG_DEBUG. *)
From Coq Require Import ZArith NArith QArith List Bool.
Import ListNotations.
From V Require Import Model.Val Model.SvgTypes.
Open Scope N_scope.

Definition s_Symbol : str := [83;121;109;98;111;108].  (* "Symbol" *)
Definition s_Box : str := [66;111;120].  (* "Box" *)
Definition s_Edge : str := [69;100;103;101].  (* "Edge" *)
Definition s_Circle : str := [67;105;114;99;108;101].  (* "Circle" *)
Definition s_ctx : str := [32;99;111;110;116;101;120;116;45].  (* " context-" *)
Definition s_CustomGradient : str := [67;117;115;116;111;109;71;114;97;100;105;101;110;116].  (* "CustomGradient" *)
Definition s_marker_start : str := [109;97;114;107;101;114;45;115;116;97;114;116].  (* "marker-start" *)
Definition s_marker_end : str := [109;97;114;107;101;114;45;101;110;100].  (* "marker-end" *)
Definition s_stroke : str := [115;116;114;111;107;101].  (* "stroke" *)
Definition s_fill : str := [102;105;108;108].  (* "fill" *)
Definition s_text_ : str := [116;101;120;116;95].  (* "text_" *)
Definition s_Feature : str := [70;101;97;116;117;114;101].  (* "Feature" *)
Definition s_Error : str := [69;114;114;111;114].  (* "Error" *)
Definition s_Port : str := [80;111;114;116].  (* "Port" *)
Definition s_ComponentPort : str := [67;111;109;112;111;110;101;110;116;80;111;114;116].  (* "ComponentPort" *)
Definition s_GLOBAL : str := [95;95;71;76;79;66;65;76;95;95].  (* "__GLOBAL__" *)
Definition s_symbol : str := [115;121;109;98;111;108].  (* "symbol" *)
Definition s_None : str := [78;111;110;101].  (* "None" *)
Definition s_black : str := [48;48;48;48;48;48].  (* "000000" *)
Definition USCORE : N := 95.

Record tables := mkT {
  t_styles : style_table;
  t_markers : list marker_row;
  t_symbols : list symbol_row;
  t_all_ports : list str;
  t_directed_ports : list str;
  t_function_ports : list str;
  t_component_ports : list str;
  t_only_icons : list str }.

(* ------------------------------------------------------------------ capstyle.get_style *)
Definition tbl_lookup (T : tables) (dc oc : str) : styles :=
  match assoc dc (t_styles T) with
  | Some t => match assoc oc t with Some s => s | None => [] end
  | None => []
  end.
(* later dict-update wins = first entry wins in this list *)
Definition defaults (T : tables) (dc oc : str) : styles :=
  if containsb (lower oc) s_symbol then []
  else let ty := before_dot oc in
       tbl_lookup T dc oc ++ tbl_lookup T s_GLOBAL oc ++ tbl_lookup T dc ty ++ tbl_lookup T s_GLOBAL ty.

Fixpoint eff_go (seen : list str) (l : styles) : styles :=
  match l with
  | [] => []
  | (k, v) :: r => if mem_str k seen then eff_go seen r else (k, v) :: eff_go (k :: seen) r
  end.
Definition eff (l : styles) : styles := eff_go [] l.       (* the dict the list stands for *)

Definition obj_part (l : styles) : styles := filter (fun kv => negb (has_char USCORE (fst kv))) l.
Definition text_part (l : styles) : styles :=
  flat_map (fun kv => if prefixb s_text_ (fst kv) then [(drop 5 (fst kv), snd kv)] else []) l.

(* ------------------------------------------------------------------ Styling *)
Definition is_marker_key (k : str) : bool := seqb k s_marker_start || seqb k s_marker_end.
Definition grad_id (hs : list str) : str := s_CustomGradient ++ flat_map (fun h => USCORE :: h) hs.
(* ids of the gradients among the entries of a style dict (marker keys always read as url strings) *)
Definition grads (l : styles) : list str :=
  flat_map (fun kv => if is_marker_key (fst kv) then []
                      else match snd kv with SvGrad hs => [grad_id hs] | _ => [] end) l.

(* Styling.__getattribute__("marker-*"): the stroke colour the url is built from *)
Definition ref_stroke (inst dflt : styles) : option str :=
  match assoc s_stroke inst with
  | Some (SvRGB h) => Some h
  | Some _ => None                                   (* RGB.fromcss(None / non-colour) raises *)
  | None => match assoc s_stroke dflt with
            | Some (SvRGB h) => Some h
            | Some SvNone | None => Some s_black      (* ... or "#000" *)
            | Some _ => None
            end
  end.
Definition marker_ref1 (inst dflt : styles) (m : str) : option (list str) :=
  match assoc m inst with
  | None => Some []
  | Some v =>
      match (match v with SvStr s => Some s | SvNone => Some s_None | _ => None end), ref_stroke inst dflt with
      | Some name, Some h => Some [name ++ USCORE :: h]
      | _, _ => None
      end
  end.
(* what Styling._to_dict() makes the drawn shape refer to *)
Definition sty_refs (inst dflt : styles) : option (list str) :=
  match marker_ref1 inst dflt s_marker_start, marker_ref1 inst dflt s_marker_end with
  | Some a, Some b => Some (grads (eff (inst ++ dflt)) ++ a ++ b)
  | _, _ => None
  end.

(* Drawing._deploy_defs *)
Definition truthy_colour (v : option sval) : option (option str) :=   (* None = raises, Some None = falsy *)
  match v with
  | None | Some SvNone => Some None
  | Some (SvRGB h) => Some (Some h)
  | Some _ => None
  end.
Definition def_stroke (inst dflt : styles) : option str :=
  match truthy_colour (assoc s_stroke inst) with
  | None => None
  | Some (Some h) => Some h
  | Some None => match truthy_colour (assoc s_stroke dflt) with
                 | Some (Some h) => Some h
                 | _ => None                          (* str(None) is not a CSS colour *)
                 end
  end.
Definition find_marker (T : tables) (name : str) : option marker_row :=
  find (fun r => seqb (mk_name r) name) (t_markers T).
Definition marker_def1 (T : tables) (inst dflt : styles) (m : str) : option (list str) :=
  match assoc m dflt with
  | None | Some SvNone => Some []
  | Some (SvStr name) =>
      match def_stroke inst dflt, find_marker T name with
      | Some h, Some row => Some (if mk_id_ok row then [name ++ USCORE :: h] else [])
      | _, _ => None                                  (* KeyError: no factory / bad colour *)
      end
  | Some _ => None
  end.
Definition sty_defs (T : tables) (inst dflt : styles) : option (list str) :=
  match marker_def1 T inst dflt s_marker_start, marker_def1 T inst dflt s_marker_end with
  | Some a, Some b => Some (grads inst ++ a ++ b)
  | _, _ => None
  end.

(* ------------------------------------------------------------------ symbols *)
Definition find_symbol (T : tables) (name : str) : option symbol_row :=
  let key := name ++ s_Symbol in find (fun r => seqb (sy_key r) key) (t_symbols T).
Definition has_icon (T : tables) (name : str) : bool :=
  match find_symbol T name with Some _ => true | None => false end.
(* Drawing._add_decofactory: unknown names fall back to the Error symbol (deployed under ITS id) *)
Definition sym_row (T : tables) (name : str) : option symbol_row :=
  match find_symbol T name with
  | Some r => Some r
  | None => find_symbol T s_Error
  end.
Definition row_ids (T : tables) (name : str) : list str :=
  match sym_row T name with Some r => sy_ids r | None => [] end.
Definition row_refs (T : tables) (name : str) : list str :=
  match sym_row T name with Some r => sy_refs r | None => [] end.
Definition row_deps (T : tables) (name : str) : list str :=
  match sym_row T name with Some r => sy_deps r | None => [] end.

(* the deco cache after _add_decofactory(name); None = recursion does not end within fuel / no Error symbol *)
Fixpoint add_deco (fuel : nat) (T : tables) (name : str) (cache : list str) : option (list str) :=
  match fuel with
  | O => None
  | S f =>
      match sym_row T name with
      | None => None
      | Some r =>
          match fold_left (fun c d => match c with
                                      | None => None
                                      | Some c => if mem_str d c then Some c else add_deco f T d c
                                      end) (sy_deps r) (Some cache) with
          | None => None
          | Some c => Some (c ++ [name])
          end
      end
  end.
Definition deco_fuel (T : tables) : nat := S (length (t_symbols T)).
(* `if name not in self.deco_cache: self._add_decofactory(name)` *)
Definition need_deco (T : tables) (cache : option (list str)) (name : str) : option (list str) :=
  match cache with
  | None => None
  | Some c => if mem_str name c then Some c else add_deco (deco_fuel T) T name c
  end.

(* ------------------------------------------------------------------ one JSON object *)
Inductive kind := KBox | KEdge | KCircle | KSymbol | KBoxSymbol.
Record jobj := mkO {
  o_kind : kind;
  o_id : option str;
  o_class : str;
  o_ctx : list str;            (* context uuids (a set; the encoder sorts them) *)
  o_over : styles;             (* style overrides, colours as hex *)
  o_label : bool;              (* label is a non-empty string *)
  o_nfloat : nat;              (* floating labels handed to the drawing (edge: visible labels) *)
  o_nfeat : nat }.             (* features *)

Definition kind_word (k : kind) : str :=
  match k with KEdge => s_Edge | KCircle => s_Circle | _ => s_Box end.
Definition style_type (k : kind) : str :=
  match k with KEdge | KCircle => s_Edge | _ => s_Box end.
Definition packed_class (o : jobj) : str := style_type (o_kind o) ++ 46 :: o_class o.
Definition group_class (o : jobj) : str :=
  kind_word (o_kind o) ++ 32 :: o_class o ++ flat_map (fun i => s_ctx ++ i) (sort_set (o_ctx o)).

Definition pos (n : nat) : bool := match n with O => false | _ => true end.
Definition has_text (o : jobj) : bool :=
  match o_kind o with
  | KBox => o_label o || pos (o_nfloat o) || pos (o_nfeat o)
  | KBoxSymbol => o_label o || pos (o_nfloat o)
  | KSymbol | KEdge => pos (o_nfloat o)
  | KCircle => false
  end.
(* the names N for which `_add_decofactory(N)` is requested and `<use href="#NSymbol">` is written *)
Definition box_syms (T : tables) (c : str) (labelled : bool) (nfeat : nat) : list str :=
  (if labelled then (if has_icon T c then [c] else [])
   else if mem_str c (t_only_icons T) then [c] else [])
  ++ (if pos nfeat && has_icon T (c ++ s_Feature) then [c ++ s_Feature] else []).
Definition port_id (T : tables) (c : str) : str :=
  if mem_str c (t_function_ports T) then s_Port
  else if mem_str c (t_component_ports T) then s_ComponentPort else s_Error.
Definition obj_syms (T : tables) (o : jobj) : list str :=
  let c := o_class o in
  match o_kind o with
  | KBox => box_syms T c (o_label o || pos (o_nfloat o)) (o_nfeat o)
  | KBoxSymbol => box_syms T c (o_label o) 0
  | KSymbol => if mem_str c (t_all_ports T)
               then (if mem_str c (t_directed_ports T) then [port_id T c] else [])
               else [c]
  | KEdge => if pos (o_nfloat o) && has_icon T c then [c] else []
  | KCircle => []
  end.

(* obj_style / text_style as draw_object builds them, and what _draw_circle does to obj_style *)
Definition circle_inst (inst : styles) : option styles :=
  match assoc s_stroke inst with
  | None => None                                   (* AttributeError *)
  | Some v =>
      let fillv := match v with SvNone => SvRGB s_black | _ => v end in
      Some ((s_fill, fillv) :: filter (fun kv => negb (seqb (fst kv) s_stroke) && negb (seqb (fst kv) s_fill)) inst)
  end.

Record drawn := mkD { dr_refs : list str; dr_defs : list str; dr_syms : list str }.
(* [dfl] = the default styles get_style gives for the object's packed class *)
Definition draw1_d (T : tables) (dfl : styles) (o : jobj) : option drawn :=
  let ms := eff (o_over o ++ dfl) in
  let oi0 := obj_part ms in
  let od := obj_part dfl in
  let ti := text_part ms in
  let td := text_part dfl in
  match (match o_kind o with KCircle => circle_inst oi0 | _ => Some oi0 end) with
  | None => None
  | Some oi =>
      match sty_refs oi od, sty_refs ti td, sty_defs T oi od, sty_defs T ti td with
      | Some r1, Some r2, Some d1, Some d2 =>
          let syms := obj_syms T o in
          Some (mkD (r1 ++ (if has_text o then r2 else []) ++ map (fun n => n ++ s_Symbol) syms) (d1 ++ d2) syms)
      | _, _, _, _ => None
      end
  end.
Definition draw1 (T : tables) (dc : str) (o : jobj) : option drawn :=
  draw1_d T (eff (defaults T dc (packed_class o))) o.

(* ------------------------------------------------------------------ the drawing *)
Record dstate := mkS {
  d_groups : list (option str * str);
  d_cache : list str;          (* deco_cache, in insertion order *)
  d_refs : list str;           (* references written by draw functions *)
  d_defs : list str }.         (* gradient and marker ids added to <defs> *)
Definition st0 : dstate := mkS [] [] [] [].

Definition place (T : tables) (st : dstate) (o : jobj) (d : option drawn) : option dstate :=
  match d with
  | None => None
  | Some d =>
      match fold_left (need_deco T) (dr_syms d) (Some (d_cache st)) with
      | None => None
      | Some cache =>
          Some (mkS (d_groups st ++ [(o_id o, group_class o)]) cache
                    (d_refs st ++ dr_refs d) (d_defs st ++ dr_defs d))
      end
  end.
Definition draw_obj (T : tables) (dc : str) (st : dstate) (o : jobj) : option dstate :=
  place T st o (draw1 T dc o).
Definition draw_all (T : tables) (dc : str) (objs : list jobj) : option dstate :=
  fold_left (fun st o => match st with None => None | Some st => draw_obj T dc st o end) objs (Some st0).

(* every id under <defs>, every reference in the document *)
Definition doc_defs (T : tables) (st : dstate) : list str := d_defs st ++ flat_map (row_ids T) (d_cache st).
Definition doc_refs (T : tables) (st : dstate) : list str := d_refs st ++ flat_map (row_refs T) (d_cache st).
Definition closed (T : tables) (st : dstate) : bool := subset_str (doc_refs T st) (doc_defs T st).

(* ------------------------------------------------------------------ the diagram level *)
Record delem := mkE {
  e_obj : jobj;
  e_hidden : bool;                            (* the element's own flag *)
  e_anc : list (bool * bool);                 (* Box: (own hidden flag, collapsed) of parent, grandparent, ... *)
  e_ends : list (bool * list (bool * bool)) }. (* Edge: own flag and ancestors of source / target *)
Definition anc_hidden (anc : list (bool * bool)) : bool := existsb (fun hc => fst hc || snd hc) anc.
Definition elem_hidden (e : delem) : bool :=
  e_hidden e || anc_hidden (e_anc e) || existsb (fun ha => fst ha || anc_hidden (snd ha)) (e_ends e).
Definition encode_contents (els : list delem) : list jobj :=
  map e_obj (filter (fun e => negb (elem_hidden e)) els).

(* _intround: int(val + c), int() truncates towards zero *)
Definition intround_with (c : Q) (q : Q) : Z := let s := Qplus q c in Z.quot (Qnum s) (Zpos (Qden s)).
Definition vbox := (Z * Z * Z * Z)%type.
Definition viewbox_with (c : Q) (px py sx sy : Z) (vp : option (Q * Q * Q * Q)) : vbox :=
  match vp with
  | None => (px, py, sx, sy)
  | Some (x, y, w, h) =>
      ((intround_with c x + px)%Z, (intround_with c y + py)%Z, (intround_with c w + sx)%Z, (intround_with c h + sy)%Z)
  end.

Record diagram := mkDg { g_class : str; g_viewport : option (Q * Q * Q * Q); g_elems : list delem }.
