(* C18 / label text: capellambse.helpers.word_wrap (split_into_lines) for an arbitrary text
   extent function, and the XML writer's escaping of character data and attribute values
   (svgwrite serialises with xml.etree.ElementTree: _escape_cdata / _escape_attrib) together with
   a reference reader for entities.  Executable definitions only. *)
From Coq Require Import ZArith NArith List Bool.
Import ListNotations.
From V Require Import Model.Val Model.SvgTypes.
Open Scope N_scope.

(* ------------------------------------------------------------------ word wrapping *)
Fixpoint joinsp (ws : list str) : str :=
  match ws with
  | [] => []
  | [w] => w
  | w :: r => w ++ 32 :: joinsp r
  end.

Section Wrap.
  Variable ext : str -> Z.            (* extent_func(text)[0] (any monotone or non-monotone measure) *)
  Variable width : Z.
  (* split_into_lines: [cur] = words of current_line, a line is the list of its words *)
  Fixpoint wrapw (cur : list str) (ws : list str) : list (list str) :=
    match ws with
    | [] => match cur with [] => [] | _ => [cur] end
    | w :: r =>
        if (ext (joinsp (cur ++ [w])) <=? width)%Z then wrapw (cur ++ [w]) r
        else match cur with
             | [] => wrapw [w] r
             | _ => cur :: wrapw [w] r
             end
    end.
  Definition split_into_lines (ws : list str) : list str := map joinsp (wrapw [] ws).
End Wrap.

(* ------------------------------------------------------------------ XML escaping *)
Definition AMP : N := 38.  Definition LT : N := 60.  Definition GT : N := 62.  Definition QUOT : N := 34.
Definition e_amp : str := [38;97;109;112;59].        (* &amp; *)
Definition e_lt : str := [38;108;116;59].            (* &lt; *)
Definition e_gt : str := [38;103;116;59].            (* &gt; *)
Definition e_quot : str := [38;113;117;111;116;59].  (* &quot; *)
Definition e_cr : str := [38;35;49;51;59].           (* &#13; *)
Definition e_nl : str := [38;35;49;48;59].           (* &#10; *)
Definition e_tab : str := [38;35;48;57;59].          (* &#09; *)

(* ElementTree._escape_cdata *)
Definition esc_text1 (c : N) : str :=
  if c =? AMP then e_amp else if c =? LT then e_lt else if c =? GT then e_gt else [c].
Definition escape_text (s : str) : str := flat_map esc_text1 s.
(* ElementTree._escape_attrib *)
Definition esc_attr1 (c : N) : str :=
  if c =? AMP then e_amp else if c =? LT then e_lt else if c =? GT then e_gt
  else if c =? QUOT then e_quot else if c =? 13 then e_cr else if c =? 10 then e_nl
  else if c =? 9 then e_tab else [c].
Definition escape_attr (s : str) : str := flat_map esc_attr1 s.

(* reference reader: replaces the entity references the writer can produce; [skip] = characters of an
   entity already consumed *)
Fixpoint unesc (skip : nat) (s : str) : str :=
  match s with
  | [] => []
  | c :: r =>
      match skip with
      | S k => unesc k r
      | O =>
          if c =? AMP then
            if prefixb (tl e_amp) r then AMP :: unesc 4 r
            else if prefixb (tl e_lt) r then LT :: unesc 3 r
            else if prefixb (tl e_gt) r then GT :: unesc 3 r
            else if prefixb (tl e_quot) r then QUOT :: unesc 5 r
            else if prefixb (tl e_cr) r then 13 :: unesc 4 r
            else if prefixb (tl e_nl) r then 10 :: unesc 4 r
            else if prefixb (tl e_tab) r then 9 :: unesc 4 r
            else c :: unesc 0 r
          else c :: unesc 0 r
      end
  end.
Definition unescape (s : str) : str := unesc 0 s.

(* ------------------------------------------------------------------ val wrappers *)
Definition w_escape_text (v : val) : val := match v with VS s => VS (escape_text s) | _ => bad end.
Definition w_escape_attr (v : val) : val := match v with VS s => VS (escape_attr s) | _ => bad end.
Definition w_unescape (v : val) : val := match v with VS s => VS (unescape s) | _ => bad end.
(* word_wrap's inner loop with extent = k * number of characters: input [k; width; words] *)
Definition w_wrap (v : val) : val :=
  match v with
  | VL [VZ k; VZ width; ws] =>
      match as_strs ws with
      | Some ws => of_strs (split_into_lines (fun s => (k * Z.of_nat (length s))%Z) width ws)
      | None => bad
      end
  | _ => bad
  end.
