(* MX / XmlTree: element trees as lxml presents them to capellambse/loader/exs.py,
   the UTF-8 encoder, character-class helpers and the [val] decoding of trees used by the
   correspondence wrappers.  Executable definitions only. *)
From Coq Require Import ZArith NArith List Bool.
Import ListNotations.
From V Require Import Model.Val.
Open Scope N_scope.

(* ---- small string helpers ---- *)
Definition lenN (s : str) : N := N.of_nat (List.length s).
Fixpoint in_ranges (c : N) (rs : list (N * N)) : bool :=
  match rs with
  | [] => false
  | (lo, hi) :: r => ((lo <=? c) && (c <=? hi)) || in_ranges c r
  end.
Fixpoint mem_str (s : str) (l : list str) : bool :=
  match l with [] => false | x :: r => str_eqb s x || mem_str s r end.
Fixpoint assoc_str {A} (k : str) (l : list (str * A)) : option A :=
  match l with [] => None | (k', v) :: r => if str_eqb k k' then Some v else assoc_str k r end.
Fixpoint assocN {A} (k : N) (l : list (N * A)) : option A :=
  match l with [] => None | (k', v) :: r => if N.eqb k k' then Some v else assocN k r end.
Fixpoint repeat_str (s : str) (n : nat) : str :=
  match n with O => [] | S m => s ++ repeat_str s m end.

(* lexicographic comparison by code point — Python's str ordering *)
Fixpoint str_leb (a b : str) : bool :=
  match a, b with
  | [], _ => true
  | _ :: _, [] => false
  | x :: a', y :: b' => if x <? y then true else if y <? x then false else str_leb a' b'
  end.

(* ---- UTF-8 (str.encode("utf-8"); surrogates cannot occur in lxml strings) ---- *)
Definition utf8_char (c : N) : list N :=
  if c <? 128 then [c]
  else if c <? 2048 then [192 + c / 64; 128 + c mod 64]
  else if c <? 65536 then [224 + c / 4096; 128 + (c / 64) mod 64; 128 + c mod 64]
  else [240 + c / 262144; 128 + (c / 4096) mod 64; 128 + (c / 64) mod 64; 128 + c mod 64].
Definition utf8 (s : str) : list N := flat_map utf8_char s.
Definition utf8_width (c : N) : N :=
  if c <? 128 then 1 else if c <? 2048 then 2 else if c <? 65536 then 3 else 4.
Fixpoint utf8_len (s : str) : N :=
  match s with [] => 0 | c :: r => utf8_width c + utf8_len r end.

(* ---- trees ---- *)
(* a qualified name as lxml spells it: "{uri}local", or "local" when [q_uri] is empty *)
Record qname := QN { q_uri : str; q_local : str }.
Definition qname_eqb (a b : qname) : bool := str_eqb (q_uri a) (q_uri b) && str_eqb (q_local a) (q_local b).

(* [nsdecl]: the namespace declarations carried by this very element (libxml2 nsDef order),
   prefix [] standing for the default namespace (lxml: None).
   [attrs]: element.items() order. [text]/[tail]: None or a string. *)
Inductive elem :=
| Elem (tag : qname) (nsdecl : list (str * str)) (attrs : list (qname * str))
       (text : option str) (children : list elem) (tail : option str).

Definition e_tag (e : elem) := let 'Elem t _ _ _ _ _ := e in t.
Definition e_nsdecl (e : elem) := let 'Elem _ n _ _ _ _ := e in n.
Definition e_attrs (e : elem) := let 'Elem _ _ a _ _ _ := e in a.
Definition e_text (e : elem) := let 'Elem _ _ _ t _ _ := e in t.
Definition e_children (e : elem) := let 'Elem _ _ _ _ c _ := e in c.
Definition e_tail (e : elem) := let 'Elem _ _ _ _ _ t := e in t.

Record comment := Comment { c_text : str; c_tail : option str }.
Record doc := Doc { d_before : list comment; d_root : elem; d_after : list comment }.

(* lxml's element.nsmap (_build_nsmap): own declarations first, then the parent's map
   without the prefixes already seen *)
Definition nsmap_of (own parent_map : list (str * str)) : list (str * str) :=
  own ++ filter (fun p => negb (mem_str (fst p) (map fst own))) parent_map.

(* ---- decoding of trees from [val] ----
   elem   = VL [VS uri; VS local; VL [VL [VS prefix; VS uri]…]; VL [VL [VS uri; VS local; VS value]…];
                text; VL children; tail]          text/tail = VS s | VNone
   comment = VL [VS text; tail] *)
Definition opt_str_of_val (v : val) : option (option str) :=
  match v with VS s => Some (Some s) | VNone => Some None | _ => None end.
Definition pair_of_val (v : val) : option (str * str) :=
  match v with VL [VS a; VS b] => Some (a, b) | _ => None end.
Definition attr_of_val (v : val) : option (qname * str) :=
  match v with VL [VS u; VS l; VS x] => Some (QN u l, x) | _ => None end.

Fixpoint elem_of_val (v : val) : option elem :=
  match v with
  | VL [VS u; VS l; VL ns; VL ats; tx; VL ch; tl] =>
      match all_some (map pair_of_val ns), all_some (map attr_of_val ats), opt_str_of_val tx, opt_str_of_val tl,
            (fix go (l : list val) : option (list elem) :=
               match l with
               | [] => Some []
               | x :: r => match elem_of_val x, go r with Some e, Some r' => Some (e :: r') | _, _ => None end
               end) ch with
      | Some ns', Some ats', Some tx', Some tl', Some ch' => Some (Elem (QN u l) ns' ats' tx' ch' tl')
      | _, _, _, _, _ => None
      end
  | _ => None
  end.
Definition comment_of_val (v : val) : option comment :=
  match v with
  | VL [VS t; tl] => match opt_str_of_val tl with Some tl' => Some (Comment t tl') | None => None end
  | _ => None
  end.
Definition N_of_val (v : val) : option N :=
  match v with VZ z => if (z <? 0)%Z then None else Some (Z.to_N z) | _ => None end.
