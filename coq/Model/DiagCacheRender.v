(* C19 — AbstractDiagram.render over the converter graph generated from /repo
   (Gen/DiagCacheGraph.v).  Wrapper for the correspondence check only. *)
From Coq Require Import ZArith NArith List Bool.
Import ListNotations.
From V Require Import Model.Val Model.PyPrims Model.DiagCache Gen.DiagCacheGraph.

(* [fmt | None; cache files | None; allow; uuid; conv-fails; from_cache-fails; fresh | VE e] -> [opened; result] *)
Definition w_render (v : val) : val :=
  match v with
  | VL [fmt; files; VB allow; VS uuid; cf; ff; fresh] =>
      match dec_opt_str fmt,
            (match files with VNone => Some None
                            | _ => match dec_list dec_pairSS files with Some l => Some (Some l) | None => None end end),
            dec_list dec_pairNN cf, dec_list dec_pairNN ff with
      | Some fmt, Some files, Some cf, Some ff =>
          let fr := match fresh with VE e => Err e | d => Ok d end in
          enc_res (render val (sym_convert cf) (sym_from_cache ff) gen_graph gen_entries fmt
                          (match files with Some l => Some (assoc_str l) | None => None end) allow uuid fr)
      | _, _, _, _ => bad
      end
  | _ => bad
  end.

(* the generated graph itself, for comparison with the objects the running code resolves *)
Definition w_gen_chain (v : val) : val :=
  match v with
  | VS name =>
      match lookup_entry gen_entries name with
      | None => VE E_ValueError
      | Some id =>
          match walk (length gen_graph) gen_graph id with
          | None => VE E_OutOfFuel
          | Some ch => VL (map (fun cv => VL [VZ (Z.of_N (cv_id cv));
                                              match cv_ext cv with Some e => VS e | None => VNone end;
                                              VB (cv_fc cv)]) ch)
          end
      end
  | _ => bad
  end.
