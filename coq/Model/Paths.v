(* ML / Paths: PurePosixPath splitting, helpers.normalize_pure_path,
   helpers.relpath_pure, and the per-handler composition of the path that
   is handed to the backing store.  Executable definitions only. *)
From Coq Require Import ZArith NArith List Bool.
Import ListNotations.
From V Require Import Model.Val.

Notation part := str (only parsing).
Definition SLASH : N := 47.
Definition DOT : N := 46.
Definition dotdot : part := [DOT; DOT].
Definition dot : part := [DOT].

(* ---- pathlib.PurePosixPath(s): (is_absolute, parts-without-root) ---- *)
Fixpoint split_on (sep : N) (s : str) (cur : str) : list str :=
  match s with
  | [] => [rev cur]
  | c :: r => if N.eqb c sep then rev cur :: split_on sep r [] else split_on sep r (c :: cur)
  end.
Definition keep_seg (p : part) : bool := negb (str_eqb p []) && negb (str_eqb p dot).
Definition posix_parts (s : str) : list part := filter keep_seg (split_on SLASH s []).
Definition posix_abs (s : str) : bool := match s with c :: _ => N.eqb c SLASH | [] => false end.

(* PurePosixPath("/", base, path).parts[1:] *)
Definition join_root (base path : str) : list part :=
  if posix_abs path then posix_parts path else posix_parts base ++ posix_parts path.

(* ---- helpers.normalize_pure_path: the loop ---- *)
Definition nstep (acc : list part) (p : part) : list part :=
  if str_eqb p dotdot then removelast acc else acc ++ [p].
Definition normalize_parts (ps : list part) : list part := fold_left nstep ps [].
Definition normalize (path base : str) : list part := normalize_parts (join_root base path).
Definition root_base : str := [SLASH].

(* ---- helpers.relpath_pure on part lists (both paths relative, normal) ---- *)
(* state: (parts reversed as the code keeps them — we keep them forward and pop from the front,
   which is the same list seen from the other end — , prefix flag) *)
Definition rstep (st : list part * bool * list part) (p : part) : list part * bool * list part :=
  let '(rest, prefix, ups) := st in
  if prefix then
    match rest with
    | x :: rest' => if str_eqb x p then (rest', true, ups) else (rest, false, ups)
    | [] => (rest, false, ups)
    end
  else (rest, false, dotdot :: ups).
Definition relpath (path start : list part) : list part :=
  let '(rest, _, ups) := fold_left rstep start (path, true, []) in ups ++ rest.

(* ---- is_prefix on part lists ---- *)
Fixpoint is_prefix (a b : list part) : bool :=
  match a, b with
  | [], _ => true
  | x :: a', y :: b' => str_eqb x y && is_prefix a' b'
  | _ :: _, [] => false
  end.
Definition has_dotdot (l : list part) : bool := existsb (fun p => str_eqb p dotdot) l.

(* ---- what each file handler hands to its backing store, relative to the
        handler's root (directory / archive / work tree / URL base).
        [sub] is the subdir string given to the constructor, [f] the file name. ---- *)
Inductive hkind := HLocal | HMemory | HZipOpen | HZipList | HGit | HHttp.
Definition subdir_parts (sub : str) : list part := normalize sub root_base.   (* FileHandler.__init__ *)
Definition handler_target (k : hkind) (sub f : str) : list part :=
  subdir_parts sub ++ normalize f root_base.

(* FilePath.joinpath: normalize(path, base=self._path) — may climb inside the
   handler's virtual root but never above it *)
Definition filepath_join (cur : list part) (p : str) : list part :=
  if posix_abs p then normalize_parts (posix_parts p) else normalize_parts (cur ++ posix_parts p).

(* ---- val wrappers for the correspondence check ---- *)
Definition w_normalize (v : val) : val :=
  match v with
  | VL [VS p; VS b] => of_strs (normalize p b)
  | _ => bad
  end.
Definition w_relpath (v : val) : val :=
  match v with
  | VL [p; s] => match as_strs p, as_strs s with
                 | Some p, Some s => of_strs (relpath p s) | _, _ => bad end
  | _ => bad
  end.
Definition w_parts (v : val) : val :=
  match v with VS s => VL [VB (posix_abs s); of_strs (posix_parts s)] | _ => bad end.
Definition w_target (v : val) : val :=
  match v with
  | VL [VZ k; VS sub; VS f] =>
      let k := match k with 0 => HLocal | 1 => HMemory | 2 => HZipOpen | 3 => HZipList | 4 => HGit | _ => HHttp end%Z in
      of_strs (handler_target k sub f)
  | _ => bad
  end.
