(* C11 — aird._common.temporary_attribute: diagram parsing gives an element an attribute value for the time of one
   factory call and restores what was there before.  An attribute map is lxml's ordered list of (key, value) pairs;
   value 0 stands for the empty string (present and empty is not absent). *)
From Coq Require Import ZArith List Bool.
Import ListNotations.
From V Require Import Model.Val.
Open Scope Z_scope.

Definition attrs := list (Z * Z).
Fixpoint aget (k : Z) (a : attrs) : option Z :=
  match a with [] => None | (k', v') :: r => if k' =? k then Some v' else aget k r end.
(* element.attrib[k] = v: replaces in place, appends a new key at the end *)
Fixpoint aset (k v : Z) (a : attrs) : attrs :=
  match a with [] => [(k, v)] | (k', v') :: r => if k' =? k then (k, v) :: r else (k', v') :: aset k v r end.
Fixpoint adel (k : Z) (a : attrs) : attrs :=
  match a with [] => [] | (k', v') :: r => if k' =? k then r else (k', v') :: adel k r end.

(* finally: `if old is missing: del attrib[name] else: attrib[name] = old` *)
Definition restore (k : Z) (old : option Z) (a : attrs) : attrs :=
  match old with None => adel k a | Some v => aset k v a end.
(* a `with temporary_attribute(e, k, v): body` where the body only reads *)
Definition with_temp (k v : Z) (a : attrs) : attrs := restore k (aget k a) (aset k v a).
(* restoring by truthiness (`if old: restore else: delete`), as a seeded change did *)
Definition restore_truthy (k : Z) (old : option Z) (a : attrs) : attrs :=
  match old with Some v => if v =? 0 then adel k a else aset k v a | None => adel k a end.
Definition with_temp_truthy (k v : Z) (a : attrs) : attrs := restore_truthy k (aget k a) (aset k v a).

Definition dec_attrs (v : val) : option attrs :=
  match v with
  | VL l => all_some (map (fun p => match p with VL [VZ k; VZ x] => Some (k, x) | _ => None end) l)
  | _ => None
  end.
Definition enc_attrs (a : attrs) : val := VL (map (fun p => VL [VZ (fst p); VZ (snd p)]) a).
(* [attrs; k; v; k2; v2] -> [attrs inside the outer block; attrs inside a nested block for (k2, v2); attrs after both] *)
Definition w_temp_attr (v : val) : val :=
  match v with
  | VL [a; VZ k; VZ x; VZ k2; VZ x2] =>
      match dec_attrs a with
      | Some a => let a1 := aset k x a in
                  VL [enc_attrs a1; enc_attrs (aset k2 x2 a1); enc_attrs (restore k (aget k a) (restore k2 (aget k2 a1) (aset k2 x2 a1)))]
      | None => bad end
  | _ => bad
  end.
