(* C02 / SerNs: loader.core._round_version and ModelFile.update_namespaces.
   The plugin table NS_PLUGINS and the seed prefixes come from Gen/ExsConsts.v (re-extracted from
   capellambse/_namespaces.py and loader/core.py on every run).
   Input of [compute_nsmap]: for every element of root.iter() with a type, in document order,
   the pair (xtype string as helpers.xtype_of returns it, elem.nsmap.get(prefix of that string)). *)
From Coq Require Import ZArith NArith List Bool.
Import ListNotations.
From V Require Import Model.Val Model.XmlTree Gen.ExsConsts Model.SerExs.
Open Scope N_scope.

Definition DOT : N := 46.
(* v.index(".", pos): the text before the first dot and after it *)
Fixpoint index_dot (s : str) : option (str * str) :=
  match s with
  | [] => None
  | c :: r => if c =? DOT then Some ([], r)
              else match index_dot r with Some (a, b) => Some (c :: a, b) | None => None end
  end.
(* the while loop: consume [prec] dot-terminated parts; None = "return v" (ValueError branch) *)
Fixpoint rv_scan (prec : nat) (rest : str) : option (str * str) :=
  match prec with
  | O => Some ([], rest)
  | S p =>
      match rest with
      | [] => Some ([], rest)                          (* pos < len(v) fails *)
      | _ => match index_dot rest with
             | None => None
             | Some (a, b) => match rv_scan p b with
                              | Some (pre, r) => Some (a ++ DOT :: pre, r)
                              | None => None
                              end
             end
      end
  end.
(* re.sub(r"[^.]+", "0", s) *)
Fixpoint zero_parts (s : str) (in_run : bool) : str :=
  match s with
  | [] => []
  | c :: r => if c =? DOT then DOT :: zero_parts r false
              else if in_run then zero_parts r true else 48 :: zero_parts r true
  end.
Definition round_version (v : str) (prec : N) : res str :=
  if prec =? 0 then RErr E_AssertionError
  else match rv_scan (N.to_nat prec) v with
       | None => ROk v
       | Some (pre, rest) => ROk (pre ++ zero_parts rest false)
       end.

(* str.partition(":")[0] *)
Fixpoint before_colon (s : str) : str :=
  match s with [] => [] | c :: r => if c =? 58 then [] else c :: before_colon r end.
(* str.rstrip("/") *)
Definition rstrip_slash (s : str) : str :=
  rev ((fix go (l : str) : str := match l with c :: r => if c =? 47 then go r else l | [] => [] end) (rev s)).

Definition plugin_row := (str * (bool * (str * N)))%type.
Definition ns_set (ns uri : str) (m : list (str * str)) : res (list (str * str)) :=
  match assoc_str ns m with
  | None => ROk (m ++ [(ns, uri)])
  | Some u => if str_eqb u uri then ROk m else RErr E_AssertionError     (* assert new_nsmap.get(ns) in (None, uri) *)
  end.
Definition plugin_uri (vps : list (str * str)) (row : plugin_row) : res str :=
  let '(name, (versioned, (vp, prec))) := row in
  let base := rstrip_slash name in
  if versioned then
    match assoc_str vp vps with
    | None => RErr E_Corrupt
    | Some [] => RErr E_Corrupt                                          (* if not vp_version *)
    | Some ver => match round_version ver prec with
                  | ROk rv => ROk (base ++ [47] ++ rv)
                  | RErr e => RErr e
                  end
    end
  else ROk base.
Definition ns_step (vps : list (str * str)) (m : list (str * str)) (x : str * option str) : res (list (str * str)) :=
  let ns := before_colon (fst x) in
  match assoc_str ns NS_PLUGINS with
  | None => match snd x with
            | None => ROk m                                               (* LOGGER.error, continue *)
            | Some uri => ns_set ns uri m
            end
  | Some row => match plugin_uri vps row with
                | ROk uri => ns_set ns uri m
                | RErr e => RErr e
                end
  end.
Fixpoint ns_fold (vps : list (str * str)) (m : list (str * str)) (xs : list (str * option str)) : res (list (str * str)) :=
  match xs with
  | [] => ROk m
  | x :: r => match ns_step vps m x with ROk m' => ns_fold vps m' r | RErr e => RErr e end
  end.
Definition seed_map : list (str * str) :=
  flat_map (fun p => match assoc_str p NS_PLUGINS with Some row => [(p, fst row)] | None => [] end) NS_SEED.
Definition compute_nsmap (vps : list (str * str)) (xs : list (str * option str)) : res (list (str * str)) :=
  ns_fold vps seed_map xs.

(* dict equality *)
Definition submap (a b : list (str * str)) : bool :=
  forallb (fun p => match assoc_str (fst p) b with Some u => str_eqb u (snd p) | None => false end) a.
Definition dict_eqb (a b : list (str * str)) : bool := submap a b && submap b a.
(* dict(sorted(new_nsmap.items())) : plain string order on the prefix *)
Fixpoint pinsert (x : str * str) (l : list (str * str)) : list (str * str) :=
  match l with
  | [] => [x]
  | y :: r => if str_leb (fst x) (fst y) then x :: l else y :: pinsert x r
  end.
Definition psort (l : list (str * str)) : list (str * str) := fold_right pinsert [] l.

(* ModelFile.update_namespaces: None = the root object is kept; Some m = a new root with nsmap m *)
Definition update_namespaces (old : list (str * str)) (vps : list (str * str)) (xs : list (str * option str))
  : res (option (list (str * str))) :=
  match compute_nsmap vps xs with
  | RErr e => RErr e
  | ROk m => if dict_eqb old m then ROk None else ROk (Some (psort m))
  end.

(* ---- wrappers ---- *)
Definition w_round_version (v : val) : val :=
  match v with
  | VL [VS s; VZ p] => match round_version s (Z.to_N p) with ROk r => VS r | RErr e => VE e end
  | _ => bad
  end.
Definition xs_of_val (v : val) : option (list (str * option str)) :=
  match v with
  | VL l => all_some (map (fun x => match x with
                                    | VL [VS t; VS u] => Some (t, Some u)
                                    | VL [VS t; VNone] => Some (t, None)
                                    | _ => None end) l)
  | _ => None
  end.
(* VL [old nsmap pairs; viewpoint pairs; xs] -> VNone (unchanged) | VL pairs (new root nsmap, in order) | VE *)
Definition w_update_ns (v : val) : val :=
  match v with
  | VL [VL old; VL vps; xs] =>
      match all_some (map pair_of_val old), all_some (map pair_of_val vps), xs_of_val xs with
      | Some old', Some vps', Some xs' =>
          match update_namespaces old' vps' xs' with
          | ROk None => VNone
          | ROk (Some m) => pairs_val m
          | RErr e => VE e
          end
      | _, _, _ => bad
      end
  | _ => bad
  end.
