(* C18 / the drawing model instantiated with the tables regenerated from the tree under check,
   the finite domain of (diagram class x element kind x style class x label/feature shape x override)
   combinations those tables know, and the val wrappers for the correspondence check. *)
From Coq Require Import ZArith NArith QArith List Bool.
Import ListNotations.
From V Require Import Model.Val Model.SvgTypes Model.SvgDraw Gen.SvgTables.
Open Scope N_scope.

Definition TBL : tables :=
  mkT STYLES MARKERS SYMBOLS ALL_PORTS ALL_DIRECTED_PORTS FUNCTION_PORTS COMPONENT_PORTS ONLY_ICONS.

Definition intround : Q -> Z := intround_with INTROUND_ADD.
Definition viewbox : option (Q * Q * Q * Q) -> vbox := viewbox_with INTROUND_ADD PAD_POS_X PAD_POS_Y PAD_SIZE_X PAD_SIZE_Y.

Record asvg := mkA { a_viewbox : vbox; a_groups : list (option str * str); a_defs : list str; a_refs : list str }.
Definition render (d : diagram) : option asvg :=
  match draw_all TBL (g_class d) (encode_contents (g_elems d)) with
  | None => None
  | Some st => Some (mkA (viewbox (g_viewport d)) (d_groups st) (doc_defs TBL st) (doc_refs TBL st))
  end.

(* ------------------------------------------------------------------ the finite domain *)
Definition diagram_classes : list str := [] (* None *) :: map fst STYLES.
Definition strip_type (ty : str) (oc : str) : list str :=
  if prefixb (ty ++ [46]) oc then [drop (S (length ty)) oc] else [].
(* style classes the tables know for a diagram class: Type.Class keys of the class itself and of __GLOBAL__ *)
Definition classes_of (ty dc : str) : list str :=
  sort_set (flat_map (fun kv => strip_type ty (fst kv))
                     (match assoc dc STYLES with Some t => t | None => [] end
                      ++ match assoc s_GLOBAL STYLES with Some t => t | None => [] end)).
(* classes that only exist as symbols / ports *)
Definition symbol_names : list str :=
  flat_map (fun r => let k := sy_key r in
                     let n := (length k - 6)%nat in
                     if seqb (drop n k) s_Symbol then [firstn n k] else []) SYMBOLS.
Definition symbol_classes : list str := sort_set (symbol_names ++ ALL_PORTS).

(* overrides the library itself produces (aird/_styling.py): fill colour / gradient, stroke, text_fill *)
Definition h1 : str := [48;49;48;50;48;51].  (* 010203 *)
Definition h2 : str := [65;48;66;48;67;48].  (* A0B0C0 *)
Definition s_text_fill : str := s_text_ ++ s_fill.
Definition s_stroke_width : str := s_stroke ++ [45;119;105;100;116;104].
Definition override_menu : list (list (str * sval)) :=
  [ [];
    [(s_fill, SvRGB h1)];
    [(s_fill, SvGrad [h1; h2])];
    [(s_stroke, SvRGB h2)];
    [(s_stroke, SvRGB h2); (s_stroke_width, SvInt 3); (s_fill, SvGrad [h2; h1])];
    [(s_text_fill, SvRGB h1)];
    [(s_text_fill, SvGrad [h1; h2]); (s_fill, SvGrad [h2; h1])] ].

(* label / floating labels / features shapes *)
Definition shapes_of (k : kind) : list (bool * nat * nat) :=
  match k with
  | KBox => [(false, 0, 0); (true, 0, 0); (false, 1, 0); (true, 2, 0); (true, 0, 2); (false, 0, 1)]%nat
  | KBoxSymbol => [(false, 0, 0); (true, 0, 0); (true, 1, 0)]%nat
  | KSymbol => [(false, 0, 0); (false, 1, 0)]%nat
  | KEdge => [(false, 0, 0); (false, 1, 0); (false, 2, 0)]%nat
  | KCircle => [(false, 0, 0)]%nat
  end.
(* a box / edge whose class has a registered symbol gets that symbol as its label icon, whether or
   not STYLES has an entry for the class: those classes belong to the domain of every diagram class *)
Definition kinds_classes (dc : str) : list (kind * str) :=
  map (pair KBox) (sort_set (classes_of s_Box dc ++ symbol_names))
  ++ map (pair KBoxSymbol) (classes_of s_Box dc)
  ++ map (pair KEdge) (sort_set (classes_of s_Edge dc ++ symbol_names))
  ++ map (pair KCircle) (classes_of s_Edge dc)
  ++ map (pair KSymbol) symbol_classes.

Definition u1 : str := [117;49].
Definition mk_obj (kc : kind * str) (sh : bool * nat * nat) (ov : list (str * sval)) : jobj :=
  mkO (fst kc) (Some u1) (snd kc) [] ov (fst (fst sh)) (snd (fst sh)) (snd sh).
Definition closed1 (dc : str) (o : jobj) : bool :=
  match draw_obj TBL dc st0 o with
  | Some st => closed TBL st
  | None => false
  end.
(* the same, with get_style evaluated once per (diagram class, kind, class) *)
Definition closed1_d (dfl : list (str * sval)) (o : jobj) : bool :=
  match place TBL st0 o (draw1_d TBL dfl o) with
  | Some st => closed TBL st
  | None => false
  end.
Definition dfl_of (dc : str) (kc : kind * str) : list (str * sval) :=
  eff (defaults TBL dc (packed_class (mk_obj kc (false, O, O) []))).
Definition closed_sh (dfl : list (str * sval)) (kc : kind * str) (sh : bool * nat * nat) : bool :=
  forallb (fun ov => closed1_d dfl (mk_obj kc sh ov)) override_menu.
Definition closed_kc (dc : str) (kc : kind * str) : bool :=
  let dfl := dfl_of dc kc in forallb (closed_sh dfl kc) (shapes_of (fst kc)).
Definition closed_dc (dc : str) : bool := forallb (closed_kc dc) (kinds_classes dc).
Definition all_closed : bool := forallb closed_dc diagram_classes.
(* per-object closure (context-free: no drawing state), for the theorem about whole drawings *)
Definition obj_closed_d (dfl : list (str * sval)) (o : jobj) : bool :=
  match draw1_d TBL dfl o with
  | Some d => subset_str (dr_refs d) (dr_defs d ++ flat_map (row_ids TBL) (dr_syms d))
  | None => false
  end.
Definition oclosed_sh (dfl : list (str * sval)) (kc : kind * str) (sh : bool * nat * nat) : bool :=
  forallb (fun ov => obj_closed_d dfl (mk_obj kc sh ov)) override_menu.
Definition oclosed_kc (dc : str) (kc : kind * str) : bool :=
  let dfl := dfl_of dc kc in forallb (oclosed_sh dfl kc) (shapes_of (fst kc)).
Definition oclosed_dc (dc : str) : bool := forallb (oclosed_kc dc) (kinds_classes dc).

(* the combinations that are not closed, for the report when the closure theorem no longer holds *)
Definition unclosed : list (str * (kind * str)) :=
  flat_map (fun dc =>
    flat_map (fun kc => if closed_kc dc kc then [] else [(dc, kc)]) (kinds_classes dc)) diagram_classes.
Definition n_combos : N :=
  fold_right (fun dc n => fold_right (fun kc n => N.of_nat (length (shapes_of (fst kc))) * N.of_nat (length override_menu) + n) n (kinds_classes dc))
             0 diagram_classes.

(* table sanity the general closure theorem needs (see Proofs/SvgDrawP.v) *)
Definition row_local_closed (T : tables) (r : symbol_row) : bool :=
  subset_str (sy_refs r) (sy_ids r ++ flat_map (row_ids T) (sy_deps r)).
Definition row_id_ok (r : symbol_row) : bool := seqb (sy_id r) (sy_key r) && mem_str (sy_key r) (sy_ids r).
Definition symbols_ok (T : tables) : bool := forallb (fun r => row_local_closed T r && row_id_ok r) (t_symbols T).

(* ------------------------------------------------------------------ val decoding *)
Definition dec_sval (v : val) : option sval :=
  match v with
  | VNone => Some SvNone
  | VZ z => Some (SvInt z)
  | VL [VZ 0; VS s] => Some (SvStr s)
  | VL [VZ 1; VS h] => Some (SvRGB h)
  | VL (VZ 2 :: hs) => match all_some (map as_str hs) with Some l => Some (SvGrad l) | None => None end
  | _ => None
  end%Z.
Definition dec_kv (v : val) : option (str * sval) :=
  match v with VL [VS k; x] => match dec_sval x with Some s => Some (k, s) | None => None end | _ => None end.
Definition dec_kind (z : Z) : option kind :=
  match z with 0 => Some KBox | 1 => Some KEdge | 2 => Some KCircle | 3 => Some KSymbol | 4 => Some KBoxSymbol | _ => None end%Z.
Definition dec_ostr (v : val) : option (option str) :=
  match v with VNone => Some None | VS s => Some (Some s) | _ => None end.
Definition dec_hc (v : val) : option (bool * bool) :=
  match v with VL [VB h; VB c] => Some (h, c) | _ => None end.
Definition dec_anc (v : val) : option (list (bool * bool)) :=
  match v with VL l => all_some (map dec_hc l) | _ => None end.
Definition dec_end (v : val) : option (bool * list (bool * bool)) :=
  match v with VL [VB h; a] => match dec_anc a with Some a => Some (h, a) | None => None end | _ => None end.
Definition dec_elem (v : val) : option delem :=
  match v with
  | VL [VZ k; id; VS cls; ctx; VL ov; VB lab; VZ nfl; VZ nfe; VB hid; anc; VL ends] =>
      match dec_kind k, dec_ostr id, as_strs ctx, all_some (map dec_kv ov), dec_anc anc, all_some (map dec_end ends) with
      | Some k, Some id, Some ctx, Some ov, Some anc, Some ends =>
          Some (mkE (mkO k id cls ctx ov lab (Z.to_nat nfl) (Z.to_nat nfe)) hid anc ends)
      | _, _, _, _, _, _ => None
      end
  | _ => None
  end.
Definition dec_q (v : val) : option Q :=
  match v with VL [VZ n; VZ (Zpos d)] => Some (n # d) | _ => None end.
Definition dec_vp (v : val) : option (option (Q * Q * Q * Q)) :=
  match v with
  | VNone => Some None
  | VL [x; y; w; h] => match dec_q x, dec_q y, dec_q w, dec_q h with
                       | Some x, Some y, Some w, Some h => Some (Some (x, y, w, h))
                       | _, _, _, _ => None end
  | _ => None
  end.
Definition enc_ostr (o : option str) : val := match o with Some s => VS s | None => VNone end.

(* input  [dclass | None; viewport | None; elements]
   output [[vx;vy;vw;vh]; [[id; class attribute] ...]; sorted set of ids in <defs>; sorted set of referenced ids] *)
Definition w_render (v : val) : val :=
  match v with
  | VL [dc; vp; VL els] =>
      match dec_ostr dc, dec_vp vp, all_some (map dec_elem els) with
      | Some dc, Some vp, Some els =>
          match render (mkDg (match dc with Some s => s | None => [] end) vp els) with
          | None => VE E_Other
          | Some a =>
              let '(x, y, w, h) := a_viewbox a in
              VL [VL [VZ x; VZ y; VZ w; VZ h];
                  VL (map (fun g => VL [enc_ostr (fst g); VS (snd g)]) (a_groups a));
                  of_strs (sort_set (a_defs a)); of_strs (sort_set (a_refs a))]
          end
      | _, _, _ => bad
      end
  | _ => bad
  end.
Definition kind_code (k : kind) : Z :=
  match k with KBox => 0 | KEdge => 1 | KCircle => 2 | KSymbol => 3 | KBoxSymbol => 4 end%Z.
Definition w_unclosed (_ : val) : val :=
  VL (map (fun x => VL [VS (fst x); VZ (kind_code (fst (snd x))); VS (snd (snd x))]) unclosed).
Definition w_intround (v : val) : val :=
  match dec_q v with Some q => VZ (intround q) | None => bad end.
