(* Primitives the py2gallina translator maps Python library calls to.
   Each is a small stand-in for library behaviour (pathlib, str methods, re)
   and is sampled against the real thing by the correspondence checks. *)
From Coq Require Import ZArith NArith List Bool.
Import ListNotations.
From V Require Import Model.Val Model.Paths.

Inductive result (A : Type) := Ok (a : A) | Err (e : N).
Arguments Ok {A} a. Arguments Err {A} e.

Record ppath := { pp_abs : bool; pp_parts : list str }.
Definition py_join_root (base path : str) : ppath := {| pp_abs := true; pp_parts := join_root base path |}.
Definition py_parts (p : ppath) : list str := if pp_abs p then [SLASH] :: pp_parts p else pp_parts p.
Definition py_parts1 (p : ppath) : list str := tl (py_parts p).
Definition py_of_parts (l : list str) : ppath :=
  match l with
  | [c] :: r => if N.eqb c SLASH then {| pp_abs := true; pp_parts := r |} else {| pp_abs := false; pp_parts := l |}
  | _ => {| pp_abs := false; pp_parts := l |}
  end.
Definition py_nonempty {A} (l : list A) : bool := match l with [] => false | _ => true end.
Definition py_last (l : list str) : str := last l [].

(* str.split() — split on runs of ASCII whitespace (the only whitespace the link syntax can meet) *)
Definition is_ws (c : N) : bool := (N.eqb c 32 || N.eqb c 9 || N.eqb c 10 || N.eqb c 13 || N.eqb c 11 || N.eqb c 12)%bool.
Fixpoint split_ws_go (s : str) (cur : str) : list str :=
  match s with
  | [] => match cur with [] => [] | _ => [rev cur] end
  | c :: r => if is_ws c then match cur with [] => split_ws_go r [] | _ => rev cur :: split_ws_go r [] end
              else split_ws_go r (c :: cur)
  end.
Definition py_split_ws (s : str) : list str := split_ws_go s [].

Fixpoint str_prefixb (p s : str) : bool :=
  match p, s with
  | [], _ => true
  | x :: p', y :: s' => N.eqb x y && str_prefixb p' s'
  | _, [] => false
  end.
Fixpoint py_str_contains (s sub : str) : bool :=
  str_prefixb sub s || match s with [] => false | _ :: r => py_str_contains r sub end.

(* ---- loops.  A `for` statement becomes one of three combinators applied to a step function over the
        tuple of the variables the body assigns:
          no break, cannot raise : [fold_left step xs init]
          break, cannot raise    : [py_forb step xs init]   (the step also says whether to stop)
          may raise (or yields)  : [py_for step xs init]    (the step says go on / break / raise) ---- *)
Inductive ctl (S : Type) := Next (s : S) | Break (s : S) | Raise (e : N).
Arguments Next {S} s. Arguments Break {S} s. Arguments Raise {S} e.
Fixpoint py_for {S X} (step : S -> X -> ctl S) (l : list X) (s : S) : result S :=
  match l with
  | [] => Ok s
  | x :: r => match step s x with
              | Next s' => py_for step r s'
              | Break s' => Ok s'
              | Raise e => Err e
              end
  end.
Fixpoint py_forb {S X} (step : S -> X -> S * bool) (l : list X) (s : S) : S :=
  match l with
  | [] => s
  | x :: r => let '(s', stop) := step s x in if stop then s' else py_forb step r s'
  end.

(* ---- sequences: l[i:], l[:j], l[i:j] (negative bounds count from the end, everything is clipped),
        l * n (n <= 0 gives []), enumerate(l, start) ---- *)
Definition py_index {A} (l : list A) (i : Z) : nat :=
  if (i <? 0)%Z then Z.to_nat (Z.of_nat (List.length l) + i) else Z.to_nat i.
Definition py_slice_from {A} (l : list A) (i : Z) : list A := skipn (py_index l i) l.
Definition py_slice_to {A} (l : list A) (j : Z) : list A := firstn (py_index l j) l.
Definition py_slice {A} (l : list A) (i j : Z) : list A := skipn (py_index l i) (firstn (py_index l j) l).
Definition py_list_mul {A} (l : list A) (n : Z) : list A := concat (repeat l (Z.to_nat n)).
Fixpoint py_enumerate {A} (start : Z) (l : list A) : list (Z * A) :=
  match l with [] => [] | x :: r => (start, x) :: py_enumerate (start + 1)%Z r end.
