(* Primitives the py2gallina translator maps Python library calls to.
   Each is a small stand-in for library behaviour (pathlib, str methods, re)
   and is sampled against the real thing by the correspondence checks. *)
From Coq Require Import ZArith NArith List Bool.
Import ListNotations.
From V Require Import Model.Val Model.Paths.

Inductive result (A : Type) := Ok (a : A) | Err (e : N).
Arguments Ok {A} a. Arguments Err {A} e.

Record ppath := { pp_abs : bool; pp_parts : list str }.
Definition py_join_root (base path : str) : ppath := {| pp_abs := true; pp_parts := join_root base path |}.
Definition py_parts (p : ppath) : list str := if pp_abs p then [SLASH] :: pp_parts p else pp_parts p.
Definition py_parts1 (p : ppath) : list str := tl (py_parts p).
Definition py_of_parts (l : list str) : ppath :=
  match l with
  | [c] :: r => if N.eqb c SLASH then {| pp_abs := true; pp_parts := r |} else {| pp_abs := false; pp_parts := l |}
  | _ => {| pp_abs := false; pp_parts := l |}
  end.
Definition py_nonempty {A} (l : list A) : bool := match l with [] => false | _ => true end.
Definition py_last (l : list str) : str := last l [].

(* str.split() — split on runs of ASCII whitespace (the only whitespace the link syntax can meet) *)
Definition is_ws (c : N) : bool := (N.eqb c 32 || N.eqb c 9 || N.eqb c 10 || N.eqb c 13 || N.eqb c 11 || N.eqb c 12)%bool.
Fixpoint split_ws_go (s : str) (cur : str) : list str :=
  match s with
  | [] => match cur with [] => [] | _ => [rev cur] end
  | c :: r => if is_ws c then match cur with [] => split_ws_go r [] | _ => rev cur :: split_ws_go r [] end
              else split_ws_go r (c :: cur)
  end.
Definition py_split_ws (s : str) : list str := split_ws_go s [].

Fixpoint str_prefixb (p s : str) : bool :=
  match p, s with
  | [], _ => true
  | x :: p', y :: s' => N.eqb x y && str_prefixb p' s'
  | _, [] => false
  end.
Fixpoint py_str_contains (s sub : str) : bool :=
  str_prefixb sub s || match s with [] => false | _ :: r => py_str_contains r sub end.
