(* Model-coupled lists (C08): Python list semantics and the position arithmetic of the
   accessors' insert/delete on a parent whose children are of mixed kinds.
   A parent's children are (handle, member?) pairs: member = the child belongs to the relation
   (right xsi:type and an id).  The relation's view is the members in document order. *)
From Coq Require Import ZArith List Bool.
Import ListNotations.
From V Require Import Model.Val.
Open Scope Z_scope.

(* ---- Python list semantics ---- *)
Definition py_norm (n : nat) (i : Z) : nat :=
  if i <? 0 then Z.to_nat (Z.max (Z.of_nat n + i) 0) else Nat.min (Z.to_nat i) n.
Definition py_insert {A} (i : Z) (x : A) (l : list A) : list A :=
  let k := py_norm (length l) i in firstn k l ++ x :: skipn k l.
(* index for item access: error outside [-n, n) *)
Definition py_index (n : nat) (i : Z) : option nat :=
  if (i <? 0) then (if (- Z.of_nat n <=? i) then Some (Z.to_nat (Z.of_nat n + i)) else None)
  else if (i <? Z.of_nat n) then Some (Z.to_nat i) else None.
Definition py_delitem {A} (i : Z) (l : list A) : option (list A) :=
  match py_index (length l) i with Some k => Some (firstn k l ++ skipn (S k) l) | None => None end.

(* ---- children of a parent ---- *)
Definition kid := (Z * bool)%type.
Definition view (ks : list kid) : list Z := map fst (filter snd ks).
Definition others (ks : list kid) : list Z := map fst (filter (fun k => negb (snd k)) ks).

Fixpoint insert_before (m : Z) (x : kid) (ks : list kid) : list kid :=
  match ks with
  | [] => [x]
  | k :: r => if fst k =? m then x :: k :: r else k :: insert_before m x r
  end.
Fixpoint insert_after (m : Z) (x : kid) (ks : list kid) : list kid :=
  match ks with
  | [] => [x]
  | k :: r => if fst k =? m then k :: x :: r else k :: insert_after m x r
  end.

(* DirectProxyAccessor.insert / RoleTagAccessor.insert (after the fix): normalise the index the
   way Python does, then place the new child directly before the member currently at that
   position, or directly after the last member, or at the end of the parent when there is none *)
Definition direct_insert (i : Z) (x : Z) (ks : list kid) : list kid :=
  let ms := view ks in
  let k := py_norm (length ms) i in
  match nth_error ms k with
  | Some m => insert_before m (x, true) ks
  | None => match rev ms with
            | m :: _ => insert_after m (x, true) ks
            | [] => ks ++ [(x, true)]
            end
  end.

(* the arithmetic of the code as found (before the fix), total version: None = IndexError *)
Definition lxml_insert (pos : Z) (x : kid) (ks : list kid) : list kid :=
  let k := py_norm (length ks) pos in firstn k ks ++ x :: skipn k ks.
Fixpoint index_of (m : Z) (ks : list kid) : option nat :=
  match ks with
  | [] => None
  | k :: r => if fst k =? m then Some O else option_map S (index_of m r)
  end.
Definition direct_insert_old (i : Z) (x : Z) (ks : list kid) : option (list kid) :=
  let ms := view ks in
  let n := length ms in
  if 0 <? i then
    match py_index n (i - 1) with
    | Some j => match nth_error ms j with
                | Some m => match index_of m ks with
                            | Some p => Some (lxml_insert (Z.of_nat p + 1) (x, true) ks)
                            | None => Some (ks ++ [(x, true)]) end
                | None => None end
    | None => None
    end
  else if i <? -1 then
    match py_index n (i + 1) with
    | Some j => match nth_error ms j with
                | Some m => match index_of m ks with
                            | Some p => Some (lxml_insert (Z.of_nat p - 1) (x, true) ks)
                            | None => Some (ks ++ [(x, true)]) end
                | None => None end
    | None => None
    end
  else Some (lxml_insert i (x, true) ks).

(* removing one child by handle (DirectProxyAccessor._delete on a single element) *)
Definition remove_kid (m : Z) (ks : list kid) : list kid := filter (fun k => negb (fst k =? m)) ks.

(* AttrProxyAccessor: the attribute holds the list itself *)
Definition attr_insert (i : Z) (x : Z) (l : list Z) : list Z :=
  (* [*l[:i], x, *l[i:]] with Python slice clamping *)
  let k := py_norm (length l) i in firstn k l ++ x :: skipn k l.
Definition attr_delete (x : Z) (l : list Z) : list Z := filter (fun y => negb (y =? x)) l.

(* ---- wrappers ---- *)
Definition dec_kids (v : val) : option (list kid) :=
  match v with
  | VL l => all_some (map (fun p => match p with VL [VZ h; VB b] => Some (h, b) | _ => None end) l)
  | _ => None
  end.
Definition enc_kids (ks : list kid) : val := VL (map (fun k => VL [VZ (fst k); VB (snd k)]) ks).
Definition w_direct_insert (v : val) : val :=
  match v with
  | VL [VZ i; VZ x; ks] => match dec_kids ks with Some ks => enc_kids (direct_insert i x ks) | None => bad end
  | _ => bad
  end.
Definition w_py_insert (v : val) : val :=
  match v with
  | VL [VZ i; VZ x; VL l] => match all_some (map as_Z l) with Some l => VL (map VZ (py_insert i x l)) | None => bad end
  | _ => bad
  end.
Definition w_py_delitem (v : val) : val :=
  match v with
  | VL [VZ i; VL l] => match all_some (map as_Z l) with
                       | Some l => match py_delitem i l with Some r => VL (map VZ r) | None => VE E_IndexError end
                       | None => bad end
  | _ => bad
  end.
