(* Model-coupled lists (C08): Python list semantics and the position arithmetic of the
   accessors' insert/delete on a parent whose children are of mixed kinds.
   A parent's children are (handle, member?) pairs: member = the child belongs to the relation
   (right xsi:type and an id).  The relation's view is the members in document order. *)
From Coq Require Import ZArith List Bool.
Import ListNotations.
From V Require Import Model.Val.
Open Scope Z_scope.

(* ---- Python list semantics ---- *)
Definition py_norm (n : nat) (i : Z) : nat :=
  if i <? 0 then Z.to_nat (Z.max (Z.of_nat n + i) 0) else Nat.min (Z.to_nat i) n.
Definition py_insert {A} (i : Z) (x : A) (l : list A) : list A :=
  let k := py_norm (length l) i in firstn k l ++ x :: skipn k l.
(* index for item access: error outside [-n, n) *)
Definition py_index (n : nat) (i : Z) : option nat :=
  if (i <? 0) then (if (- Z.of_nat n <=? i) then Some (Z.to_nat (Z.of_nat n + i)) else None)
  else if (i <? Z.of_nat n) then Some (Z.to_nat i) else None.
Definition py_delitem {A} (i : Z) (l : list A) : option (list A) :=
  match py_index (length l) i with Some k => Some (firstn k l ++ skipn (S k) l) | None => None end.

(* ---- children of a parent ---- *)
Definition kid := (Z * bool)%type.
Definition view (ks : list kid) : list Z := map fst (filter snd ks).
Definition others (ks : list kid) : list Z := map fst (filter (fun k => negb (snd k)) ks).

Fixpoint insert_before (m : Z) (x : kid) (ks : list kid) : list kid :=
  match ks with
  | [] => [x]
  | k :: r => if fst k =? m then x :: k :: r else k :: insert_before m x r
  end.
Fixpoint insert_after (m : Z) (x : kid) (ks : list kid) : list kid :=
  match ks with
  | [] => [x]
  | k :: r => if fst k =? m then k :: x :: r else k :: insert_after m x r
  end.

(* DirectProxyAccessor.insert / RoleTagAccessor.insert (after the fix): normalise the index the
   way Python does, then place the new child directly before the member currently at that
   position, or directly after the last member, or at the end of the parent when there is none *)
Definition direct_insert (i : Z) (x : Z) (ks : list kid) : list kid :=
  let ms := view ks in
  let k := py_norm (length ms) i in
  match nth_error ms k with
  | Some m => insert_before m (x, true) ks
  | None => match rev ms with
            | m :: _ => insert_after m (x, true) ks
            | [] => ks ++ [(x, true)]
            end
  end.

(* the arithmetic of the code as found (before the fix), total version: None = IndexError *)
Definition lxml_insert (pos : Z) (x : kid) (ks : list kid) : list kid :=
  let k := py_norm (length ks) pos in firstn k ks ++ x :: skipn k ks.
Fixpoint index_of (m : Z) (ks : list kid) : option nat :=
  match ks with
  | [] => None
  | k :: r => if fst k =? m then Some O else option_map S (index_of m r)
  end.
Definition direct_insert_old (i : Z) (x : Z) (ks : list kid) : option (list kid) :=
  let ms := view ks in
  let n := length ms in
  if 0 <? i then
    match py_index n (i - 1) with
    | Some j => match nth_error ms j with
                | Some m => match index_of m ks with
                            | Some p => Some (lxml_insert (Z.of_nat p + 1) (x, true) ks)
                            | None => Some (ks ++ [(x, true)]) end
                | None => None end
    | None => None
    end
  else if i <? -1 then
    match py_index n (i + 1) with
    | Some j => match nth_error ms j with
                | Some m => match index_of m ks with
                            | Some p => Some (lxml_insert (Z.of_nat p - 1) (x, true) ks)
                            | None => Some (ks ++ [(x, true)]) end
                | None => None end
    | None => None
    end
  else Some (lxml_insert i (x, true) ks).

(* removing one child by handle (DirectProxyAccessor._delete on a single element) *)
Definition remove_kid (m : Z) (ks : list kid) : list kid := filter (fun k => negb (fst k =? m)) ks.

(* AttrProxyAccessor: the attribute holds the list itself *)
Definition attr_insert (i : Z) (x : Z) (l : list Z) : list Z :=
  (* [*l[:i], x, *l[i:]] with Python slice clamping *)
  let k := py_norm (length l) i in firstn k l ++ x :: skipn k l.
Definition attr_delete (x : Z) (l : list Z) : list Z := filter (fun y => negb (y =? x)) l.

(* ---- wrappers ---- *)
Definition dec_kids (v : val) : option (list kid) :=
  match v with
  | VL l => all_some (map (fun p => match p with VL [VZ h; VB b] => Some (h, b) | _ => None end) l)
  | _ => None
  end.
Definition enc_kids (ks : list kid) : val := VL (map (fun k => VL [VZ (fst k); VB (snd k)]) ks).
Definition w_direct_insert (v : val) : val :=
  match v with
  | VL [VZ i; VZ x; ks] => match dec_kids ks with Some ks => enc_kids (direct_insert i x ks) | None => bad end
  | _ => bad
  end.
Definition w_py_insert (v : val) : val :=
  match v with
  | VL [VZ i; VZ x; VL l] => match all_some (map as_Z l) with Some l => VL (map VZ (py_insert i x l)) | None => bad end
  | _ => bad
  end.
Definition w_py_delitem (v : val) : val :=
  match v with
  | VL [VZ i; VL l] => match all_some (map as_Z l) with
                       | Some l => match py_delitem i l with Some r => VL (map VZ r) | None => VE E_IndexError end
                       | None => bad end
  | _ => bad
  end.

(* ---- slices (step 1) and fixed-length relations ---- *)
(* list.__setitem__/__delitem__ with slice(a, b): a bound that is None is the respective end; bounds are clamped the
   way insert clamps; an empty or inverted range inserts at the lower bound *)
Definition py_bound (n : nat) (b : option Z) (dflt : nat) : nat :=
  match b with None => dflt | Some i => py_norm n i end.
Definition py_lo (n : nat) (a : option Z) : nat := py_bound n a 0.
Definition py_hi (n : nat) (a b : option Z) : nat := Nat.max (py_lo n a) (py_bound n b n).
Definition py_slice {A} (a b : option Z) (l : list A) : list A :=
  firstn (py_hi (length l) a b - py_lo (length l) a) (skipn (py_lo (length l) a) l).
Definition py_slice_set {A} (a b : option Z) (xs l : list A) : list A :=
  firstn (py_lo (length l) a) l ++ xs ++ skipn (py_hi (length l) a b) l.
Definition py_slice_del {A} (a b : option Z) (l : list A) : list A := py_slice_set a b [] l.

(* ElementListCouplingMixin.__delitem__ deletes a slice by handing each member of the slice, in order, to the
   accessor's delete(); for an attribute relation that is attr_delete *)
Definition attr_slice_del (a b : option Z) (l : list Z) : list Z :=
  fold_left (fun acc x => attr_delete x acc) (py_slice a b l) l.

(* operations on a fixed-length relation whose list is full (ElementListCouplingMixin.__setitem__/__delitem__/insert/
   create, AttrProxyAccessor.__set__): None = TypeError *)
Inductive fop :=
| FSetItem (i : Z) (x : Z)
| FSliceSet (a b : option Z) (xs : list Z)
| FSliceDel (a b : option Z)
| FDelItem (i : Z)
| FInsert (i : Z) (x : Z)
| FAssign (xs : list Z).
Definition py_setitem (i : Z) (x : Z) (l : list Z) : option (list Z) :=
  match py_index (length l) i with Some k => Some (firstn k l ++ x :: skipn (S k) l) | None => None end.
Definition fixed_step (fixed : nat) (l : list Z) (o : fop) : option (list Z) :=
  match o with
  | FSetItem i x => py_setitem i x l
  | FSliceSet a b xs => let r := py_slice_set a b xs l in if Nat.eqb (length r) fixed then Some r else None
  | FSliceDel a b => if Nat.leb (length l) fixed then None else Some (py_slice_del a b l)
  | FDelItem i => if Nat.leb (length l) fixed then None else py_delitem i l
  | FInsert i x => if Nat.leb fixed (length l) then None else Some (py_insert i x l)
  | FAssign xs => if Nat.eqb (length xs) fixed then Some xs else None
  end.
(* a rejected operation changes nothing *)
Definition fixed_apply (fixed : nat) (l : list Z) (o : fop) : list Z :=
  match fixed_step fixed l o with Some r => r | None => l end.

Definition dec_oz (v : val) : option (option Z) := match v with VNone => Some None | VZ z => Some (Some z) | _ => None end.
Definition w_py_slice_set (v : val) : val :=
  match v with
  | VL [a; b; VL xs; VL l] =>
      match dec_oz a, dec_oz b, all_some (map as_Z xs), all_some (map as_Z l) with
      | Some a, Some b, Some xs, Some l => VL [VL (map VZ (py_slice_set a b xs l)); VL (map VZ (py_slice a b l)); VL (map VZ (py_slice_del a b l))]
      | _, _, _, _ => bad end
  | _ => bad
  end.
Definition dec_fop (v : val) : option fop :=
  match v with
  | VL [VZ 0; VZ i; VZ x] => Some (FSetItem i x)
  | VL [VZ 1; a; b; VL xs] => match dec_oz a, dec_oz b, all_some (map as_Z xs) with Some a, Some b, Some xs => Some (FSliceSet a b xs) | _, _, _ => None end
  | VL [VZ 2; a; b] => match dec_oz a, dec_oz b with Some a, Some b => Some (FSliceDel a b) | _, _ => None end
  | VL [VZ 3; VZ i] => Some (FDelItem i)
  | VL [VZ 4; VZ i; VZ x] => Some (FInsert i x)
  | VL [VZ 5; VL xs] => option_map FAssign (all_some (map as_Z xs))
  | _ => None
  end.
(* [fixed; l; op] -> [accepted?; list afterwards] *)
Definition w_fixed_step (v : val) : val :=
  match v with
  | VL [VZ f; VL l; o] =>
      match all_some (map as_Z l), dec_fop o with
      | Some l, Some o => VL [VB (match fixed_step (Z.to_nat f) l o with Some _ => true | None => false end); VL (map VZ (fixed_apply (Z.to_nat f) l o))]
      | _, _ => bad end
  | _ => bad
  end.
