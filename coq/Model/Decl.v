(* Decl: the scheduler of capellambse/decl.py `apply` — instruction deque, `promises`
   dict, `deferred` dict, re-queueing on fulfilment, terminal checks — over abstract
   atomic actions, the compilation of an instruction document into those actions
   (mirroring how _operate_extend/_operate_set/_operate_sync/_create_complex_object(s)
   split an instruction), and a log-structured object store.
   Executable definitions only. *)
From Coq Require Import ZArith NArith List Bool.
Import ListNotations.
From V Require Import Model.Val Gen.Decl_consts.

(* promise identifiers are numbers (the harness interns the identifier strings);
   objects are identified by a key string: the unique `name` the document gives to a
   created object, or the UUID of an object of the base model. *)
Notation pid := N (only parsing).

Inductive ref :=
| RObj (k : str)                    (* !uuid, or a !find without promises that matches a base object *)
| RProm (p : N)                     (* !promise p *)
| RFind (k : str) (ps : list N).    (* !find {..., attr: !promise p, ...} that matches object k *)
(* a `set` / attribute value: a scalar, one reference, or a list of references (list-valued `set`) *)
Inductive sval := SStr (s : str) | SRef (r : ref) | SList (l : list ref).

Definition ref_needs (r : ref) : list N :=
  match r with RObj _ => [] | RProm p => [p] | RFind _ ps => ps end.
Definition sval_needs (v : sval) : list N :=
  match v with SStr _ => [] | SRef r => ref_needs r | SList l => flat_map ref_needs l end.
Definition simple_needs (l : list (str * sval)) : list N := flat_map (fun kv => sval_needs (snd kv)) l.

(* what an atomic action does when it runs *)
Inductive kind :=
| KInstr                                                     (* an instruction whose parent resolved *)
| KCreate (owner : ref) (attr : str) (name : str) (simple : list (str * sval))   (* target.create with the simple attributes *)
| KAppend (owner : ref) (attr : str) (r : ref)               (* target.append(resolved r) *)
| KSet (owner : ref) (attr : str) (v : sval)                 (* setattr(owner, attr, v); list value: clear the list, append the members *)
| KSync (owner : ref) (attr : str) (name : str) (found : bool).  (* the find step of a sync entry *)

(* an action: what it does, the promises it must see resolved first (in the order the
   code evaluates them), and what follows once it ran: promises it declares (with the
   object they resolve to) and nested actions, in generator order *)
Inductive act := Act (k : kind) (needs : list N) (body : evs)
with evs := ENil | EFul (p : N) (o : str) (r : evs) | ESub (a : act) (r : evs).

Definition a_kind (a : act) := match a with Act k _ _ => k end.
Definition a_needs (a : act) := match a with Act _ n _ => n end.
Definition a_body (a : act) := match a with Act _ _ b => b end.

Fixpoint eapp (x y : evs) : evs :=
  match x with ENil => y | EFul p o r => EFul p o (eapp r y) | ESub a r => ESub a (eapp r y) end.

(* ------------------------------------------------------------------ scheduler state *)
Inductive tev := TDefer (p : N) (k : kind) | TExec (k : kind) | TFul (p : N) (o : str).

Record st := mkSt {
  sP : list (N * str);     (* promises: newest first *)
  sD : list (N * act);     (* deferred: (awaited promise, action), in insertion order *)
  sR : list act;           (* actions re-queued during the current instruction *)
  sX : list act;           (* executed actions, newest first *)
  sT : list tev            (* event log, newest first (output only) *)
}.
Definition st0 : st := mkSt [] [] [] [] [].

Fixpoint memP (p : N) (P : list (N * str)) : bool :=
  match P with [] => false | (q, _) :: r => N.eqb p q || memP p r end.
Fixpoint lookupP (P : list (N * str)) (p : N) : option str :=
  match P with [] => None | (q, o) :: r => if N.eqb p q then Some o else lookupP r p end.
Fixpoint first_missing (needs : list N) (P : list (N * str)) : option N :=
  match needs with [] => None | n :: r => if memP n P then first_missing r P else Some n end.

Definition waits (p : N) (d : N * act) : bool := N.eqb (fst d) p.
Definition defer (p : N) (a : act) (s : st) : st :=
  mkSt (sP s) (sD s ++ [(p, a)]) (sR s) (sX s) (TDefer p (a_kind a) :: sT s).
Definition mark (a : act) (s : st) : st :=
  mkSt (sP s) (sD s) (sR s) (a :: sX s) (TExec (a_kind a) :: sT s).
(* promises[p] = o; instructions.extend(deferred.pop(p, ())) *)
Definition fulfil (p : N) (o : str) (s : st) : st :=
  mkSt ((p, o) :: sP s) (filter (fun d => negb (waits p d)) (sD s))
       (sR s ++ map snd (filter (waits p) (sD s))) (sX s) (TFul p o :: sT s).

Inductive res := Ok (s : st) | Dup (s : st).     (* Dup: "promise_id defined twice" *)

Fixpoint exec_act (a : act) (s : st) {struct a} : res :=
  match a with
  | Act k needs body =>
      match first_missing needs (sP s) with
      | Some p => Ok (defer p (Act k needs body) s)
      | None => exec_evs body (mark (Act k needs body) s)
      end
  end
with exec_evs (e : evs) (s : st) {struct e} : res :=
  match e with
  | ENil => Ok s
  | EFul p o r => if memP p (sP s) then Dup s else exec_evs r (fulfil p o s)
  | ESub a r => match exec_act a s with Ok s' => exec_evs r s' | Dup s' => Dup s' end
  end.

Inductive outcome := Done (s : st) | DupErr (s : st) | Unfulfilled (s : st) | OutOfFuel (s : st).

Definition takeR (s : st) : st := mkSt (sP s) (sD s) [] (sX s) (sT s).
Fixpoint loop (fuel : nat) (q : list act) (s : st) : outcome :=
  match fuel with
  | O => OutOfFuel s
  | S f =>
      match q with
      | [] => match sD s with [] => Done s | _ => Unfulfilled s end
      | a :: q' =>
          match exec_act a s with
          | Dup s' => DupErr s'
          | Ok s' => loop f (q' ++ sR s') (takeR s')
          end
      end
  end.

(* every action, nested ones included *)
Fixpoint shells_act (a : act) : list act :=
  match a with Act k n b => Act k n b :: shells_evs b end
with shells_evs (e : evs) : list act :=
  match e with ENil => [] | EFul _ _ r => shells_evs r | ESub a r => shells_act a ++ shells_evs r end.
Definition shells (l : list act) : list act := flat_map shells_act l.

(* promises declared directly by an action / by everything in a body *)
Fixpoint own_fuls (e : evs) : list (N * str) :=
  match e with ENil => [] | EFul p o r => (p, o) :: own_fuls r | ESub _ r => own_fuls r end.
Definition act_fuls (a : act) : list (N * str) := own_fuls (a_body a).
Definition all_fuls (l : list act) : list (N * str) := flat_map act_fuls (shells l).

(* enough fuel: one pop per top-level instruction plus one per (action, awaited promise) *)
Definition weight (a : act) : nat := S (2 * length (a_needs a)).
Definition fuel_of (d : list act) : nat := S (fold_right (fun a n => weight a + n)%nat O (shells d)).
Definition run (d : list act) : outcome := loop (fuel_of d) d st0.

(* ------------------------------------------------------------------ documents *)
Inductive item :=
| IObj (decl : option N) (name : str) (simple : list (str * sval)) (complex : groups)
| IRef (r : ref)
with items := INil | ICons (i : item) (r : items)
with groups := GNil | GCons (attr : str) (l : items) (r : groups).

Record sitem := mkSitem {
  s_found : bool; s_decl : option N; s_name : str;
  s_find : list (str * sval);      (* find attributes other than name/_type *)
  s_set : list (str * sval) }.

Record instr := mkInstr {
  i_parent : ref;
  i_create : groups; i_extend : groups;
  i_set : list (str * sval);
  i_sync : list (str * list sitem) }.

Definition eful (d : option N) (o : str) (r : evs) : evs := match d with Some p => EFul p o r | None => r end.

Fixpoint c_item (owner : ref) (attr : str) (i : item) : act :=
  match i with
  | IObj d name simple complex =>
      Act (KCreate owner attr name simple) (ref_needs owner ++ simple_needs simple)
          (eful d name (c_groups (RObj name) complex))
  | IRef r => Act (KAppend owner attr r) (ref_needs owner ++ ref_needs r) ENil
  end
with c_items (owner : ref) (attr : str) (l : items) : evs :=
  match l with INil => ENil | ICons i r => ESub (c_item owner attr i) (c_items owner attr r) end
with c_groups (owner : ref) (g : groups) : evs :=
  match g with GNil => ENil | GCons attr l r => eapp (c_items owner attr l) (c_groups owner r) end.

(* _operate_set resolves the value up front — a list value member by member, in order — and postpones the
   whole `set` under the first promise that is still unknown; only then is the list cleared and refilled *)
Definition c_set (owner : ref) (kv : str * sval) : act :=
  Act (KSet owner (fst kv) (snd kv)) (ref_needs owner ++ sval_needs (snd kv)) ENil.
Fixpoint c_sets (owner : ref) (l : list (str * sval)) : evs :=
  match l with [] => ENil | kv :: r => ESub (c_set owner kv) (c_sets owner r) end.

(* list-valued attributes of an object description are `complex`: _create_complex_object appends their
   members one by one after the creation, each member waiting on its own *)
Definition is_list (kv : str * sval) : bool := match snd kv with SList _ => true | _ => false end.
Fixpoint c_refs (owner : ref) (attr : str) (l : list ref) : evs :=
  match l with
  | [] => ENil
  | r :: t => ESub (Act (KAppend owner attr r) (ref_needs owner ++ ref_needs r) ENil) (c_refs owner attr t)
  end.
Fixpoint c_listattrs (owner : ref) (l : list (str * sval)) : evs :=
  match l with
  | [] => ENil
  | (a, SList rs) :: t => eapp (c_refs owner a rs) (c_listattrs owner t)
  | _ :: t => c_listattrs owner t
  end.

Definition c_sitem (owner : ref) (attr : str) (x : sitem) : act :=
  let needs := ref_needs owner ++ simple_needs (s_find x) in
  let props := s_find x ++ s_set x in
  let simple := filter (fun kv => negb (is_list kv)) props in
  if s_found x then
    (* candidate found: _operate_set on it, then the promise *)
    Act (KSync owner attr (s_name x) true) needs
        (eapp (c_sets (RObj (s_name x)) (s_set x)) (eful (s_decl x) (s_name x) ENil))
  else
    (* no candidate: create from find | set, carrying the promise_id *)
    Act (KSync owner attr (s_name x) false) needs
        (ESub (Act (KCreate owner attr (s_name x) simple)
                   (ref_needs owner ++ simple_needs simple)
                   (eful (s_decl x) (s_name x) (c_listattrs (RObj (s_name x)) props))) ENil).
Fixpoint c_sitems (owner : ref) (attr : str) (l : list sitem) : evs :=
  match l with [] => ENil | x :: r => ESub (c_sitem owner attr x) (c_sitems owner attr r) end.
Fixpoint c_syncs (owner : ref) (l : list (str * list sitem)) : evs :=
  match l with [] => ENil | (a, xs) :: r => eapp (c_sitems owner a xs) (c_syncs owner r) end.

Definition op_body (i : instr) (op : N) : evs :=
  let o := i_parent i in
  match op with
  | 0 => c_groups o (i_create i)
  | 1 => c_groups o (i_extend i)
  | 2 => c_sets o (i_set i)
  | 3 => c_syncs o (i_sync i)
  | _ => ENil
  end%N.
Definition c_instr (i : instr) : act :=
  Act KInstr (ref_needs (i_parent i))
      (fold_right (fun op r => eapp (op_body i op) r) ENil OPERATIONS).
Definition compile (d : list instr) : list act := map c_instr d.

(* ------------------------------------------------------------------ object store (a log) *)
Inductive cval := CStr (s : str) | CObj (k : str).
Inductive upd := UApp (owner attr member : str) | USet (owner attr : str) (v : cval) | UClear (owner attr : str).

Definition resolve (pm : N -> option str) (r : ref) : str :=
  match r with
  | RObj k => k
  | RProm p => match pm p with Some k => k | None => [] end
  | RFind k _ => k
  end.
Definition resolve_sval pm (v : sval) : cval :=
  match v with SStr s => CStr s | SRef r => CObj (resolve pm r) | SList _ => CStr [] end.
(* setattr(o, a, v) for a scalar / reference; getattr(o, a).clear() + one append per member for a list *)
Definition set_upds pm (o a : str) (v : sval) : list upd :=
  match v with
  | SList l => UClear o a :: map (fun r => UApp o a (resolve pm r)) l
  | _ => [USet o a (resolve_sval pm v)]
  end.
Definition upds (pm : N -> option str) (k : kind) : list upd :=
  match k with
  | KInstr => []
  | KSync _ _ _ _ => []
  | KCreate o a n simple => UApp (resolve pm o) a n :: flat_map (fun kv => set_upds pm n (fst kv) (snd kv)) simple
  | KAppend o a r => [UApp (resolve pm o) a (resolve pm r)]
  | KSet o a v => set_upds pm (resolve pm o) a v
  end.

Definition cell_eqb (o a o' a' : str) : bool := str_eqb o o' && str_eqb a a'.
(* the updates of the log that touch the list cell (o, a), and what they leave in it: an append adds a
   member at the end, a clear empties the list (also of the members the base model had) *)
Definition wl (o a : str) (u : upd) : list upd :=
  match u with
  | UApp o' a' _ => if cell_eqb o a o' a' then [u] else []
  | UClear o' a' => if cell_eqb o a o' a' then [u] else []
  | USet _ _ _ => []
  end.
Definition step_l (acc : list str) (u : upd) : list str :=
  match u with UApp _ _ m => acc ++ [m] | UClear _ _ => [] | USet _ _ _ => acc end.
Definition eval_l (l : list upd) : list str := fold_left step_l l [].
Definition wv (o a : str) (u : upd) : list cval :=
  match u with USet o' a' v => if cell_eqb o a o' a' then [v] else [] | _ => [] end.
Definition read_list (o a : str) (log : list upd) : list str := eval_l (flat_map (wl o a) log).
Definition read_val (o a : str) (log : list upd) : option cval := last (map Some (flat_map (wv o a) log)) None.

(* the log written by the executed actions (oldest first), references resolved through the promise map *)
Definition final_log (s : st) : list upd :=
  flat_map (fun a => upds (lookupP (sP s)) (a_kind a)) (rev (sX s)).

(* ------------------------------------------------------------------ decidable side conditions *)
(* the list / value cells an action writes *)
Definition lcells pm (x : act) : list (str * str) :=
  flat_map (fun u => match u with UApp o a _ => [(o, a)] | UClear o a => [(o, a)] | USet _ _ _ => [] end) (upds pm (a_kind x)).
Definition vcells pm (x : act) : list (str * str) :=
  flat_map (fun u => match u with USet o a _ => [(o, a)] | _ => [] end) (upds pm (a_kind x)).
Definition disj (c1 c2 : list (str * str)) : bool :=
  forallb (fun c => forallb (fun c' => negb (cell_eqb (fst c) (snd c) (fst c') (snd c'))) c2) c1.
(* no two actions (at different positions) write the same cell *)
Fixpoint indep_check pm (l : list act) : bool :=
  match l with
  | [] => true
  | x :: r => forallb (fun y => disj (lcells pm x) (lcells pm y) && disj (vcells pm x) (vcells pm y)) r
              && indep_check pm r
  end.

(* "instructions that do not extend the same list": the lists (parent designation, attribute) that the
   items of an instruction are appended to, nested ones included *)
Fixpoint list_eqb {A} (eqb : A -> A -> bool) (a b : list A) : bool :=
  match a, b with [], [] => true | x :: a', y :: b' => eqb x y && list_eqb eqb a' b' | _, _ => false end.
Definition ref_eqb (a b : ref) : bool :=
  match a, b with
  | RObj k, RObj k' => str_eqb k k'
  | RProm p, RProm p' => N.eqb p p'
  | RFind k ps, RFind k' ps' => str_eqb k k' && list_eqb N.eqb ps ps'
  | _, _ => false
  end.
Fixpoint item_lists (i : item) : list (ref * str) :=
  match i with IObj _ name _ g => groups_lists (RObj name) g | IRef _ => [] end
with items_lists (l : items) : list (ref * str) :=
  match l with INil => [] | ICons i r => item_lists i ++ items_lists r end
with groups_lists (owner : ref) (g : groups) : list (ref * str) :=
  match g with GNil => [] | GCons attr l r => (owner, attr) :: items_lists l ++ groups_lists owner r end.
Definition instr_lists (i : instr) : list (ref * str) :=
  groups_lists (i_parent i) (i_create i) ++ groups_lists (i_parent i) (i_extend i)
  ++ map (fun g => (i_parent i, fst g)) (i_sync i).
Definition lists_disj (a b : list (ref * str)) : bool :=
  forallb (fun c => forallb (fun c' => negb (ref_eqb (fst c) (fst c') && str_eqb (snd c) (snd c'))) b) a.
Fixpoint no_shared_list (d : list instr) : bool :=
  match d with
  | [] => true
  | i :: r => forallb (fun j => lists_disj (instr_lists i) (instr_lists j)) r && no_shared_list r
  end.

(* ------------------------------------------------------------------ val decoding / encoding *)
Definition dec_N (v : val) : option N := match v with VZ z => Some (Z.to_N z) | _ => None end.
Definition dec_ref (v : val) : option ref :=
  match v with
  | VL [VZ 0; VS k] => Some (RObj k)
  | VL [VZ 1; VZ p] => Some (RProm (Z.to_N p))
  | VL [VZ 2; VS k; VL ps] => match all_some (map dec_N ps) with Some l => Some (RFind k l) | None => None end
  | _ => None
  end.
Definition dec_sval (v : val) : option sval :=
  match v with
  | VL [VZ 0; VS s] => Some (SStr s)
  | VL [VZ 1; r] => match dec_ref r with Some r => Some (SRef r) | None => None end
  | VL [VZ 2; VL rs] => match all_some (map dec_ref rs) with Some l => Some (SList l) | None => None end
  | _ => None
  end.
Definition dec_kv (v : val) : option (str * sval) :=
  match v with VL [VS k; x] => match dec_sval x with Some x => Some (k, x) | None => None end | _ => None end.
Definition dec_kvs (v : val) : option (list (str * sval)) :=
  match v with VL l => all_some (map dec_kv l) | _ => None end.
(* attribute mappings in which a list value is not allowed (the harness encodes the list-valued attributes of
   an item as `complex` groups; find keys are scalars or references) *)
Definition dec_kvs_flat (v : val) : option (list (str * sval)) :=
  match dec_kvs v with
  | Some l => if existsb is_list l then None else Some l
  | None => None
  end.
Definition dec_decl (v : val) : option (option N) :=
  match v with VNone => Some None | VZ p => Some (Some (Z.to_N p)) | _ => None end.

Fixpoint dec_item (v : val) {struct v} : option item :=
  match v with
  | VL [VZ 0; d; VS name; simple; VL gs] =>
      match dec_decl d, dec_kvs_flat simple,
            (fix go (gs : list val) : option groups :=
               match gs with
               | [] => Some GNil
               | VL [VS attr; VL its] :: r =>
                   match (fix goi (its : list val) : option items :=
                            match its with
                            | [] => Some INil
                            | x :: r' => match dec_item x, goi r' with Some i, Some l => Some (ICons i l) | _, _ => None end
                            end) its, go r with
                   | Some l, Some g => Some (GCons attr l g)
                   | _, _ => None
                   end
               | _ => None
               end) gs with
      | Some d, Some s, Some g => Some (IObj d name s g)
      | _, _, _ => None
      end
  | VL [VZ 1; r] => match dec_ref r with Some r => Some (IRef r) | None => None end
  | _ => None
  end.
Fixpoint items_of (l : list item) : items := match l with [] => INil | i :: r => ICons i (items_of r) end.
Definition dec_group (v : val) : option (str * items) :=
  match v with
  | VL [VS attr; VL its] => match all_some (map dec_item its) with Some l => Some (attr, items_of l) | None => None end
  | _ => None
  end.
Fixpoint groups_of (l : list (str * items)) : groups :=
  match l with [] => GNil | (a, its) :: r => GCons a its (groups_of r) end.
Definition dec_groups (v : val) : option groups :=
  match v with VL l => match all_some (map dec_group l) with Some g => Some (groups_of g) | None => None end | _ => None end.
Definition dec_sitem (v : val) : option sitem :=
  match v with
  | VL [VB f; d; VS name; fi; se] =>
      match dec_decl d, dec_kvs_flat fi, dec_kvs se with
      | Some d, Some fi, Some se => Some (mkSitem f d name fi se)
      | _, _, _ => None
      end
  | _ => None
  end.
Definition dec_sync (v : val) : option (str * list sitem) :=
  match v with
  | VL [VS attr; VL xs] => match all_some (map dec_sitem xs) with Some l => Some (attr, l) | None => None end
  | _ => None
  end.
Definition dec_instr (v : val) : option instr :=
  match v with
  | VL [p; cr; ex; se; VL sy] =>
      match dec_ref p, dec_groups cr, dec_groups ex, dec_kvs se, all_some (map dec_sync sy) with
      | Some p, Some cr, Some ex, Some se, Some sy => Some (mkInstr p cr ex se sy)
      | _, _, _, _, _ => None
      end
  | _ => None
  end.
Definition dec_upd (v : val) : option upd :=
  match v with VL [VS o; VS a; VS m] => Some (UApp o a m) | _ => None end.
Definition dec_cell (v : val) : option (str * str) :=
  match v with VL [VS o; VS a] => Some (o, a) | _ => None end.

Definition enc_cval (c : option cval) : val :=
  match c with None => VNone | Some (CStr s) => VL [VZ 0; VS s] | Some (CObj k) => VL [VZ 1; VS k] end.
(* the events the harness can observe on the implementation *)
Definition enc_tev (pm : N -> option str) (e : tev) : list val :=
  match e with
  | TDefer p _ => [VL [VZ 0; VZ (Z.of_N p)]]
  | TExec (KCreate _ _ n _) => [VL [VZ 1; VS n]]
  | TExec (KAppend o a r) => [VL [VZ 2; VS (resolve pm o); VS a; VS (resolve pm r)]]
  | TExec (KSet o a (SList l)) => map (fun r => VL [VZ 2; VS (resolve pm o); VS a; VS (resolve pm r)]) l
  | TExec (KSet o a _) => [VL [VZ 3; VS (resolve pm o); VS a]]
  | _ => []
  end.
Definition enc_state (status : val) (full : bool) (init : list upd) (obsl obsv : list (str * str)) (s : st) : val :=
  let pm := lookupP (sP s) in
  let log := init ++ final_log s in
  VL [status;
      VL (flat_map (enc_tev pm) (rev (sT s)));
      (if full then VL (map (fun po => VL [VZ (Z.of_N (fst po)); VS (snd po)]) (rev (sP s))) else VL []);
      (if full then VL (map (fun c => of_strs (read_list (fst c) (snd c) log)) obsl) else VL []);
      (if full then VL (map (fun c => enc_cval (read_val (fst c) (snd c) log)) obsv) else VL [])].

(* input: [initial list cells as (owner, attr, member); instructions; observed list cells; observed value cells] *)
Definition w_apply (v : val) : val :=
  match v with
  | VL [VL init; VL ins; VL ol; VL ov] =>
      match all_some (map dec_upd init), all_some (map dec_instr ins),
            all_some (map dec_cell ol), all_some (map dec_cell ov) with
      | Some init, Some d, Some ol, Some ov =>
          match run (compile d) with
          | Done s => enc_state (VZ 0) true init ol ov s
          | DupErr s => enc_state (VE E_ValueError) false init ol ov s
          | Unfulfilled s => enc_state (VE E_Unfulfilled) false init ol ov s
          | OutOfFuel s => enc_state (VE E_OutOfFuel) false init ol ov s
          end
      | _, _, _, _ => bad
      end
  | _ => bad
  end.
