(* MG — object-graph model: fragments as document-ordered node lists with parent
   pointers, the three per-fragment indexes of loader.core.ModelFile and their
   maintenance operations, and the loader-level queries built on them.
   Strings (ids, xsi:types, tags) are interned to integers by the harness: only
   their identity matters here.  Executable definitions only. *)
From Coq Require Import ZArith List Bool.
Import ListNotations.
From V Require Import Model.Val.
Open Scope Z_scope.

Notation atom := Z (only parsing).

Record node := mkNode {
  nh : atom;              (* element handle (lxml identity) *)
  npar : option atom;     (* parent handle inside the same fragment *)
  nxt : option atom;      (* helpers.xtype_of *)
  nids : list atom;       (* values of the id attributes indexed for this file type (IDTYPES_PER_FILETYPE) *)
  nall : list atom;       (* values of all id attributes (IDTYPES_RESOLVED) — what idcache_remove deletes *)
  nhref : option atom     (* href.split('#')[-1] *)
}.

(* ---- association maps with Python-dict semantics (order irrelevant for lookups) ---- *)
Section AMap.
  Context {V : Type}.
  Definition amap := list (atom * V).
  Fixpoint get (k : atom) (m : amap) : option V :=
    match m with [] => None | (k', v) :: r => if k =? k' then Some v else get k r end.
  Definition del (k : atom) (m : amap) : amap := filter (fun p => negb (k =? fst p)) m.
  Definition set (k : atom) (v : V) (m : amap) : amap := (k, v) :: del k m.
  Definition keys (m : amap) : list atom := map fst m.
End AMap.
Arguments amap V : clear implicits.

Record index := mkIndex {
  idc : amap (option atom);   (* __idcache: id -> element | None (reserved) *)
  xtc : amap atom;            (* __xtypecache flattened: handle -> xtype *)
  hrs : amap atom             (* __hrefsources: id -> placeholder handle *)
}.
Definition empty_index : index := mkIndex [] [] [].

Inductive res (A : Type) := ROk (a : A) | RErr (e : N).
Arguments ROk {A} a. Arguments RErr {A} e.

(* ---- ModelFile.idcache_index on a list of nodes (a subtree in document order) ---- *)
Definition index_ids (ignore_dups : bool) (h : atom) (ids : list atom) (m : amap (option atom)) : res (amap (option atom)) :=
  fold_left (fun acc u =>
    match acc with
    | RErr e => RErr e
    | ROk m =>
        match get u m with
        | Some (Some h') => if (h' =? h) || ignore_dups then ROk (set u (Some h) m) else RErr E_Corrupt
        | _ => ROk (set u (Some h) m)
        end
    end) ids (ROk m).

Definition index_node (ignore_dups : bool) (ix : index) (n : node) : res index :=
  let xtc' := match nxt n with Some x => set (nh n) x (xtc ix) | None => xtc ix end in
  match index_ids ignore_dups (nh n) (nids n) (idc ix) with
  | RErr e => RErr e
  | ROk idc' =>
      let hrs' := match nhref n with Some r => set r (nh n) (hrs ix) | None => hrs ix end in
      ROk (mkIndex idc' xtc' hrs')
  end.

Definition index_nodes (ignore_dups : bool) (ns : list node) (ix : index) : res index :=
  fold_left (fun acc n => match acc with RErr e => RErr e | ROk ix => index_node ignore_dups ix n end) ns (ROk ix).

(* ---- ModelFile.idcache_remove(subtree) ---- *)
Definition remove_node (ix : index) (n : node) : res index :=
  match (match nxt n with
         | Some _ => match get (nh n) (xtc ix) with Some _ => ROk (del (nh n) (xtc ix)) | None => RErr E_KeyError end
         | None => ROk (xtc ix) end) with
  | RErr e => RErr e
  | ROk xtc' =>
      let idc' := fold_left (fun m u => del u m) (nall n) (idc ix) in
      match nhref n with
      | Some r => match get r (hrs ix) with
                  | Some _ => ROk (mkIndex idc' xtc' (del r (hrs ix)))
                  | None => RErr E_KeyError end
      | None => ROk (mkIndex idc' xtc' (hrs ix))
      end
  end.
Definition remove_nodes (ns : list node) (ix : index) : res index :=
  fold_left (fun acc n => match acc with RErr e => RErr e | ROk ix => remove_node ix n end) ns (ROk ix).

Definition rebuild (ignore_dups : bool) (ns : list node) : res index := index_nodes ignore_dups ns empty_index.
Definition reserve (u : atom) (ix : index) : index := mkIndex (set u None (idc ix)) (xtc ix) (hrs ix).
Definition remove_id (u : atom) (ix : index) : index := mkIndex (del u (idc ix)) (xtc ix) (hrs ix).

(* ---- a fragment and the paired (tree mutation, index update) steps ---- *)
Inductive fkind := Semantic | Visual | Other.
Record frag := mkFrag { fname : atom; fkd : fkind; fnodes : list node; fidx : index }.
Definition ignores_dups (global_ignore : bool) (k : fkind) : bool :=
  global_ignore || match k with Visual => true | _ => false end.

Definition mem (x : atom) (l : list atom) : bool := existsb (Z.eqb x) l.
Definition without (hs : list atom) (ns : list node) : list node := filter (fun n => negb (mem (nh n) hs)) ns.
Definition only (hs : list atom) (ns : list node) : list node := filter (fun n => mem (nh n) hs) ns.

Inductive op :=
| Attach (f : atom) (ns : list node)          (* subtree inserted, then idcache_index(subtree) *)
| Detach (f : atom) (hs : list atom)          (* idcache_remove(subtree), then subtree removed *)
| DetachForgetful (f : atom) (hs : list atom) (* subtree removed WITHOUT un-indexing (what a buggy site does) *)
| Reserve (f : atom) (u : atom)
| Unreserve (f : atom) (u : atom).

Definition step_frag (gi : bool) (fr : frag) (o : op) : res frag :=
  match o with
  | Attach f ns =>
      if f =? fname fr then
        match index_nodes (ignores_dups gi (fkd fr)) ns (fidx fr) with
        | ROk ix => ROk (mkFrag (fname fr) (fkd fr) (fnodes fr ++ ns) ix)
        | RErr e => RErr e
        end
      else ROk fr
  | Detach f hs =>
      if f =? fname fr then
        match remove_nodes (only hs (fnodes fr)) (fidx fr) with
        | ROk ix => ROk (mkFrag (fname fr) (fkd fr) (without hs (fnodes fr)) ix)
        | RErr e => RErr e
        end
      else ROk fr
  | DetachForgetful f hs =>
      if f =? fname fr then ROk (mkFrag (fname fr) (fkd fr) (without hs (fnodes fr)) (fidx fr)) else ROk fr
  | Reserve f u => if f =? fname fr then ROk (mkFrag (fname fr) (fkd fr) (fnodes fr) (reserve u (fidx fr))) else ROk fr
  | Unreserve f u => if f =? fname fr then ROk (mkFrag (fname fr) (fkd fr) (fnodes fr) (remove_id u (fidx fr))) else ROk fr
  end.

Fixpoint step_all (gi : bool) (frs : list frag) (o : op) : res (list frag) :=
  match frs with
  | [] => ROk []
  | fr :: r => match step_frag gi fr o with
               | RErr e => RErr e
               | ROk fr' => match step_all gi r o with ROk r' => ROk (fr' :: r') | RErr e => RErr e end
               end
  end.
Definition run (gi : bool) (ops : list op) (frs : list frag) : res (list frag) :=
  fold_left (fun acc o => match acc with RErr e => RErr e | ROk frs => step_all gi frs o end) ops (ROk frs).

(* ---- loader-level queries ---- *)
(* ModelFile.__getitem__ *)
Definition frag_lookup (fr : frag) (u : atom) : option atom :=
  match get u (idc (fidx fr)) with Some (Some h) => Some h | _ => None end.
(* MelodyLoader.follow_link / __getitem__ (the id part): exactly one fragment must know the id *)
Definition matches (frs : list frag) (u : atom) : list atom :=
  flat_map (fun fr => match frag_lookup fr u with Some h => [h] | None => [] end) frs.
Definition by_uuid (frs : list frag) (u : atom) : res atom :=
  match matches frs u with [h] => ROk h | _ => RErr E_KeyError end.

(* iterall_xt over the semantic fragments (MelodyModel.search) — as a set of handles *)
Definition frag_search (xts : list atom) (fr : frag) : list atom :=
  flat_map (fun p => match get (fst p) (xtc (fidx fr)) with
                     | Some x => if mem x xts then [fst p] else []
                     | None => [] end) (xtc (fidx fr)).
Definition search (frs : list frag) (xts : list atom) : list atom :=
  flat_map (fun fr => match fkd fr with Semantic => frag_search xts fr | _ => [] end) frs.

(* brute-force scans of the node lists (the specification side) *)
Definition owners (ns : list node) (u : atom) : list atom :=
  flat_map (fun n => if mem u (nids n) then [nh n] else []) ns.
Definition scan_uuid (frs : list frag) (u : atom) : list atom := flat_map (fun fr => owners (fnodes fr) u) frs.
Definition scan_xt (frs : list frag) (xts : list atom) : list atom :=
  flat_map (fun fr => match fkd fr with
                      | Semantic => flat_map (fun n => match nxt n with
                                                       | Some x => if mem x xts then [nh n] else []
                                                       | None => [] end) (fnodes fr)
                      | _ => [] end) frs.

(* ---- MelodyLoader.check_duplicate_uuids (after the fix: ids accumulate over fragments) ---- *)
Definition inter (a b : list atom) : list atom := filter (fun x => mem x b) a.
Fixpoint check_dups_go (seen : list atom) (trees : list (list atom)) : bool (* has_dups *) :=
  match trees with
  | [] => false
  | ids :: r => (match inter seen ids with [] => false | _ => true end) || check_dups_go (seen ++ ids) r
  end.
Definition check_duplicate_uuids (ignore : bool) (trees : list (list atom)) : res unit :=
  if check_dups_go [] trees && negb ignore then RErr E_Corrupt else ROk tt.

(* ---- MelodyLoader.generate_uuid: [want] or the first element of the random stream not in use ---- *)
Definition in_use (frs : list frag) (u : atom) : bool :=
  match matches frs u with [] => false | _ => true end.
Fixpoint first_free (frs : list frag) (stream : list atom) : option atom :=
  match stream with
  | [] => None
  | u :: r => if in_use frs u then first_free frs r else Some u
  end.
Definition generate_uuid (frs : list frag) (want : option atom) (stream : list atom) : res atom :=
  match want with
  | Some w => if in_use frs w then RErr E_ValueError else ROk w
  | None => match first_free frs stream with Some u => ROk u | None => RErr E_OutOfFuel end
  end.

(* ---- navigation across fragment boundaries (MelodyLoader.iterancestors) ---- *)
Definition find_node (ns : list node) (h : atom) : option node := find (fun n => nh n =? h) ns.
Fixpoint find_in_frags (frs : list frag) (h : atom) : option (frag * node) :=
  match frs with
  | [] => None
  | fr :: r => match find_node (fnodes fr) h with Some n => Some (fr, n) | None => find_in_frags r h end
  end.
(* _unfollow_href after the fix: first fragment whose hrefsources knows the id *)
Fixpoint unfollow (frs : list frag) (u : atom) : option atom :=
  match frs with
  | [] => None
  | fr :: r => match get u (hrs (fidx fr)) with Some h => Some h | None => unfollow r u end
  end.
Definition first_some {A B} (f : A -> option B) (l : list A) : option B :=
  fold_right (fun x acc => match f x with Some y => Some y | None => acc end) None l.
Definition parent_of (frs : list frag) (h : atom) : option atom :=
  match find_in_frags frs h with
  | None => None
  | Some (_, n) =>
      match npar n with
      | Some p => Some p
      | None =>   (* fragment root: look for the placeholder that references one of its ids *)
          match first_some (unfollow frs) (nall n) with
          | Some ph => match find_in_frags frs ph with Some (_, pn) => npar pn | None => None end
          | None => None
          end
      end
  end.
Fixpoint ancestors_fuel (fuel : nat) (frs : list frag) (h : atom) : list atom :=
  match fuel with
  | O => []
  | S fuel => match parent_of frs h with Some p => p :: ancestors_fuel fuel frs p | None => [] end
  end.
Definition total_nodes (frs : list frag) : nat := fold_right (fun fr a => (length (fnodes fr) + a)%nat) O frs.
Definition ancestors (frs : list frag) (h : atom) : list atom := ancestors_fuel (S (total_nodes frs)) frs h.

(* ================= val wrappers ================= *)
Definition dec_opt (v : val) : option (option atom) :=
  match v with VNone => Some None | VZ z => Some (Some z) | _ => None end.
Definition dec_atoms (v : val) : option (list atom) :=
  match v with VL l => all_some (map as_Z l) | _ => None end.
Definition dec_node (v : val) : option node :=
  match v with
  | VL [VZ h; par; xt; ids; alls; href] =>
      match dec_opt par, dec_opt xt, dec_atoms ids, dec_atoms alls, dec_opt href with
      | Some par, Some xt, Some ids, Some alls, Some href => Some (mkNode h par xt ids alls href)
      | _, _, _, _, _ => None
      end
  | _ => None
  end.
Definition dec_nodes (v : val) : option (list node) :=
  match v with VL l => all_some (map dec_node l) | _ => None end.
Definition dec_kind (z : Z) : fkind := match z with 0 => Semantic | 1 => Visual | _ => Other end.

(* canonical dump of an index: sorted by key by the harness side; here we answer point queries *)
Definition enc_optopt (o : option (option atom)) : val :=
  match o with None => VNone | Some None => VL [] | Some (Some h) => VZ h end.
Definition enc_opt (o : option atom) : val := match o with None => VNone | Some h => VZ h end.

(* input: [kind; gi; nodes_before; ops; queries]  where ops = list of [tag; payload],
   queries = [ids; handles; hrefs]; output: per query class the model's answers after running ops
   from the REBUILT index of nodes_before. *)
Definition dec_op (f : atom) (v : val) : option op :=
  match v with
  | VL [VZ 0; ns] => match dec_nodes ns with Some ns => Some (Attach f ns) | None => None end
  | VL [VZ 1; hs] => match dec_atoms hs with Some hs => Some (Detach f hs) | None => None end
  | VL [VZ 2; VZ u] => Some (Reserve f u)
  | VL [VZ 3; VZ u] => Some (Unreserve f u)
  | _ => None
  end.
Definition answer (fr : frag) (ids hs hrefs : list atom) : val :=
  VL [VL (map (fun u => enc_optopt (get u (idc (fidx fr)))) ids);
      VL (map (fun h => enc_opt (get h (xtc (fidx fr)))) hs);
      VL (map (fun r => enc_opt (get r (hrs (fidx fr)))) hrefs);
      VZ (Z.of_nat (length (idc (fidx fr))))].
Fixpoint history (gi : bool) (st : res frag) (steps : list val) : list val :=
  match steps with
  | [] => []
  | VL [VL ops; ids; hs; hrefs] :: r =>
      match st, all_some (map (dec_op 0) ops), dec_atoms ids, dec_atoms hs, dec_atoms hrefs with
      | ROk fr, Some ops, Some ids, Some hs, Some hrefs =>
          match run gi ops [fr] with
          | ROk [fr'] => answer fr' ids hs hrefs :: history gi (ROk fr') r
          | ROk _ => bad :: history gi (RErr E_Malformed) r
          | RErr e => VE e :: history gi (RErr e) r
          end
      | RErr e, _, _, _, _ => VE e :: history gi st r
      | _, _, _, _, _ => bad :: history gi st r
      end
  | _ :: r => bad :: history gi st r
  end.
(* input: [kind; gi; nodes0; steps]; the index is REBUILT from nodes0, then every step's paired
   operations are applied and the step's point queries answered *)
Definition w_history (v : val) : val :=
  match v with
  | VL [VZ k; VB gi; ns; VL steps] =>
      match dec_nodes ns with
      | Some ns =>
          match rebuild (ignores_dups gi (dec_kind k)) ns with
          | RErr e => VE e
          | ROk ix => VL (history gi (ROk (mkFrag 0 (dec_kind k) ns ix)) steps)
          end
      | None => bad
      end
  | _ => bad
  end.

(* by_uuid / search / ancestors over several fragments with rebuilt indexes:
   input [gi; [[name; kind; nodes] ...]; uuids; xts-lists; handles] *)
Definition dec_frag (gi : bool) (v : val) : option (res frag) :=
  match v with
  | VL [VZ name; VZ k; ns] =>
      match dec_nodes ns with
      | Some ns => Some (match rebuild (ignores_dups gi (dec_kind k)) ns with
                         | ROk ix => ROk (mkFrag name (dec_kind k) ns ix)
                         | RErr e => RErr e end)
      | None => None
      end
  | _ => None
  end.
Fixpoint all_ok {A} (l : list (res A)) : res (list A) :=
  match l with
  | [] => ROk []
  | ROk x :: r => match all_ok r with ROk r' => ROk (x :: r') | RErr e => RErr e end
  | RErr e :: _ => RErr e
  end.
Definition enc_res (r : res atom) : val := match r with ROk h => VZ h | RErr e => VE e end.
Definition w_queries (v : val) : val :=
  match v with
  | VL [VB gi; VL frs; uuids; VL xtss; hs] =>
      match all_some (map (dec_frag gi) frs), dec_atoms uuids, all_some (map dec_atoms xtss), dec_atoms hs with
      | Some frs, Some uuids, Some xtss, Some hs =>
          match all_ok frs with
          | RErr e => VE e
          | ROk frs =>
              VL [VL (map (fun u => enc_res (by_uuid frs u)) uuids);
                  VL (map (fun xts => VZ (Z.of_nat (length (search frs xts)))) xtss);
                  VL (map (fun h => VL (map VZ (ancestors frs h))) hs)]
          end
      | _, _, _, _ => bad
      end
  | _ => bad
  end.
(* ---- downward navigation across fragment boundaries (MelodyLoader.iterchildren_xt / _follow_href) ---- *)
(* a child that carries an href is a placeholder: it is replaced by the element its id resolves to (None: the lookup raises) *)
Definition follow_href (frs : list frag) (c : node) : option atom :=
  match nhref c with
  | None => Some (nh c)
  | Some u => match by_uuid frs u with ROk h => Some h | RErr _ => None end
  end.
Definition raw_children (fr : frag) (h : atom) : list node :=
  filter (fun n => match npar n with Some p => p =? h | None => false end) (fnodes fr).
Definition children_xt (frs : list frag) (h : atom) : list (option atom) :=
  match find_in_frags frs h with
  | Some (fr, _) => map (follow_href frs) (raw_children fr h)
  | None => []
  end.
(* input as w_queries; output: per handle the children in document order, placeholders followed (None where following fails) *)
Definition w_children (v : val) : val :=
  match v with
  | VL [VB gi; VL frs; hs] =>
      match all_some (map (dec_frag gi) frs), dec_atoms hs with
      | Some frs, Some hs =>
          match all_ok frs with
          | RErr e => VE e
          | ROk frs => VL (map (fun h => VL (map enc_opt (children_xt frs h))) hs)
          end
      | _, _ => bad
      end
  | _ => bad
  end.
Definition w_check_dups (v : val) : val :=
  match v with
  | VL [VB ignore; VL trees] =>
      match all_some (map dec_atoms trees) with
      | Some trees => match check_duplicate_uuids ignore trees with ROk _ => VNone | RErr e => VE e end
      | None => bad
      end
  | _ => bad
  end.
