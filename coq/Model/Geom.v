(* Model / Geom: exact-arithmetic (Q) model of the geometric core of
   capellambse.diagram: Vector2D.closestaxis, line_intersect, Box.vector_snap in its
   four variants (closest / oblique / manhattan / tree), Box.snap_to_parent for ports,
   Diagram.calculate_viewport, and the position calculus of the box factory.
   Executable definitions only.

   Conventions.  Python floats are modelled by rationals; `math.isclose(x, 0.0)` (rel_tol
   only, abs_tol = 0) is exact equality with 0; the `atan2` comparisons of
   __vector_snap_closest are replaced by the equivalent exact sign tests (see
   [closest_side]).  Box sizes are the value of the `Box.size` property of a label-less,
   child-less box, i.e. clamped to >= 0 by [mkbox].  Constants come from Gen/GeomConsts.v
   (regenerated from the source on every run). *)
From Coq Require Import QArith Qabs Qminmax ZArith NArith List Bool.
Import ListNotations.
From V Require Import Model.Val Gen.GeomConsts.
Open Scope Q_scope.

Notation vec := (Q * Q)%type (only parsing).

Definition Qlt_b (a b : Q) : bool := negb (Qle_bool b a).
Definition b2q (b : bool) : Q := if b then 1 else 0.
Definition half : Q := 1 # 2.

Definition vadd (a b : vec) : vec := (fst a + fst b, snd a + snd b).
Definition vsub (a b : vec) : vec := (fst a - fst b, snd a - snd b).
Definition veqb (a b : vec) : bool := Qeq_bool (fst a) (fst b) && Qeq_bool (snd a) (snd b).

Record box := { bx : Q; by_ : Q; bw : Q; bh : Q; bport : bool }.
Definition clamp0 (q : Q) : Q := if Qle_bool q 0 then 0 else q.
(* Box(pos, size, port=...) as seen through the `size` property (no label, no children, minsize 0) *)
Definition mkbox (x y w h : Q) (port : bool) : box :=
  {| bx := x; by_ := y; bw := clamp0 w; bh := clamp0 h; bport := port |}.
Definition center (b : box) : vec := (bx b + bw b * half, by_ b + bh b * half).

Inductive res :=
| Ok (v : vec)
| Err (e : N).

(* ---- Vector2D.closestaxis ---- *)
Definition closestaxis (d : vec) : vec :=
  let horizontal := Qle_bool (Qabs (snd d)) (Qabs (fst d)) in
  let sx := if Qle_bool 0 (fst d) then 1 else -(1) in
  let sy := if Qle_bool 0 (snd d) then 1 else -(1) in
  (sx * b2q horizontal, sy * b2q (negb horizontal)).

(* ---- line_intersect ---- *)
Definition line_intersect (p1 p2 p3 p4 : vec) : res :=
  let '(x1, y1) := p1 in let '(x2, y2) := p2 in
  let '(x3, y3) := p3 in let '(x4, y4) := p4 in
  let denum := (x1 - x2) * (y3 - y4) - (x3 - x4) * (y1 - y2) in
  if Qeq_bool denum 0 then Err E_ValueError
  else
    let d1 := x1 * y2 - x2 * y1 in
    let d2 := x3 * y4 - x4 * y3 in
    let x := d1 * (x3 - x4) - d2 * (x1 - x2) in
    let y := d1 * (y3 - y4) - d2 * (y1 - y2) in
    Ok (x / denum, y / denum).

(* ---- Box.__vector_snap_manhattan ---- *)
Definition snap_manhattan (b : box) (p d : vec) : res :=
  let axis := closestaxis d in
  if negb (Qeq_bool (fst axis) 0) then
    if Qlt_b (snd p) (by_ b) then Ok (bx b + bw b * half, by_ b + bh b * 0)
    else if Qlt_b (by_ b + bh b) (snd p) then Ok (bx b + bw b * half, by_ b + bh b * 1)
    else if bport b then Ok (bx b + bw b * b2q (Qlt_b (fst axis) 0), by_ b + bh b * half)
    else Ok (bx b + bw b * b2q (Qlt_b (fst axis) 0), snd p)
  else if negb (Qeq_bool (snd axis) 0) then
    if Qlt_b (fst p) (bx b) then Ok (bx b + bw b * 0, by_ b + bh b * half)
    else if Qlt_b (bx b + bw b) (fst p) then Ok (bx b + bw b * 1, by_ b + bh b * half)
    else if bport b then Ok (bx b + bw b * half, by_ b + bh b * b2q (Qlt_b (snd axis) 0))
    else Ok (fst p, by_ b + bh b * b2q (Qlt_b (snd axis) 0))
  else Err E_AssertionError.

(* ---- Box.__vector_snap_tree ---- *)
Definition tree_bottom (b : box) (p d : vec) : bool :=
  Qlt_b (snd d) 0 || (Qeq_bool (snd d) 0 && negb (Qeq_bool (snd p) (by_ b))).
Definition snap_tree (b : box) (p d : vec) : res :=
  if veqb d (0, 0) then
    if Qlt_b (fst (center b)) (fst p) then Ok (fst p - 1, snd p) else Ok (fst p + 1, snd p)
  else if bport b then
    if tree_bottom b p d then Ok (bx b + bw b * half, by_ b + bh b * 1)
    else Ok (bx b + bw b * half, by_ b + bh b * 0)
  else
    if tree_bottom b p d then Ok (fst p, by_ b + bh b)
    else Ok (fst p, by_ b).

(* ---- Box.__vector_snap_closest ----
   angle = atan2(h,w) - atan2(dy,dx) (normalised), alpha = 2*atan2(h,w):
     0 < angle < alpha            <->  direction strictly inside the wedge of the right side
     -alpha' < angle <= 0         <->  bottom wedge, bottom-right diagonal included
     alpha < angle < pi           <->  top wedge, both diagonals excluded
     otherwise                    ->   left side (this includes the top-right diagonal exactly)
   written as sign tests of cross products.  [h = 0, dy = 0, dx > 0] is angle = 0, i.e. bottom. *)
Inductive side := SRight | SBottom | STop | SLeft.
Definition closest_side (w h dx dy : Q) : side :=
  if Qlt_b 0 dx && Qlt_b (Qabs dy * w) (h * dx) then SRight
  else if (Qlt_b 0 dy && Qle_bool (h * dx) (dy * w) && Qlt_b (- (h * dx)) (dy * w))
          || (Qeq_bool h 0 && Qeq_bool dy 0 && Qlt_b 0 dx) then SBottom
  else if Qlt_b dy 0 && Qlt_b (h * Qabs dx) (- dy * w) then STop
  else SLeft.

Definition snap_closest (b : box) (s : vec) : res :=
  let c := center b in
  if veqb s c then Ok (bx b + bw b * 0, by_ b + bh b * half)
  else
    let tl := (bx b, by_ b) in
    let tr := (bx b + bw b, by_ b) in
    let bl := (bx b, by_ b + bh b) in
    let br := (bx b + bw b, by_ b + bh b) in
    match closest_side (bw b) (bh b) (fst s - fst c) (snd s - snd c) with
    | SRight => line_intersect c s tr br
    | SBottom => line_intersect c s bl br
    | STop => line_intersect c s tl tr
    | SLeft => line_intersect c s tl bl
    end.

(* ---- Box.__vector_snap_oblique ---- *)
Definition inside (b : box) (p : vec) : bool :=
  Qle_bool (bx b) (fst p) && Qle_bool (fst p) (bx b + bw b)
  && Qle_bool (by_ b) (snd p) && Qle_bool (snd p) (by_ b + bh b).

(* one candidate border: intersect, keep if within the border's extent *)
Definition hit_h (b1 b2 s p : vec) : list vec :=   (* horizontal border, test x *)
  match line_intersect b1 b2 s p with
  | Ok i => if Qle_bool (fst b1) (fst i) && Qle_bool (fst i) (fst b2) then [i] else []
  | Err _ => []
  end.
Definition hit_v (b1 b2 s p : vec) : list vec :=   (* vertical border, test y *)
  match line_intersect b1 b2 s p with
  | Ok i => if Qle_bool (snd b1) (snd i) && Qle_bool (snd i) (snd b2) then [i] else []
  | Err _ => []
  end.

Definition snap_oblique (b : box) (point s : vec) : res :=
  let p := if inside b point then point else center b in
  let d := vsub p s in
  if Qeq_bool (fst d) 0 && Qeq_bool (snd d) 0 then Err E_AssertionError
  else
    let tl := (bx b, by_ b) in
    let tr := (bx b + bw b, by_ b) in
    let bl := (bx b, by_ b + bh b) in
    let br := (bx b + bw b, by_ b + bh b) in
    let left := Qlt_b 0 (fst d) in
    let right := Qlt_b (fst d) 0 in
    let top := Qlt_b 0 (snd d) in
    let bottom := Qlt_b (snd d) 0 in
    let is := (if top then hit_h tl tr s p else [])
              ++ (if left then hit_v tl bl s p else [])
              ++ (if right then hit_v tr br s p else [])
              ++ (if bottom then hit_h bl br s p else []) in
    match is with
    | [i] => Ok i
    | _ => Err E_AssertionError
    end.

(* ---- Box.vector_snap ---- *)
Inductive style := Oblique | Manhattan | Tree.
Definition vector_snap (st : style) (b : box) (p s : vec) : res :=
  match st with
  | Oblique => if veqb p s then snap_closest b p else snap_oblique b p s
  | Manhattan => snap_manhattan b p (vsub p s)
  | Tree => snap_tree b p (vsub p s)
  end.

(* ---- Box.snap_to_parent, port branch: new position of the port ---- *)
Definition port_midbox (ppos psize size : vec) : box :=
  let tlx := fst ppos + fst size * half - PORT_OVERHANG in
  let tly := snd ppos + snd size * half - PORT_OVERHANG in
  let brx := fst ppos + fst psize - fst size * half + PORT_OVERHANG in
  let bry := snd ppos + snd psize - snd size * half + PORT_OVERHANG in
  mkbox tlx tly (brx - tlx) (bry - tly) false.
Definition port_mid (pos size : vec) : vec := (fst pos + fst size * half, snd pos + snd size * half).
Definition res_map (f : vec -> vec) (r : res) : res := match r with Ok v => Ok (f v) | Err e => Err e end.
(* returns the new centre of the port; the new position is pos + (newmid - mid) *)
Definition port_newmid (ppos psize pos size : vec) : res :=
  snap_closest (port_midbox ppos psize size) (port_mid pos size).
Definition snap_port_to_parent (ppos psize pos size : vec) : res :=
  res_map (fun nm => vadd pos (vsub nm (port_mid pos size))) (port_newmid ppos psize pos size).

(* ---- Box.snap_to_parent, non-port branch: new (pos, stored size) ---- *)
Definition snap_child_to_parent (ppos psize pos size : vec) : vec * vec :=
  let minx := fst ppos + CHILD_MARGIN in
  let miny := snd ppos + CHILD_MARGIN in
  let nx := Qmax (fst pos) minx in
  let ny := Qmax (snd pos) miny in
  let mx := fst ppos + fst psize - nx - CHILD_MARGIN in
  let my := snd ppos + snd psize - ny - CHILD_MARGIN in
  let sx := Qmin (fst size) mx in
  let sy := Qmin (snd size) my in
  (* `newsize <= (0, 0)` is a lexicographic tuple comparison *)
  let zero := Qlt_b sx 0 || (Qeq_bool sx 0 && Qle_bool sy 0) in
  let sx' := if zero then 0 else sx in
  let sy' := if zero then 0 else sy in
  ((nx, ny), (if Qlt_b 0 (fst size) then sx' else 0, if Qlt_b 0 (snd size) then sy' else 0)).

(* ---- Diagram.calculate_viewport over the bounds (x, y, w, h) of the visible elements ---- *)
Notation bbox := (Q * Q * Q * Q)%type (only parsing).
Definition vp_acc (acc : Q * Q * Q * Q) (b : bbox) : Q * Q * Q * Q :=
  let '(minx, miny, maxx, maxy) := acc in
  let '(x, y, w, h) := b in
  (Qmin minx x, Qmin miny y, Qmax maxx (x + w), Qmax maxy (y + h)).
(* math.inf / -math.inf as start values: the first element initialises the accumulator *)
Definition viewport (bs : list bbox) : option bbox :=
  match bs with
  | [] => None
  | (x, y, w, h) :: r =>
      let '(minx, miny, maxx, maxy) := fold_left vp_acc r (x, y, x + w, y + h) in
      Some (minx, miny, maxx - minx, maxy - miny)
  end.

(* ---- position calculus of _box_factories.generic_factory ----
   A node carries its stored layout offset (x, y of its layoutConstraint plus the fixed
   inset taken from the diagram element) relative to its parent's position; top-level
   nodes are relative to (0, 0).  [place] lists the absolute positions of a node and of
   everything inside it, in document order. *)
Inductive node := Node (off : vec) (kids : list node).
Fixpoint place (ref : vec) (n : node) : list vec :=
  match n with
  | Node off kids =>
      let pos := vadd ref off in
      pos :: (fix go (l : list node) : list vec :=
                match l with [] => [] | k :: r => place pos k ++ go r end) kids
  end.
Definition place_all (tops : list node) : list (list vec) := map (place (0, 0)) tops.
Definition shift_node (d : vec) (n : node) : node :=
  match n with Node off kids => Node (vadd off d) kids end.

(* ================= wrappers for the correspondence check ================= *)
Definition q_of_val (v : val) : option Q :=
  match v with
  | VL [VZ n; VZ (Zpos d)] => Some (n # d)
  | VZ n => Some (n # 1)
  | _ => None
  end.
Definition val_of_q (q : Q) : val := let r := Qred q in VL [VZ (Qnum r); VZ (Zpos (Qden r))].
Definition val_of_vec (v : vec) : val := VL [val_of_q (fst v); val_of_q (snd v)].
Definition vec_of_val (v : val) : option vec :=
  match v with
  | VL [a; b] => match q_of_val a, q_of_val b with Some x, Some y => Some (x, y) | _, _ => None end
  | _ => None
  end.
Definition tol : Q := 1 # 1000000.
Definition qclose (a b : Q) : bool := Qle_bool (Qabs (a - b)) tol.
Definition vclose (a b : vec) : bool := qclose (fst a) (fst b) && qclose (snd a) (snd b).
Definition val_of_res (r : res) : val := match r with Ok v => val_of_vec v | Err e => VE e end.
(* compare a model result with the implementation's outcome: VB true when they agree within
   [tol] (or raise the same class of error); otherwise the model result, for the report *)
Definition agree (r : res) (impl : val) : val :=
  match r, impl with
  | Err e, VE e' => if N.eqb e e' then VB true else VE e
  | Ok v, VL _ => match vec_of_val impl with
                  | Some w => if vclose v w then VB true else val_of_vec v
                  | None => bad
                  end
  | _, _ => val_of_res r
  end.

Definition style_of_val (v : val) : option style :=
  match v with VZ 0 => Some Oblique | VZ 1 => Some Manhattan | VZ 2 => Some Tree | _ => None end.

(* input: [[style; port; pos; size; point; source]; impl outcome] *)
Definition w_snap (v : val) : val :=
  match v with
  | VL [VL [st; VB port; pos; size; p; s]; impl] =>
      match style_of_val st, vec_of_val pos, vec_of_val size, vec_of_val p, vec_of_val s with
      | Some st, Some pos, Some size, Some p, Some s =>
          agree (vector_snap st (mkbox (fst pos) (snd pos) (fst size) (snd size) port) p s) impl
      | _, _, _, _, _ => bad
      end
  | _ => bad
  end.

(* input: [[p1; p2; p3; p4]; impl] *)
Definition w_line_intersect (v : val) : val :=
  match v with
  | VL [VL [a; b; c; d]; impl] =>
      match vec_of_val a, vec_of_val b, vec_of_val c, vec_of_val d with
      | Some a, Some b, Some c, Some d => agree (line_intersect a b c d) impl
      | _, _, _, _ => bad
      end
  | _ => bad
  end.

(* input: [[d]; impl] *)
Definition w_closestaxis (v : val) : val :=
  match v with
  | VL [VL [d]; impl] => match vec_of_val d with Some d => agree (Ok (closestaxis d)) impl | None => bad end
  | _ => bad
  end.

(* input: [[ppos; psize; pos; size]; impl new pos] *)
Definition w_snap_port (v : val) : val :=
  match v with
  | VL [VL [a; b; c; d]; impl] =>
      match vec_of_val a, vec_of_val b, vec_of_val c, vec_of_val d with
      | Some a, Some b, Some c, Some d => agree (snap_port_to_parent a b c d) impl
      | _, _, _, _ => bad
      end
  | _ => bad
  end.

(* input: [[ppos; psize; pos; size]; [impl pos; impl stored size]] *)
Definition w_snap_child (v : val) : val :=
  match v with
  | VL [VL [a; b; c; d]; VL [ip; isz]] =>
      match vec_of_val a, vec_of_val b, vec_of_val c, vec_of_val d, vec_of_val ip, vec_of_val isz with
      | Some a, Some b, Some c, Some d, Some ip, Some isz =>
          let '(np, ns) := snap_child_to_parent a b c d in
          if vclose np ip && vclose ns isz then VB true else VL [val_of_vec np; val_of_vec ns]
      | _, _, _, _, _, _ => bad
      end
  | _ => bad
  end.

(* input: [[bounds...]; [impl pos; impl size]]   bounds = [pos; size] *)
Definition bbox_of_val (v : val) : option (Q * Q * Q * Q) :=
  match v with
  | VL [p; s] => match vec_of_val p, vec_of_val s with
                 | Some p, Some s => Some (fst p, snd p, fst s, snd s)
                 | _, _ => None
                 end
  | _ => None
  end.
Definition w_viewport (v : val) : val :=
  match v with
  | VL [VL bs; impl] =>
      match all_some (map bbox_of_val bs), bbox_of_val impl with
      | Some bs, Some (ix, iy, iw, ih) =>
          match viewport bs with
          | Some (x, y, w, h) =>
              if vclose (x, y) (ix, iy) && vclose (w, h) (iw, ih) then VB true
              else VL [val_of_vec (x, y); val_of_vec (w, h)]
          | None => VNone
          end
      | _, _ => bad
      end
  | _ => bad
  end.
