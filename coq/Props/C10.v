(* C10 — Queries return exactly what a brute-force scan of the model would. *)
From Coq Require Import ZArith List Bool Permutation.
Import ListNotations.
From V Require Import Model.Val Model.Graph Model.Query Proofs.GraphP Proofs.QueryP.
Open Scope Z_scope.

(* 1. type search = scan of the semantic fragments (any forest with exact indexes) *)
Theorem search_exact : forall frs xts h, FragsOK frs -> (In h (search frs xts) <-> In h (scan_xt frs xts)).
Proof. exact GraphP.search_exact. Qed.
Print Assumptions search_exact.
Example search_exact_hyps_sat : FragsOK d_forest /\ search d_forest [100; 102] <> [].
Proof. split; [exact d_forest_ok|discriminate]. Qed.

(* 2. reference search: with the XPath pre-filter it returns exactly what evaluating every link-storing relation
      of every object returns — same triples, same order — provided relations keep their targets in the element's
      own attributes or in those of its direct children (measured on the real model on every run) *)
Theorem find_references_sound_complete : forall xs y, Forall StoredShallow xs -> find_references xs y = brute_force xs y.
Proof. exact find_references_exact. Qed.
Print Assumptions find_references_sound_complete.
(* hypothesis satisfiable: three objects, targets stored in own attributes (1), in a child's attributes (2), none (3);
   the search for 42 has two hits, one of them at position 1 of a relation *)
Definition ex_qs : list qobj :=
  [mkQ 1 [42] [] [(7, [42])]; mkQ 2 [] [42; 43] [(8, [43; 42]); (9, [])]; mkQ 3 [5] [] []].
Example find_references_sound_complete_hyps_sat :
  Forall StoredShallow ex_qs /\ find_references ex_qs 42 = [(1, 7, 0); (2, 8, 1)].
Proof.
  split; [|reflexivity].
  repeat (apply Forall_cons; [intros r u Hr Hu; cbn in Hr, Hu |- *; intuition (subst; cbn in *; intuition)|]); apply Forall_nil.
Qed.
Theorem reported_iff_relation_contains : forall y x h r i, In (h, r, i) (hits y x) <->
  h = q_h x /\ exists ts, In (r, ts) (q_rels x) /\ index_of y ts 0 = Some i.
Proof. exact hits_spec. Qed.
Print Assumptions reported_iff_relation_contains.
(* the hypothesis is needed *)
Theorem find_references_deep_refuted :
  let x := mkQ 1 [] [] [(7, [42])] in find_references [x] 42 = [] /\ brute_force [x] 42 = [(1, 7, 0)].
Proof. exact deep_storage_refuted. Qed.
Print Assumptions find_references_deep_refuted.

(* 3. back-references: exactly those x one of whose listed relations contains y *)
Theorem backref_exact : forall xs attrs y h, In h (backrefs xs attrs y) <->
  exists x, In x xs /\ q_h x = h /\ exists r, In r (q_rels x) /\ In (fst r) attrs /\ In y (snd r).
Proof. exact backrefs_spec. Qed.
Print Assumptions backref_exact.

(* ... and as the accessor's loop is written, with attribute PATHS some of which cannot be followed on some candidates
   (None: "source.owner" of an exchange whose source is empty): a candidate is reported exactly when one of the paths that
   can be followed contains y — a path that fails does not hide the ones after it — and at most once *)
Theorem backref_paths_exact : forall cs y h, In h (backrefs_loop cs y) <->
  exists c, In c cs /\ fst c = h /\ exists vs, In (Some vs) (snd c) /\ In y vs.
Proof. exact backrefs_loop_spec. Qed.
Print Assumptions backref_paths_exact.
Theorem backref_paths_once : forall cs y, NoDup (map fst cs) -> NoDup (backrefs_loop cs y).
Proof. exact backrefs_loop_nodup. Qed.
Print Assumptions backref_paths_once.
Example backref_paths_hyps_sat : NoDup (map fst [(1, [None; Some [42]]); (2, [Some [7]; None])]) /\ backrefs_loop [(1, [None; Some [42]]); (2, [Some [7]; None])] 42 = [1].
Proof. split; [repeat (apply NoDup_cons; [cbn; intuition discriminate|]); apply NoDup_nil|reflexivity]. Qed.
(* stopping at the first path that cannot be followed loses the candidate *)
Theorem backref_break_refuted :
  backrefs_loop [(1, [None; Some [42]])] 42 = [1] /\ backrefs_loop_break [(1, [None; Some [42]])] 42 = [].
Proof. exact backrefs_break_refuted. Qed.
Print Assumptions backref_break_refuted.

(* 4. list filters: selecting a value and excluding it split ANY list into complementary order-preserving parts
      (a member on which the attribute cannot be read counts as not having the value) *)
Theorem filter_partition : forall key v l,
  Permutation l (by_key key v l ++ exclude_key key v l) /\
  subseq (by_key key v l) l /\ subseq (exclude_key key v l) l /\
  (forall e, In e (by_key key v l) -> ~ In e (exclude_key key v l)).
Proof. exact filters_partition. Qed.
Print Assumptions filter_partition.
(* before the fix such a member was in neither part *)
Theorem filter_partition_old_refuted :
  let key := fun e => if e =? 2 then None else Some 5 in
  by_key key 5 [1; 2; 3] ++ exclude_key_old key 5 [1; 2; 3] = [1; 3].
Proof. exact filters_partition_refuted. Qed.
Print Assumptions filter_partition_old_refuted.

(* 5. single-result lookups *)
(* by definition of single (a three-way case split on the list) *)
Theorem single_lookup : forall l x, single l = Some x <-> l = [x].
Proof. exact single_spec. Qed.
Print Assumptions single_lookup.
