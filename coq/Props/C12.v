From Coq Require Import ZArith NArith List Bool.
Import ListNotations.
From V Require Import Model.Val Model.Decl.
Example c12_placeholder : run [] = Done st0.
Proof. reflexivity. Qed.
