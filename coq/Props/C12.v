(* C12 — Declarative modelling resolves promises independently of declaration order.
   Property theorems only; each is closed by [exact] of a lemma proved in Proofs/DeclP.v.

   [run d] is the scheduler of decl.apply (instruction deque, promises dict, deferred dict, re-queue on
   fulfilment, terminal checks) on the atomic actions [d]; [compile] splits an instruction document into
   those actions the way _operate_extend/_operate_set/_operate_sync/_create_complex_object(s) do, in the
   order of [Gen.Decl_consts.OPERATIONS] (read from the source on every run).  Objects are named by the
   unique name the document gives them, so "up to freshly generated UUIDs" is literal equality here. *)
From Coq Require Import ZArith NArith List Bool Permutation.
Import ListNotations.
From V Require Import Model.Val Model.Decl Proofs.DeclP.

(* documents used by the non-vacuity examples ([..._hyps_sat]) below.
   wit_i0 (Proofs/DeclP.v): PK.packages += [G (promise 1) { classes: [Kx (promise 2)] }]
   ex_i1: PK.classes += [Ka (super: !promise 2)]          -- forward reference to wit_i0
   ex_i2: PK.packages += [Kb (promise 1)]                 -- declares promise 1 only (again, if next to wit_i0) *)
Definition ex_i1 : instr :=
  mkInstr (RObj PK) GNil
    (GCons a_classes (ICons (IObj None nKa [(a_super, SRef (RProm 2%N))] GNil) INil) GNil) [] [].
Definition ex_i2 : instr :=
  mkInstr (RObj PK) GNil (GCons a_packages (ICons (IObj (Some 1%N) nKb [] GNil) INil) GNil) [] [].
Definition ex_d : list act := compile [ex_i1; wit_i0].       (* succeeds in both orders *)
Definition ex_d' : list act := compile [wit_i0; ex_i1].
Definition ex_du : list act := compile [ex_i1; ex_i2].       (* promise 2 is never declared *)
Definition ex_dd : list act := compile [wit_i0; ex_i2].      (* promise 1 is declared by two different objects *)
(* the action of ex_i1 that creates Ka and has to wait for promise 2 *)
Definition ex_need : act := c_item (RObj PK) a_classes (IObj None nKa [(a_super, SRef (RProm 2%N))] GNil).
Ltac in_list := repeat (first [left; reflexivity | right]).
Ltac swap2 := unfold ex_d, ex_d', compile; cbn [map]; apply perm_swap.

(* 0. the scheduler terminates within the fuel [run] gives it: every pop either executes an action for
      good or parks it under a promise that is still missing, and a re-queue removes it from [deferred] *)
Theorem scheduler_terminates : forall d s, run d <> OutOfFuel s.
Proof. exact run_terminates. Qed.
Print Assumptions scheduler_terminates.
(* no hypothesis; the conclusion is not by definition of [run]: [fuel_of] is a finite bound that has to suffice *)

(* 1. without a duplicate declaration, what gets executed / resolved is the least fixed point of
      "reached and all needs available" — a set that does not depend on the order of the document *)
Theorem executed_is_lfp : forall d s, run d = Done s \/ run d = Unfulfilled s ->
  (forall a, In a (sX s) <-> fired d a) /\ (forall p, memP p (sP s) = true <-> avail d p).
Proof. exact executed_iff_fired. Qed.
Print Assumptions executed_is_lfp.
(* hypotheses: one of the two terminal outcomes; both occur on two-instruction documents, and the sets
   the conclusion speaks about are not empty (5 actions executed / the waiting action ex_need not executed) *)
Example executed_is_lfp_hyps_sat : exists s, (run ex_d = Done s \/ run ex_d = Unfulfilled s) /\ length (sX s) = 5%nat
  /\ In ex_need (sX s) /\ memP 2%N (sP s) = true.
Proof. eexists. split; [left; vm_compute; reflexivity|]. split; [vm_compute; reflexivity|]. split; [vm_compute; in_list | vm_compute; reflexivity]. Qed.
Example executed_is_lfp_hyps_sat_2 : exists s, (run ex_du = Done s \/ run ex_du = Unfulfilled s) /\ length (sX s) = 3%nat
  /\ ~ In ex_need (sX s) /\ memP 2%N (sP s) = false /\ memP 1%N (sP s) = true.
Proof.
  eexists. split; [right; vm_compute; reflexivity|]. split; [vm_compute; reflexivity|].
  split; [vm_compute; intros [H|[H|[H|[]]]]; discriminate H | split; vm_compute; reflexivity].
Qed.

Theorem lfp_order_free : forall d d', Permutation d d' ->
  (forall a, fired d a <-> fired d' a) /\ (forall p, avail d p <-> avail d' p).
Proof. exact fired_perm_iff. Qed.
Print Assumptions lfp_order_free.
(* the proof only uses that d and d' have the same members ([fired] looks at d through [In] alone), so the
   statement is weaker than it could be — it would hold for any d' with the same set of top-level actions *)
Example lfp_order_free_hyps_sat : Permutation ex_d ex_d' /\ ex_d <> ex_d' /\ fired ex_d (c_instr ex_i1).
Proof.
  split; [swap2|]. split; [vm_compute; discriminate|].
  apply fired_top; [vm_compute; in_list | vm_compute; intros n []].
Qed.

(* 2. order independence: if one order of the document is applied successfully then every order is, the
      same actions are executed (each exactly once) and the returned promise map is the same *)
Theorem order_independent : forall d d' s, Permutation d d' -> run d = Done s ->
  exists s', run d' = Done s' /\ Permutation (sX s) (sX s') /\ Permutation (sP s) (sP s')
             /\ forall p, lookupP (sP s) p = lookupP (sP s') p.
Proof. exact done_perm. Qed.
Print Assumptions order_independent.
Example order_independent_hyps_sat : exists s, Permutation ex_d ex_d' /\ run ex_d = Done s /\ ex_d <> ex_d'.
Proof. eexists. split; [swap2|]. split; [vm_compute; reflexivity | vm_compute; discriminate]. Qed.

Theorem order_independent_documents : forall (d d' : list instr) s, Permutation d d' -> run (compile d) = Done s ->
  exists s', run (compile d') = Done s' /\ Permutation (sX s) (sX s')
             /\ forall p, lookupP (sP s) p = lookupP (sP s') p.
Proof. exact done_perm_docs. Qed.
Print Assumptions order_independent_documents.
Example order_independent_documents_hyps_sat : exists s,
  Permutation [ex_i1; wit_i0] [wit_i0; ex_i1] /\ run (compile [ex_i1; wit_i0]) = Done s.
Proof. eexists. split; [apply perm_swap | vm_compute; reflexivity]. Qed.

(* ... hence failing is order-independent too: one order succeeds iff every order does *)
Theorem success_order_independent : forall d d', Permutation d d' ->
  ((exists s, run d = Done s) <-> (exists s', run d' = Done s')).
Proof. exact success_iff. Qed.
Print Assumptions success_order_independent.
(* both truth values of the equivalence occur: a permuted pair that succeeds on both sides, one that fails on both *)
Example success_order_independent_hyps_sat :
  Permutation ex_d ex_d' /\ (exists s, run ex_d = Done s) /\ (exists s', run ex_d' = Done s').
Proof. split; [swap2|]. split; eexists; vm_compute; reflexivity. Qed.
Example success_order_independent_hyps_sat_2 :
  Permutation ex_du (compile [ex_i2; ex_i1]) /\ (forall s, run ex_du <> Done s) /\ (forall s, run (compile [ex_i2; ex_i1]) <> Done s).
Proof.
  split; [unfold ex_du, compile; cbn [map]; apply perm_swap|].
  split; intros s H; vm_compute in H; discriminate H.
Qed.

Theorem success_executes_everything_once : forall d s, run d = Done s ->
  Permutation (sX s) (shells d) /\ Permutation (sP s) (all_fuls d) /\ NoDup (map fst (sP s)).
Proof. exact run_done. Qed.
Print Assumptions success_executes_everything_once.
Example success_executes_everything_once_hyps_sat : exists s, run ex_d = Done s /\ length (shells ex_d) = 5%nat
  /\ length (all_fuls ex_d) = 2%nat.
Proof. eexists. split; [vm_compute; reflexivity|]. split; reflexivity. Qed.

(* 3. every promise reference points at the object that declared it: the promise map of a successful run
      is exactly the set of declarations of the document, and every promise any action mentions is in it *)
Theorem promise_points_to_declarer : forall d s, run d = Done s ->
  (forall p o, lookupP (sP s) p = Some o <-> In (p, o) (all_fuls d)) /\
  (forall a n, In a (shells d) -> In n (a_needs a) -> exists o, lookupP (sP s) n = Some o /\ In (n, o) (all_fuls d)).
Proof. exact promise_decl. Qed.
Print Assumptions promise_points_to_declarer.
(* the hypothesis, and the premises of the second conjunct (an action of the document that needs a promise) *)
Example promise_points_to_declarer_hyps_sat : exists s, run ex_d = Done s /\
  In ex_need (shells ex_d) /\ In 2%N (a_needs ex_need) /\ In (2%N, nKx) (all_fuls ex_d).
Proof.
  eexists. split; [vm_compute; reflexivity|]. split; [vm_compute; in_list|].
  split; vm_compute; in_list.
Qed.

(* 4. a reference to a promise nobody declares, or a promise id declared twice, is never a success —
      in any order (by 0 the outcome is then DupErr = ValueError or Unfulfilled = UnfulfilledPromisesError) *)
Theorem unfulfilled_errors : forall d a p, In a (shells d) -> In p (a_needs a) -> ~ In p (map fst (all_fuls d)) ->
  forall s, run d <> Done s.
Proof. exact undeclared_fails. Qed.
Print Assumptions unfulfilled_errors.
(* Ka (super: !promise 2) next to an instruction that declares promise 1 only *)
Example unfulfilled_errors_hyps_sat :
  In ex_need (shells ex_du) /\ In 2%N (a_needs ex_need) /\ ~ In 2%N (map fst (all_fuls ex_du)) /\ all_fuls ex_du <> [].
Proof.
  split; [vm_compute; in_list|]. split; [vm_compute; in_list|].
  split; [vm_compute; intros [H|[]]; discriminate H | vm_compute; discriminate].
Qed.

Theorem duplicate_errors : forall d, ~ NoDup (map fst (all_fuls d)) -> forall s, run d <> Done s.
Proof. exact duplicate_fails. Qed.
Print Assumptions duplicate_errors.
(* two different instructions, two different objects (G, Kb), one promise id *)
Example duplicate_errors_hyps_sat : ~ NoDup (map fst (all_fuls ex_dd)) /\ map fst (all_fuls ex_dd) = [1; 2; 1]%N.
Proof.
  split; [|reflexivity]. change (~ NoDup [1; 2; 1]%N).
  intro H. inversion H as [|x l Hn Hd]. apply Hn. right. left. reflexivity.
Qed.

Theorem duplicate_error_means_duplicate : forall d s, run d = DupErr s -> ~ NoDup (map fst (all_fuls d)).
Proof. exact run_dup. Qed.
Print Assumptions duplicate_error_means_duplicate.
Example duplicate_error_means_duplicate_hyps_sat : exists s, run ex_dd = DupErr s.
Proof. eexists. vm_compute. reflexivity. Qed.

(* 5. the resulting store.  _partial: proved for documents in which no two actions write the same cell
      ([cell_indep], decidable by [indep_check]); the order of the members of a list that several actions
      append to is NOT covered — and the faithful model refutes it, see [store_order_refuted]. *)
Theorem store_order_independent_partial : forall d d' s s', Permutation d d' ->
  run d = Done s -> run d' = Done s' -> cell_indep (lookupP (sP s)) (shells d) ->
  forall o a, read_list o a (final_log s) = read_list o a (final_log s')
              /\ read_val o a (final_log s) = read_val o a (final_log s').
Proof. exact store_perm. Qed.
Print Assumptions store_order_independent_partial.
(* all four hypotheses on one pair of orders; [cell_indep] through its decision procedure.  The cells
   written are not empty: PK.classes = [Ka] and Ka.super = Kx (resolved through promise 2) *)
Example store_order_independent_partial_hyps_sat : exists s s',
  Permutation ex_d ex_d' /\ run ex_d = Done s /\ run ex_d' = Done s' /\ cell_indep (lookupP (sP s)) (shells ex_d)
  /\ read_list PK a_classes (final_log s) = [nKa] /\ read_val nKa a_super (final_log s') = Some (CObj nKx).
Proof.
  eexists. eexists. split; [swap2|]. split; [vm_compute; reflexivity|]. split; [vm_compute; reflexivity|].
  split; [apply indep_check_sound; vm_compute; reflexivity|]. split; vm_compute; reflexivity.
Qed.

Theorem indep_check_decides : forall pm l, indep_check pm l = true -> cell_indep pm l.
Proof. exact indep_check_sound. Qed.
Print Assumptions indep_check_decides.
Example indep_check_decides_hyps_sat : exists s, run ex_d = Done s /\ indep_check (lookupP (sP s)) (shells ex_d) = true
  /\ length (shells ex_d) = 5%nat.
Proof. eexists. split; [vm_compute; reflexivity|]. split; vm_compute; reflexivity. Qed.
(* ... and the check does reject: the two siblings of wit_i1 are appended to the same list *)
Example indep_check_rejects : indep_check (fun _ => None) (shells (compile [wit_i1])) = false.
Proof. reflexivity. Qed.

(* a list-valued `set` is covered by the guarded theorem: the whole `set` waits for the first unknown member
   (it is one action that clears the list and appends all members), so PK.[9] := [!promise 2; Kb] gives
   [Kx; Kb] whether promise 2 is declared before or after — and whatever the list held before is gone *)
Definition a_alloc : str := [9]%N.
Definition ex_i3 : instr := mkInstr (RObj PK) GNil GNil [(a_alloc, SList [RProm 2%N; RObj nKb])] [].
Example set_list_deferred_as_a_whole : exists s s',
  run (compile [ex_i3; wit_i0]) = Done s /\ run (compile [wit_i0; ex_i3]) = Done s' /\
  indep_check (lookupP (sP s)) (shells (compile [ex_i3; wit_i0])) = true /\
  read_list PK a_alloc (final_log s) = [nKx; nKb] /\ read_list PK a_alloc (final_log s') = [nKx; nKb] /\
  read_list PK a_alloc ([UApp PK a_alloc nG] ++ final_log s) = [nKx; nKb] /\
  (exists k, In (TDefer 2%N k) (sT s)) /\ (forall k, ~ In (TDefer 2%N k) (sT s')).
Proof.
  eexists. eexists. split; [vm_compute; reflexivity|]. split; [vm_compute; reflexivity|].
  split; [vm_compute; reflexivity|]. split; [vm_compute; reflexivity|]. split; [vm_compute; reflexivity|].
  split; [vm_compute; reflexivity|]. split; [eexists; vm_compute; in_list|].
  intros k H. vm_compute in H. repeat (destruct H as [H|H]; [discriminate H|]). exact H.
Qed.

(* value-equal actions are separate entries of the queue and of [deferred] (lists, not sets): two identical
   creations that wait for the same promise are both parked and both executed once the promise is declared —
   the list gets two members whether the promise is declared before or after (success_executes_everything_once
   speaks about [shells d] as a list, i.e. with multiplicity) *)
Definition ex_twin : item := IObj None nKa [(a_super, SRef (RProm 2%N))] GNil.
Definition ex_i4 : instr :=
  mkInstr (RObj PK) GNil (GCons a_classes (ICons ex_twin (ICons ex_twin INil)) GNil) [] [].
Definition n_defers (s : st) : nat :=
  length (filter (fun e => match e with TDefer _ _ => true | _ => false end) (sT s)).
Example twins_both_created : exists s s',
  run (compile [ex_i4; wit_i0]) = Done s /\ run (compile [wit_i0; ex_i4]) = Done s' /\
  read_list PK a_classes (final_log s) = [nKa; nKa] /\ read_list PK a_classes (final_log s') = [nKa; nKa] /\
  n_defers s = 2%nat /\ n_defers s' = 0%nat /\
  Permutation (sX s) (shells (compile [ex_i4; wit_i0])) /\ length (shells (compile [ex_i4; wit_i0])) = 6%nat.
Proof.
  assert (exists s, run (compile [ex_i4; wit_i0]) = Done s) as [s E] by (eexists; vm_compute; reflexivity).
  pose proof (proj1 (success_executes_everything_once _ _ E)) as Hp.
  exists s. eexists. split; [exact E|]. split; [vm_compute; reflexivity|].
  vm_compute in E. injection E as E. subst s.
  split; [vm_compute; reflexivity|]. split; [vm_compute; reflexivity|].
  split; [vm_compute; reflexivity|]. split; [vm_compute; reflexivity|].
  split; [exact Hp | vm_compute; reflexivity].
Qed.

(* witness (Proofs/DeclP.v: wit_i0, wit_i1): i1 appends two classes [Ka (super: !promise 2); Kb] to one list,
   i0 declares promise 2 in another list.  No two instructions extend the same list, yet the order inside
   the list differs: the member that has to wait is appended after its sibling (known finding
   sibling-order:deferred-member). *)
Theorem store_order_refuted :
  exists (d d' : list instr) s s', Permutation d d' /\ no_shared_list d = true /\
    run (compile d) = Done s /\ run (compile d') = Done s' /\
    read_list PK a_classes (final_log s) <> read_list PK a_classes (final_log s').
Proof. exact store_order_witness. Qed.
Print Assumptions store_order_refuted.

(* non-vacuity of the hypotheses: a document with a forward reference, applied successfully in both
   orders, whose actions write pairwise different cells *)
(* [ex_i1] is defined at the top of the file, with the other documents of the non-vacuity examples *)
Example ex_done : exists s, run (compile [ex_i1; wit_i0]) = Done s /\
  indep_check (lookupP (sP s)) (shells (compile [ex_i1; wit_i0])) = true /\
  read_val nKa a_super (final_log s) = Some (CObj nKx).
Proof. eexists. split; [vm_compute; reflexivity|]. split; vm_compute; reflexivity. Qed.
Example ex_unfulfilled : exists s, run (compile [ex_i1]) = Unfulfilled s.
Proof. eexists. vm_compute. reflexivity. Qed.
Example ex_duplicate : exists s, run (compile [wit_i0; wit_i0]) = DupErr s.
Proof. eexists. vm_compute. reflexivity. Qed.
