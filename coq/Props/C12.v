(* C12 — Declarative modelling resolves promises independently of declaration order.
   Property theorems only; each is closed by [exact] of a lemma proved in Proofs/DeclP.v.

   [run d] is the scheduler of decl.apply (instruction deque, promises dict, deferred dict, re-queue on
   fulfilment, terminal checks) on the atomic actions [d]; [compile] splits an instruction document into
   those actions the way _operate_extend/_operate_set/_operate_sync/_create_complex_object(s) do, in the
   order of [Gen.Decl_consts.OPERATIONS] (read from the source on every run).  Objects are named by the
   unique name the document gives them, so "up to freshly generated UUIDs" is literal equality here. *)
From Coq Require Import ZArith NArith List Bool Permutation.
Import ListNotations.
From V Require Import Model.Val Model.Decl Proofs.DeclP.

(* 0. the scheduler terminates within the fuel [run] gives it: every pop either executes an action for
      good or parks it under a promise that is still missing, and a re-queue removes it from [deferred] *)
Theorem scheduler_terminates : forall d s, run d <> OutOfFuel s.
Proof. exact run_terminates. Qed.
Print Assumptions scheduler_terminates.

(* 1. without a duplicate declaration, what gets executed / resolved is the least fixed point of
      "reached and all needs available" — a set that does not depend on the order of the document *)
Theorem executed_is_lfp : forall d s, run d = Done s \/ run d = Unfulfilled s ->
  (forall a, In a (sX s) <-> fired d a) /\ (forall p, memP p (sP s) = true <-> avail d p).
Proof. exact executed_iff_fired. Qed.
Print Assumptions executed_is_lfp.

Theorem lfp_order_free : forall d d', Permutation d d' ->
  (forall a, fired d a <-> fired d' a) /\ (forall p, avail d p <-> avail d' p).
Proof. exact fired_perm_iff. Qed.
Print Assumptions lfp_order_free.

(* 2. order independence: if one order of the document is applied successfully then every order is, the
      same actions are executed (each exactly once) and the returned promise map is the same *)
Theorem order_independent : forall d d' s, Permutation d d' -> run d = Done s ->
  exists s', run d' = Done s' /\ Permutation (sX s) (sX s') /\ Permutation (sP s) (sP s')
             /\ forall p, lookupP (sP s) p = lookupP (sP s') p.
Proof. exact done_perm. Qed.
Print Assumptions order_independent.

Theorem order_independent_documents : forall (d d' : list instr) s, Permutation d d' -> run (compile d) = Done s ->
  exists s', run (compile d') = Done s' /\ Permutation (sX s) (sX s')
             /\ forall p, lookupP (sP s) p = lookupP (sP s') p.
Proof. exact done_perm_docs. Qed.
Print Assumptions order_independent_documents.

(* ... hence failing is order-independent too: one order succeeds iff every order does *)
Theorem success_order_independent : forall d d', Permutation d d' ->
  ((exists s, run d = Done s) <-> (exists s', run d' = Done s')).
Proof. exact success_iff. Qed.
Print Assumptions success_order_independent.

Theorem success_executes_everything_once : forall d s, run d = Done s ->
  Permutation (sX s) (shells d) /\ Permutation (sP s) (all_fuls d) /\ NoDup (map fst (sP s)).
Proof. exact run_done. Qed.
Print Assumptions success_executes_everything_once.

(* 3. every promise reference points at the object that declared it: the promise map of a successful run
      is exactly the set of declarations of the document, and every promise any action mentions is in it *)
Theorem promise_points_to_declarer : forall d s, run d = Done s ->
  (forall p o, lookupP (sP s) p = Some o <-> In (p, o) (all_fuls d)) /\
  (forall a n, In a (shells d) -> In n (a_needs a) -> exists o, lookupP (sP s) n = Some o /\ In (n, o) (all_fuls d)).
Proof. exact promise_decl. Qed.
Print Assumptions promise_points_to_declarer.

(* 4. a reference to a promise nobody declares, or a promise id declared twice, is never a success —
      in any order (by 0 the outcome is then DupErr = ValueError or Unfulfilled = UnfulfilledPromisesError) *)
Theorem unfulfilled_errors : forall d a p, In a (shells d) -> In p (a_needs a) -> ~ In p (map fst (all_fuls d)) ->
  forall s, run d <> Done s.
Proof. exact undeclared_fails. Qed.
Print Assumptions unfulfilled_errors.

Theorem duplicate_errors : forall d, ~ NoDup (map fst (all_fuls d)) -> forall s, run d <> Done s.
Proof. exact duplicate_fails. Qed.
Print Assumptions duplicate_errors.

Theorem duplicate_error_means_duplicate : forall d s, run d = DupErr s -> ~ NoDup (map fst (all_fuls d)).
Proof. exact run_dup. Qed.
Print Assumptions duplicate_error_means_duplicate.

(* 5. the resulting store.  _partial: proved for documents in which no two actions write the same cell
      ([cell_indep], decidable by [indep_check]); the order of the members of a list that several actions
      append to is NOT covered — and the faithful model refutes it, see [store_order_refuted]. *)
Theorem store_order_independent_partial : forall d d' s s', Permutation d d' ->
  run d = Done s -> run d' = Done s' -> cell_indep (lookupP (sP s)) (shells d) ->
  forall o a, read_list o a (final_log s) = read_list o a (final_log s')
              /\ read_val o a (final_log s) = read_val o a (final_log s').
Proof. exact store_perm. Qed.
Print Assumptions store_order_independent_partial.

Theorem indep_check_decides : forall pm l, indep_check pm l = true -> cell_indep pm l.
Proof. exact indep_check_sound. Qed.
Print Assumptions indep_check_decides.

(* witness (Proofs/DeclP.v: wit_i0, wit_i1): i1 appends two classes [Ka (super: !promise 2); Kb] to one list,
   i0 declares promise 2 in another list.  No two instructions extend the same list, yet the order inside
   the list differs: the member that has to wait is appended after its sibling (known finding
   sibling-order:deferred-member). *)
Theorem store_order_refuted :
  exists (d d' : list instr) s s', Permutation d d' /\ no_shared_list d = true /\
    run (compile d) = Done s /\ run (compile d') = Done s' /\
    read_list PK a_classes (final_log s) <> read_list PK a_classes (final_log s').
Proof. exact store_order_witness. Qed.
Print Assumptions store_order_refuted.

(* non-vacuity of the hypotheses: a document with a forward reference, applied successfully in both
   orders, whose actions write pairwise different cells *)
Definition ex_i1 : instr :=
  mkInstr (RObj PK) GNil
    (GCons a_classes (ICons (IObj None nKa [(a_super, SRef (RProm 2%N))] GNil) INil) GNil) [] [].
Example ex_done : exists s, run (compile [ex_i1; wit_i0]) = Done s /\
  indep_check (lookupP (sP s)) (shells (compile [ex_i1; wit_i0])) = true /\
  read_val nKa a_super (final_log s) = Some (CObj nKx).
Proof. eexists. split; [vm_compute; reflexivity|]. split; vm_compute; reflexivity. Qed.
Example ex_unfulfilled : exists s, run (compile [ex_i1]) = Unfulfilled s.
Proof. eexists. vm_compute. reflexivity. Qed.
Example ex_duplicate : exists s, run (compile [wit_i0; wit_i0]) = DupErr s.
Proof. eexists. vm_compute. reflexivity. Qed.
