(* C07 — Attribute values read back as written.
   Property theorems only; each is closed by [exact] of a lemma proved in Proofs/PodsP.v.
   Model: Model/Pods.v (BasePOD.__get__/__set__ over an ordered attribute list, lxml's text check,
   the codecs of every POD subclass, the attribute escaper of loader/exs.py with a reference reader).
   Literals and tables come from Gen/PodsTab.v, regenerated from the tree under check.
   External behaviour enters as Section variables with stated hypotheses: CPython's float repr
   (the float theorems), lxml HTML repair (the html theorems).  The int->str digit limit of CPython (4300 digits) and the
   local time zone other than the one the harness runs in are outside the model. *)
From Coq Require Import ZArith NArith List Bool.
Import ListNotations.
From V Require Import Model.Val Gen.PodsTab Model.Pods Proofs.PodsP.
Open Scope N_scope.

(* ---------------------------------------------------------------- concrete instances used by the *_hyps_sat examples *)
Definition ex_id : str := [105;100].                                                        (* "id" *)
Definition ex_elem : list (str * str) := [([110;97;109;101], [120]); ([105;100], [121;122])].  (* name="x" id="yz" *)
Definition ex_elem_noid : list (str * str) := [([110;97;109;101], [120]); ([107;105;110;100], [70;76;79;87])].  (* name="x" kind="FLOW" *)
Definition ex_dt : dt := {| d_y := 2024; d_mo := 2; d_d := 29; d_h := 23; d_mi := 59; d_s := 59; d_us := 999999;
                            d_naive := false; d_oneg := true; d_omin := 330 |}.
Definition ex_dt_naive : dt := {| d_y := 1999; d_mo := 12; d_d := 31; d_h := 7; d_mi := 5; d_s := 9; d_us := 123456;
                                  d_naive := true; d_oneg := false; d_omin := 0 |}.
Example ex_dt_valid : dt_valid ex_dt.
Proof. unfold dt_valid, ex_dt; cbn. repeat split; try reflexivity; try discriminate. Qed.
(* a float stand-in with infinitely many values: "floats" are naturals, repr is decimal text *)
Definition ex_frepr : N -> str := N_dec.
Definition ex_fparse (s : str) : option (fl N) := option_map FFin (N_parse s).
Definition ex_feq : N -> N -> bool := N.eqb.
Example ex_float_hyps : (forall f, ex_fparse (ex_frepr f) = Some (FFin f)) /\ (forall f, xml_ok (ex_frepr f) = true)
                        /\ ex_fparse src_float_inf_marker = None.
Proof.
  unfold ex_fparse, ex_frepr. split; [intro f; now rewrite N_parse_dec|].
  split; [intro f; destruct (N_dec_spec f) as (x & l & _ & _ & Hd & _); now apply xml_ok_digits|vm_compute; reflexivity].
Qed.
(* an html repair stand-in that does something: drops the code points lxml refuses *)
Definition ex_repair (h : str) : str := filter cp_ok h.
Definition ex_html : str := [60;112;62;0;97;60;47;112;62].                                   (* "<p>\000a</p>" *)
Example ex_repair_idem : forall h, ex_repair (ex_repair h) = ex_repair h.
Proof.
  unfold ex_repair. induction h as [|c h IH]; [reflexivity|]. cbn [filter].
  destruct (cp_ok c) eqn:E; [cbn [filter]; rewrite E, IH; reflexivity|exact IH].
Qed.

(* ---------------------------------------------------------------- 1. the descriptor algebra, any codec *)
(* A valid, non-default value that may be written: the attribute is present afterwards, holds
   exactly what _to_xml produced, and reads back as the normal form of the value. *)
Theorem get_set : forall (V : Type) (c : codec V) (valid : V -> Prop) (norm : V -> V),
  (forall v, valid v -> c_isdef c v = false ->
     exists d, c_to c v = ROk d /\ xml_ok d = true /\ c_from c d = ROk (norm v)) ->
  forall w a e v, valid v -> c_isdef c v = false -> may_write w a e ->
  exists d, pod_set c w a e (Some v) = (attr_set a d e, None)
            /\ attr_get a (attr_set a d e) = Some d
            /\ c_to c v = ROk d
            /\ pod_get c a (attr_set a d e) = ROk (Some (norm v)).
Proof. exact alg_get_set. Qed.
Print Assumptions get_set.
Example get_set_hyps_sat :
  (forall v, dt_valid v -> c_isdef (dt_codec local_utc) v = false ->
     exists d, c_to (dt_codec local_utc) v = ROk d /\ xml_ok d = true /\ c_from (dt_codec local_utc) d = ROk (trunc_ms v))
  /\ dt_valid ex_dt /\ c_isdef (dt_codec local_utc) ex_dt = false /\ may_write true ex_id ex_elem
  /\ trunc_ms ex_dt <> ex_dt.
Proof.
  split; [intros v H _; exact (dt_rt v H)|]. split; [exact ex_dt_valid|]. split; [reflexivity|].
  split; [left; reflexivity|vm_compute; discriminate].
Qed.

(* Assigning the default (or None) removes the attribute; reading then gives the default. *)
Theorem default_elided : forall (V : Type) (c : codec V) w a e v, c_isdef c v = true -> may_write w a e ->
  pod_set c w a e (Some v) = (attr_pop a e, None)
  /\ attr_get a (attr_pop a e) = None
  /\ pod_get c a (attr_pop a e) = ROk (c_default c).
Proof. exact alg_default_elided. Qed.
Print Assumptions default_elided.
Example default_elided_hyps_sat :
  c_isdef (str_codec [100;102]) [100;102] = true /\ may_write true ex_id ex_elem /\ attr_pop ex_id ex_elem <> ex_elem.
Proof. split; [reflexivity|]. split; [left; reflexivity|vm_compute; discriminate]. Qed.

Theorem none_elided : forall (V : Type) (c : codec V) w a e, may_write w a e ->
  pod_set c w a e None = (attr_pop a e, None)
  /\ attr_get a (attr_pop a e) = None
  /\ pod_get c a (attr_pop a e) = ROk (c_default c).
Proof. exact alg_none_elided. Qed.
Print Assumptions none_elided.
Example none_elided_hyps_sat : may_write true ex_id ex_elem /\ attr_pop ex_id ex_elem <> ex_elem.
Proof. split; [left; reflexivity|vm_compute; discriminate]. Qed.

(* by definition of pod_get (its None branch) *)
Theorem absent_default : forall (V : Type) (c : codec V) a e, attr_get a e = None -> pod_get c a e = ROk (c_default c).
Proof. exact alg_absent_default. Qed.
Print Assumptions absent_default.
Example absent_default_hyps_sat : attr_get ex_id ex_elem_noid = None.
Proof. reflexivity. Qed.

(* A read-only attribute that is present rejects every assignment and the element is unchanged. *)
(* by definition of pod_set (its first guard) *)
Theorem readonly_rejects : forall (V : Type) (c : codec V) a e v, attr_get a e <> None ->
  pod_set c false a e v = (e, Some E_TypeError).
Proof. exact alg_readonly_rejects. Qed.
Print Assumptions readonly_rejects.
Example readonly_rejects_hyps_sat : attr_get ex_id ex_elem <> None.
Proof. vm_compute. discriminate. Qed.

(* No assignment, successful or not, touches any other attribute or their order. *)
Theorem set_frame : forall (V : Type) (c : codec V) w a e v,
  others a (fst (pod_set c w a e v)) = others a e
  /\ forall b, b <> a -> attr_get b (fst (pod_set c w a e v)) = attr_get b e.
Proof. exact alg_frame. Qed.
Print Assumptions set_frame.

(* An assignment that raises (wrong value, text lxml refuses, read-only) modifies nothing. *)
Theorem error_unchanged : forall (V : Type) (c : codec V) w a e v er,
  snd (pod_set c w a e v) = Some er -> fst (pod_set c w a e v) = e.
Proof. exact alg_error_unchanged. Qed.
Print Assumptions error_unchanged.
Example error_unchanged_hyps_sat :    (* a NUL in the text: lxml refuses it *)
  snd (pod_set (str_codec []) true ex_id ex_elem (Some [97;0;98])) = Some E_ValueError.
Proof. vm_compute. reflexivity. Qed.

(* ---------------------------------------------------------------- 2. every descriptor of every class *)
(* All rows of the regenerated table (every BasePOD attribute of the registered classes and of
   the unregistered ModelElement subclasses; 1051 rows at the time of writing) are of one of the eight
   kinds treated below, have a default of that kind's type (for enums: a member of their table),
   and a non-empty XML attribute name that lxml accepts.  Bound: the finite table [pod_rows]. *)
Theorem all_rows_known : forall r, In r pod_rows -> row_ok r = true.
Proof. exact row_ok_of. Qed.
Print Assumptions all_rows_known.
Example all_rows_known_hyps_sat : exists r, In r pod_rows /\ r_kind r = 3.
Proof.
  destruct (find (fun r => r_kind r =? 3) pod_rows) as [r|] eqn:E; [|vm_compute in E; discriminate].
  apply find_some in E. destruct E as [Hin Hk]. exists r. split; [exact Hin|now apply N.eqb_eq].
Qed.

Theorem enum_rows_have_tables : forall r, In r pod_rows -> r_kind r = 6 ->
  exists st t d, enum_tab (r_enum r) = Some (st, t) /\ r_default r = VZ (Z.of_nat d) /\ (d < length t)%nat /\ table_ok t = true.
Proof. exact enum_row_table. Qed.
Print Assumptions enum_rows_have_tables.
Example enum_rows_have_tables_hyps_sat : exists r, In r pod_rows /\ r_kind r = 6.
Proof.
  destruct (find (fun r => r_kind r =? 6) pod_rows) as [r|] eqn:E; [|vm_compute in E; discriminate].
  apply find_some in E. destruct E as [Hin Hk]. exists r. split; [exact Hin|now apply N.eqb_eq].
Qed.

(* ---------------------------------------------------------------- 3. the codecs *)
(* String (and summary/name/... : 797 of the rows): every text lxml accepts, any default *)
Theorem string_roundtrip : forall dflt w a e s, xml_ok s = true -> s <> dflt -> may_write w a e ->
  pod_set (str_codec dflt) w a e (Some s) = (attr_set a s e, None)
  /\ pod_get (str_codec dflt) a (attr_set a s e) = ROk (Some s).
Proof. exact str_attr_rt. Qed.
Print Assumptions string_roundtrip.
Example string_roundtrip_hyps_sat :    (* "a", TAB, less-than, e-acute, an emoji; a read-only attribute not yet present *)
  xml_ok [97;9;60;233;128512] = true /\ [97;9;60;233;128512] <> [100] /\ may_write false ex_id ex_elem_noid.
Proof. split; [vm_compute; reflexivity|]. split; [discriminate|right; reflexivity]. Qed.

Theorem bool_roundtrip : forall dflt w a e b, b <> dflt -> may_write w a e ->
  exists d, pod_set (bool_codec dflt) w a e (Some b) = (attr_set a d e, None)
            /\ d = (if b then src_bool_true else src_bool_false)
            /\ pod_get (bool_codec dflt) a (attr_set a d e) = ROk (Some b).
Proof. exact bool_attr_rt. Qed.
Print Assumptions bool_roundtrip.
Example bool_roundtrip_hyps_sat : true <> false /\ may_write true ex_id ex_elem.
Proof. split; [discriminate|left; reflexivity]. Qed.

(* Int: decimal text <-> Z for ALL integers (negative, huge) *)
Theorem int_text_roundtrip : forall z, Z_parse (Z_dec z) = ROk z.
Proof. exact Z_parse_dec. Qed.
Print Assumptions int_text_roundtrip.

Theorem int_roundtrip : forall dflt w a e z, z <> dflt -> may_write w a e ->
  pod_set (int_codec dflt) w a e (Some z) = (attr_set a (Z_dec z) e, None)
  /\ pod_get (int_codec dflt) a (attr_set a (Z_dec z) e) = ROk (Some z).
Proof. exact int_attr_rt. Qed.
Print Assumptions int_roundtrip.
Example int_roundtrip_hyps_sat : (-1000000000000000000000000000000)%Z <> 7%Z /\ may_write true ex_id ex_elem.
Proof. split; [discriminate|left; reflexivity]. Qed.

(* Enum: for every enum class of this tree (bound: the finite regenerated [enum_tabs]) and every member,
   by object ... *)
Theorem enum_roundtrip : forall en st dflt w a e i, In en enum_tabs -> (i < length (snd en))%nat -> i <> dflt -> may_write w a e ->
  exists d, pod_set (enum_codec st (snd en) dflt) w a e (Some (EObj i)) = (attr_set a d e, None)
            /\ option_map snd (nth_error (snd en) i) = Some d
            /\ pod_get (enum_codec st (snd en) dflt) a (attr_set a d e) = ROk (Some (EObj i)).
Proof. intros en st dflt w a e i H. apply enum_attr_rt. exact (table_ok_of en H). Qed.
Print Assumptions enum_roundtrip.
Example enum_roundtrip_hyps_sat : exists en, In en enum_tabs /\ (2 < length (snd en))%nat /\ 2%nat <> 0%nat
  /\ may_write true ex_id ex_elem.
Proof.
  destruct (find (fun en => Nat.ltb 2 (length (snd en))) enum_tabs) as [en|] eqn:E; [|vm_compute in E; discriminate].
  apply find_some in E. destruct E as [Hin Hl]. exists en.
  split; [exact Hin|]. split; [now apply Nat.ltb_lt|]. split; [discriminate|left; reflexivity].
Qed.

(* ... and by member name: the member's value is written and the member object is read back *)
Theorem enum_by_name_roundtrip : forall en st dflt w a e i n v, In en enum_tabs -> nth_error (snd en) i = Some (n, v) ->
  c_isdef (enum_codec st (snd en) dflt) (EName n) = false -> may_write w a e ->
  pod_set (enum_codec st (snd en) dflt) w a e (Some (EName n)) = (attr_set a v e, None)
  /\ pod_get (enum_codec st (snd en) dflt) a (attr_set a v e) = ROk (Some (EObj i)).
Proof. intros en st dflt w a e i n v H. apply enum_name_attr_rt. exact (table_ok_of en H). Qed.
Print Assumptions enum_by_name_roundtrip.
Example enum_by_name_roundtrip_hyps_sat : exists en n v, In en enum_tabs /\ nth_error (snd en) 2 = Some (n, v)
  /\ c_isdef (enum_codec (snd (fst en)) (snd en) 0) (EName n) = false /\ may_write false ex_id ex_elem_noid.
Proof.
  destruct (find (fun en => match nth_error (snd en) 2 with
                            | Some m => negb (enum_isdef (snd (fst en)) (snd en) 0 (EName (fst m)))
                            | None => false end) enum_tabs) as [en|] eqn:E; [|vm_compute in E; discriminate].
  apply find_some in E. destruct E as [Hin Hp]. destruct (nth_error (snd en) 2) as [[n v]|] eqn:En; [|discriminate].
  exists en, n, v. split; [exact Hin|]. split; [exact En|]. split; [now apply negb_true_iff in Hp|right; reflexivity].
Qed.

(* the default member, and for "stringy" enums also its name, is elided (with default_elided) *)
(* by definition of enum_isdef (and reflexivity of its two equality tests) *)
Theorem enum_default_name_is_default : forall t dflt n v, nth_error t dflt = Some (n, v) ->
  c_isdef (enum_codec true t dflt) (EName n) = true /\ c_isdef (enum_codec true t dflt) (EObj dflt) = true.
Proof. intros. split; [eapply enum_default_name_isdef; eassumption|apply enum_default_isdef]. Qed.
Print Assumptions enum_default_name_is_default.
Example enum_default_name_is_default_hyps_sat : nth_error [([65], [97]); ([66], [98]); ([67], [99])] 1 = Some ([66], [98]).
Proof. reflexivity. Qed.

(* Datetime: every aware datetime with a whole-minute offset in (-24h, 24h), years 1..9999, reads back
   truncated to the millisecond, through the +HH:MM <-> +HHMM surgery of re_set / re_get *)
Theorem datetime_roundtrip : forall w a e x, dt_valid x -> may_write w a e ->
  exists d, pod_set (dt_codec local_utc) w a e (Some x) = (attr_set a d e, None)
            /\ c_to (dt_codec local_utc) x = ROk d
            /\ pod_get (dt_codec local_utc) a (attr_set a d e) = ROk (Some (trunc_ms x)).
Proof. exact dt_attr_rt. Qed.
Print Assumptions datetime_roundtrip.
Example datetime_roundtrip_hyps_sat : dt_valid ex_dt /\ may_write false ex_id ex_elem_noid /\ trunc_ms ex_dt <> ex_dt.
Proof. split; [exact ex_dt_valid|]. split; [right; reflexivity|vm_compute; discriminate]. Qed.

Theorem datetime_colon_surgery : forall x, d_omin x < 1440 -> re_get (re_set (iso_ms x)) = iso_ms x.
Proof. exact re_get_set_iso. Qed.
Print Assumptions datetime_colon_surgery.
Example datetime_colon_surgery_hyps_sat : d_omin ex_dt < 1440 /\ re_set (iso_ms ex_dt) <> iso_ms ex_dt.
Proof. split; [reflexivity|vm_compute; discriminate]. Qed.

(* naive datetimes: whatever astimezone() makes of them ([local]) is what is stored and read back *)
Theorem datetime_naive_roundtrip : forall (local : dt -> dt) x, d_naive x = true -> dt_valid (local x) ->
  exists d, c_to (dt_codec local) x = ROk d /\ xml_ok d = true /\ c_from (dt_codec local) d = ROk (trunc_ms (local x)).
Proof. exact dt_naive_rt. Qed.
Print Assumptions datetime_naive_roundtrip.
Example datetime_naive_roundtrip_hyps_sat : d_naive ex_dt_naive = true /\ dt_valid (local_utc ex_dt_naive).
Proof. split; [reflexivity|]. unfold dt_valid, ex_dt_naive; cbn. repeat split; try reflexivity; try discriminate. Qed.

(* Float.  Assumed about CPython (sampled by the harness): float(repr(f)) == f for finite f, repr is
   XML-compatible text, float("*") fails. *)
Theorem float_roundtrip : forall (F : Type) (frepr : F -> str) (fparse : str -> option (fl F)) (feq : F -> F -> bool),
  (forall f, fparse (frepr f) = Some (FFin f)) -> (forall f, xml_ok (frepr f) = true) -> fparse src_float_inf_marker = None ->
  forall dflt w a e f, feq f dflt = false -> may_write w a e ->
  pod_set (float_codec F frepr fparse feq dflt) w a e (Some (FFin f)) = (attr_set a (frepr f) e, None)
  /\ pod_get (float_codec F frepr fparse feq dflt) a (attr_set a (frepr f) e) = ROk (Some (FFin f)).
Proof. exact float_attr_rt. Qed.
Print Assumptions float_roundtrip.
Example float_roundtrip_hyps_sat :
  (forall f, ex_fparse (ex_frepr f) = Some (FFin f)) /\ (forall f, xml_ok (ex_frepr f) = true) /\ ex_fparse src_float_inf_marker = None
  /\ ex_feq 15 0 = false /\ may_write true ex_id ex_elem.
Proof.
  destruct ex_float_hyps as (A & B & C). split; [exact A|]. split; [exact B|]. split; [exact C|].
  split; [reflexivity|left; reflexivity].
Qed.

(* +infinity is written as the marker and read back (this needs FloatPOD._from_xml to know the marker:
   proposed_fixes/C07-float-inf.diff; on a tree without it [float_marker_is_read] does not compile) *)
Theorem float_inf_reads_back : forall (F : Type) (frepr : F -> str) (fparse : str -> option (fl F)) (feq : F -> F -> bool),
  forall dflt w a e, may_write w a e ->
  pod_set (float_codec F frepr fparse feq dflt) w a e (Some FPInf) = (attr_set a src_float_inf_marker e, None)
  /\ pod_get (float_codec F frepr fparse feq dflt) a (attr_set a src_float_inf_marker e) = ROk (Some FPInf).
Proof. exact float_inf_attr_rt. Qed.
Print Assumptions float_inf_reads_back.
Example float_inf_reads_back_hyps_sat : may_write false ex_id ex_elem_noid.
Proof. right. reflexivity. Qed.

(* what the unfixed reader does with the marker (kept as the refutation of the original code) *)
(* VACUOUS on this tree: [float_reads_marker] is a closed term that computes to true here (float_marker_is_read),
   so the premise [float_reads_marker = false] cannot hold; see float_inf_unfixed_refuted_hyps_unsat below. *)
Theorem float_inf_unfixed_refuted : forall (F : Type) (frepr : F -> str) (fparse : str -> option (fl F)) (feq : F -> F -> bool),
  fparse src_float_inf_marker = None -> forall dflt, float_reads_marker = false ->
  c_from (float_codec F frepr fparse feq dflt) src_float_inf_marker = RErr E_ValueError.
Proof. exact float_inf_unreadable. Qed.
Print Assumptions float_inf_unfixed_refuted.
Example float_inf_unfixed_refuted_hyps_unsat : float_reads_marker = false -> False.
Proof. vm_compute. discriminate. Qed.
(* the other premise alone is satisfiable *)
Example float_inf_unfixed_refuted_hyps_sat_other : ex_fparse src_float_inf_marker = None.
Proof. vm_compute. reflexivity. Qed.

(* by definition of float_to (NaN raises) and pod_set *)
Theorem float_nan_rejected_unchanged : forall (F : Type) (frepr : F -> str) (fparse : str -> option (fl F)) (feq : F -> F -> bool) dflt w a e,
  snd (pod_set (float_codec F frepr fparse feq dflt) w a e (Some FNaN)) <> None
  /\ fst (pod_set (float_codec F frepr fparse feq dflt) w a e (Some FNaN)) = e.
Proof. exact float_nan_rejected. Qed.
Print Assumptions float_nan_rejected_unchanged.

(* by definition of float_to (-inf raises) and pod_set *)
Theorem float_neg_inf_rejected_unchanged : forall (F : Type) (frepr : F -> str) (fparse : str -> option (fl F)) (feq : F -> F -> bool) dflt w a e,
  snd (pod_set (float_codec F frepr fparse feq dflt) w a e (Some FNInf)) <> None
  /\ fst (pod_set (float_codec F frepr fparse feq dflt) w a e (Some FNInf)) = e.
Proof. exact float_ninf_rejected. Qed.
Print Assumptions float_neg_inf_rejected_unchanged.

(* HTML: what is read back is repair(h); PARTIAL — idempotence of lxml's repair is a hypothesis here
   (html_reassign_stable) and is only sampled by the harness. *)
Theorem html_roundtrip : forall (repair : str -> str) dflt w a e h, xml_ok (repair h) = true -> h <> dflt -> may_write w a e ->
  pod_set (html_codec repair dflt) w a e (Some h) = (attr_set a (repair h) e, None)
  /\ pod_get (html_codec repair dflt) a (attr_set a (repair h) e) = ROk (Some (repair h)).
Proof. exact html_attr_rt. Qed.
Print Assumptions html_roundtrip.
Example html_roundtrip_hyps_sat :
  xml_ok (ex_repair ex_html) = true /\ ex_html <> [] /\ may_write true ex_id ex_elem /\ ex_repair ex_html <> ex_html.
Proof. split; [vm_compute; reflexivity|]. split; [discriminate|]. split; [left; reflexivity|vm_compute; discriminate]. Qed.

Theorem html_reassign_stable_partial : forall (repair : str -> str), (forall h, repair (repair h) = repair h) ->
  forall dflt a e h, xml_ok (repair h) = true -> repair h <> dflt ->
  pod_set (html_codec repair dflt) true a (attr_set a (repair h) e) (Some (repair h)) = (attr_set a (repair h) e, None).
Proof. exact html_reassign. Qed.
Print Assumptions html_reassign_stable_partial.
Example html_reassign_stable_partial_hyps_sat :
  (forall h, ex_repair (ex_repair h) = ex_repair h) /\ xml_ok (ex_repair ex_html) = true /\ ex_repair ex_html <> [].
Proof. split; [exact ex_repair_idem|]. split; [vm_compute; reflexivity|vm_compute; discriminate]. Qed.

(* PVMT selector rules *)
(* by definition of pvmt_codec: the witness is [pv_raw v] and [xml_ok d] is the hypothesis itself *)
Theorem pvmt_rules_roundtrip : forall dflt v, xml_ok (pv_raw v) = true ->
  exists d, c_to (pvmt_codec dflt) v = ROk d /\ xml_ok d = true /\ c_from (pvmt_codec dflt) d = ROk (PVRules (pv_raw v)).
Proof. exact pvmt_rt. Qed.
Print Assumptions pvmt_rules_roundtrip.
Example pvmt_rules_roundtrip_hyps_sat : xml_ok (pv_raw (PVStr [97;61;34;98;34])) = true.    (* a="b" given as a plain str *)
Proof. vm_compute. reflexivity. Qed.

(* ---------------------------------------------------------------- 4. after save and reload *)
(* The attribute escaper of loader/exs.py (class regenerated from ESCAPE_CHARS) followed by an XML
   attribute-value reader returns every string unchanged (TAB/LF/CR, quotes, markup, DEL included). *)
Theorem saved_attribute_reads_back : forall s, exists t, escape_attr s = ROk t /\ attr_read t = Some s.
Proof. exact escape_read. Qed.
Print Assumptions saved_attribute_reads_back.

(* ---------------------------------------------------------------- 5. linked text *)
(* For a canonical document (leading text, then links each followed by text) the escaper applied to
   the parse of its user-facing form yields its stored form, text after links included.  That the two
   parses are what lxml returns, and that unescape_linked_text renders the stored form back, is checked
   on the implementation only. *)
Theorem linked_text_roundtrip : forall (name_of : str -> str) (c : cdoc),
  lt_escape true (fst c) (cdoc_nodes name_of c) = ROk (stored (cdoc_frags c)).
Proof. exact lt_escape_stored. Qed.
Print Assumptions linked_text_roundtrip.

(* the escaper without the tail (the unfixed helpers.escape_linked_text) loses text *)
Theorem linked_text_tail_needed : exists (c : cdoc),
  lt_escape false (fst c) (cdoc_nodes (fun _ => []) c) <> ROk (stored (cdoc_frags c)).
Proof. exact lt_tail_needed. Qed.
Print Assumptions linked_text_tail_needed.

(* ---------------------------------------------------------------- hypotheses are satisfiable *)
Example may_write_ex : may_write false [105;100] [([110;97;109;101], [120])].
Proof. right. reflexivity. Qed.
Example dt_valid_ex : dt_valid {| d_y := 2024; d_mo := 2; d_d := 29; d_h := 23; d_mi := 59; d_s := 59; d_us := 999999;
                                 d_naive := false; d_oneg := true; d_omin := 330 |}.
Proof. unfold dt_valid; cbn. repeat split; try reflexivity; try discriminate. Qed.
Example dt_ex : c_to (dt_codec local_utc) {| d_y := 2024; d_mo := 2; d_d := 29; d_h := 23; d_mi := 59; d_s := 59; d_us := 999999;
                                            d_naive := false; d_oneg := true; d_omin := 330 |}
  = ROk [50;48;50;52;45;48;50;45;50;57;84;50;51;58;53;57;58;53;57;46;57;57;57;45;48;53;51;48].
Proof. vm_compute. reflexivity. Qed.
(* a float stand-in satisfying the three float hypotheses *)
Example float_hyps_ex :
  let frepr := fun _ : unit => [48;46;48] in
  let fparse := fun s => if str_eqb s [48;46;48] then Some (FFin tt) else None in
  (forall f, fparse (frepr f) = Some (FFin f)) /\ (forall f, xml_ok (frepr f) = true) /\ fparse src_float_inf_marker = None.
Proof. cbn. repeat split; intros []; reflexivity. Qed.
Example html_hyps_ex : forall h : str, (fun x : str => x) ((fun x : str => x) h) = (fun x : str => x) h.
Proof. reflexivity. Qed.
Example int_ex : Z_dec (-1000000000000000000000000000000)%Z
  = [45;49;48;48;48;48;48;48;48;48;48;48;48;48;48;48;48;48;48;48;48;48;48;48;48;48;48;48;48;48;48;48].
Proof. vm_compute. reflexivity. Qed.
Example escape_ex : escape_attr [97;10;34;38;60;62;127] =
  ROk [97;38;35;120;65;59;38;113;117;111;116;59;38;97;109;112;59;38;108;116;59;62;38;35;120;55;70;59].
Proof. vm_compute. reflexivity. Qed.
