(* C18 — SVG output is well-formed, complete and self-contained.
   Property theorems only; each is closed by [exact] of a lemma proved in Proofs/.
   The subject is Model/SvgDraw.v (the drawing pipeline as a function to an abstract SVG: viewBox,
   groups, ids under <defs>, referenced ids), instantiated in Model/SvgInst.v with the tables that
   tools/gen_svgtables.py regenerates from the tree under check on every run, and Model/SvgText.v
   (word wrapping, the XML writer's escaping).  The model is tied to the implementation by the
   correspondence run of harness/c18.py (w_render, w_intround, w_wrap, w_escape_text, w_escape_attr). *)
From Coq Require Import ZArith NArith QArith List Bool.
Import ListNotations.
From V Require Import Model.Val Model.SvgTypes Model.SvgDraw Model.SvgInst Model.SvgText Gen.SvgTables
  Proofs.SvgDrawP Proofs.SvgInstP Proofs.SvgTextP.
Open Scope N_scope.

(* 1. viewBox = rounded viewport plus the fixed margin: 10 on every side, taken from the source
      (DiagramMetadata.__init__), rounding int(v + 1/2) taken from _json_enc._intround. *)
Theorem viewbox_spec : forall x y w h,
  viewbox (Some (x, y, w, h)) = ((intround x - 10)%Z, (intround y - 10)%Z, (intround w + 20)%Z, (intround h + 20)%Z)
  /\ viewbox None = ((-10)%Z, (-10)%Z, 20%Z, 20%Z).
Proof. intros. split; reflexivity. Qed.
Print Assumptions viewbox_spec.

(* 1a. the rounding: for coordinates >= -1/2 it is round-half-up (within 1/2 of the value) ... *)
Theorem intround_is_rounding : forall q, (-(1#2) <= q)%Q ->
  (inject_Z (intround q) <= q + (1#2) /\ q - (1#2) < inject_Z (intround q))%Q.
Proof. exact intround_half_nonneg. Qed.
Print Assumptions intround_is_rounding.
(* 1b. ... and for every coordinate (negative ones are truncated towards zero after the shift) it is
       less than 3/2 away, so the margin of 10 always keeps the viewport inside the viewBox *)
Theorem intround_error_bound : forall q,
  (q - (3#2) < inject_Z (intround q) /\ inject_Z (intround q) < q + (3#2))%Q.
Proof. exact intround_half_any. Qed.
Print Assumptions intround_error_bound.

(* 2. exactly one group per visible element, in diagram order, carrying the element's id and a
      class attribute that starts "<Kind> <styleclass>"; for every diagram class, every element list
      of any length and every table.  Hidden elements (own flag, hidden or collapsed ancestor, hidden
      edge end) contribute nothing. *)
Theorem one_group_per_visible : forall T dc els st,
  draw_all T dc (encode_contents els) = Some st ->
  d_groups st = map (fun e => (o_id (e_obj e), group_class (e_obj e))) (filter (fun e => negb (elem_hidden e)) els).
Proof.
  intros T dc els st H. rewrite (draw_all_groups T dc _ st H). unfold encode_contents. now rewrite map_map.
Qed.
Print Assumptions one_group_per_visible.

Theorem group_carries_class : forall o,
  exists rest, group_class o = kind_word (o_kind o) ++ 32 :: o_class o ++ rest.
Proof. exact group_class_shape. Qed.
Print Assumptions group_carries_class.

Theorem hidden_absent : forall els o,
  In o (encode_contents els) <-> exists e, In e els /\ elem_hidden e = false /\ e_obj e = o.
Proof. exact encode_in. Qed.
Print Assumptions hidden_absent.

Theorem hidden_below_hidden_or_collapsed : forall e h c rest1 rest2,
  e_anc e = rest1 ++ (h, c) :: rest2 -> h || c = true -> elem_hidden e = true.
Proof. exact hidden_by_ancestor. Qed.
Print Assumptions hidden_below_hidden_or_collapsed.

(* 3. reference closure over the regenerated tables — finite domain, the bound is the table:
      every diagram class of STYLES (and none), every element kind, every style class STYLES knows for
      that diagram class or __GLOBAL__ plus every class of the symbol registry and every port class,
      every label / floating-label / feature shape of [shapes_of], every override of [override_menu]
      (none, fill colour, fill gradient, stroke, stroke+width+gradient, text colour, text gradient):
      drawing the element does not raise and every url(#..)/href="#.." it writes, including the ones
      inside the symbols it deploys, has its definition under <defs>. *)
Theorem refs_closed_all : forall dc kc sh ov,
  In dc diagram_classes -> In kc (kinds_classes dc) -> In sh (shapes_of (fst kc)) -> In ov override_menu ->
  closed1 dc (mk_obj kc sh ov) = true.
Proof. exact refs_closed_all_lemma. Qed.
Print Assumptions refs_closed_all.

Theorem refs_closed_all_defined : forall dc kc sh ov st,
  In dc diagram_classes -> In kc (kinds_classes dc) -> In sh (shapes_of (fst kc)) -> In ov override_menu ->
  draw_obj TBL dc st0 (mk_obj kc sh ov) = Some st -> incl (doc_refs TBL st) (doc_defs TBL st).
Proof. exact refs_closed_all_incl. Qed.
Print Assumptions refs_closed_all_defined.

(* 3'. whole drawings: ANY number of elements of that domain (ids and contexts arbitrary), in any order,
       hidden ones included, for every diagram class of the tables: if drawing does not raise, every
       reference in the document - written by a draw function or sitting inside a deployed symbol - has
       its definition under <defs>.  Proved by an invariant over the drawing loop (deco cache closed under
       declared dependencies; references so far within the deployed ids), with the per-element and
       per-symbol facts evaluated over the regenerated tables. *)
Theorem diagram_refs_closed : forall dc els st,
  In dc diagram_classes -> Forall (fun e => in_domain dc (e_obj e)) els ->
  draw_all TBL dc (encode_contents els) = Some st -> incl (doc_refs TBL st) (doc_defs TBL st).
Proof. exact diagram_refs_closed_lemma. Qed.
Print Assumptions diagram_refs_closed.

(* 3''. the same for arbitrary tables and arbitrary elements, from the two local conditions *)
Theorem drawing_closed_from_local : forall (T : tables) dc objs st,
  tab_closed T -> forallb (obj_closed T dc) objs = true -> draw_all T dc objs = Some st ->
  incl (doc_refs T st) (doc_defs T st).
Proof. exact draw_all_closed. Qed.
Print Assumptions drawing_closed_from_local.

(* 3a. the symbol registry itself: the element a factory returns carries the registry key as id, and
       every reference inside a symbol is defined inside it or inside a declared dependency *)
Theorem symbol_registry_closed : forall r, In r SYMBOLS ->
  sy_id r = sy_key r /\ In (sy_key r) (sy_ids r) /\
  incl (sy_refs r) (sy_ids r ++ flat_map (row_ids TBL) (sy_deps r)).
Proof. exact symbol_registry_closed_lemma. Qed.
Print Assumptions symbol_registry_closed.

(* 3b. REFUTED parts of the full statement (faithful model = current code; both are listed in
       known_findings.d/C18.json):
       - a "symbol" element whose class has no registered symbol falls back to the Error symbol, which
         is deployed under its own id while the <use> refers to "<class>Symbol";
       - a marker given as a style override is referenced but only the default marker is deployed. *)
Definition no_such_class : str := [78;111;83;117;99;104;67;108;97;115;115].   (* NoSuchClass *)
Theorem symbol_fallback_refuted : exists o,
  o_kind o = KSymbol /\ has_icon TBL (o_class o) = false /\ closed1 [] o = false.
Proof. exists (mk_obj (KSymbol, no_such_class) (false, O, O) []). repeat split; vm_compute; reflexivity. Qed.
Print Assumptions symbol_fallback_refuted.

Definition s_ArrowMark : str := [65;114;114;111;119;77;97;114;107].
Theorem marker_override_refuted : exists o,
  o_kind o = KEdge /\ o_over o = [(s_marker_end, SvStr s_ArrowMark)] /\ closed1 [] o = false.
Proof.
  exists (mk_obj (KEdge, no_such_class) (false, O, O) [(s_marker_end, SvStr s_ArrowMark)]).
  repeat split; vm_compute; reflexivity.
Qed.
Print Assumptions marker_override_refuted.

(* 4. label text.  (a) word wrapping, for ANY text-extent function and width: the lines, read as word
      lists, concatenate to exactly the words of the label, no line is empty, and a line wider than
      the width is a single word. *)
Theorem wrap_preserves_words : forall (ext : str -> Z) (width : Z) (ws : list str),
  concat (wrapw ext width [] ws) = ws /\ Forall (fun l => l <> []) (wrapw ext width [] ws).
Proof. intros. split; [apply wrapw_concat|apply wrapw_nonempty]. Qed.
Print Assumptions wrap_preserves_words.

Theorem wrap_lines_fit : forall (ext : str -> Z) (width : Z) (ws : list str),
  Forall (fun l => (exists w, l = [w]) \/ (ext (joinsp l) <=? width)%Z = true) (wrapw ext width [] ws).
Proof. intros. apply wrapw_fits. now left. Qed.
Print Assumptions wrap_lines_fit.

(* (b) escaping: what the XML writer emits for character data / attribute values contains no '<', '>'
      (and no double quote in attributes), and a reader gets the original string back — markup-significant
      characters are escaped, never interpreted. *)
Theorem text_escaped : forall s,
  unescape (escape_text s) = s /\ forall c, In c (escape_text s) -> c <> LT /\ c <> GT.
Proof. intro s. split; [apply unescape_escape_text|apply escape_text_no_markup]. Qed.
Print Assumptions text_escaped.

Theorem attr_escaped : forall s,
  unescape (escape_attr s) = s /\ forall c, In c (escape_attr s) -> c <> LT /\ c <> GT /\ c <> QUOT.
Proof. intro s. split; [apply unescape_escape_attr|apply escape_attr_no_markup]. Qed.
Print Assumptions attr_escaped.

(* (c) together: the <tspan> contents of a label read back as the wrapped lines *)
Theorem label_escaped : forall (ext : str -> Z) (width : Z) (ws : list str),
  map unescape (map escape_text (split_into_lines ext width ws)) = split_into_lines ext width ws
  /\ concat (wrapw ext width [] ws) = ws.
Proof. exact label_roundtrip. Qed.
Print Assumptions label_escaped.

(* hypotheses are satisfiable / the definitions compute *)
Example ex_hidden_child :
  elem_hidden (mkE (mkO KBox None [] [] [] false O O) false [(false, true)] []) = true.
Proof. reflexivity. Qed.
Example ex_intround_neg : intround (-(7#5)) = 0%Z /\ intround (5#2) = 3%Z /\ intround (-(5#2)) = (-2)%Z.
Proof. repeat split. Qed.
Example ex_in_domain : in_domain [] (mkO KBox (Some [120]) [67;108;97;115;115] [[99]] [] true O O).   (* a labelled Box of class "Class" *)
Proof. exists (KBox, [67;108;97;115;115]), (true, O, O), []. repeat split; vm_compute; tauto. Qed.
Example ex_domain_nonempty : In ([] : str) diagram_classes /\ In (@nil (str * sval)) override_menu.
Proof. split; now left. Qed.
