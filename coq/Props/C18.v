(* C18 — SVG output is well-formed, complete and self-contained.
   Property theorems only; each is closed by [exact] of a lemma proved in Proofs/.
   The subject is Model/SvgDraw.v (the drawing pipeline as a function to an abstract SVG: viewBox,
   groups, ids under <defs>, referenced ids), instantiated in Model/SvgInst.v with the tables that
   tools/gen_svgtables.py regenerates from the tree under check on every run, and Model/SvgText.v
   (word wrapping, the XML writer's escaping).  The model is tied to the implementation by the
   correspondence run of harness/c18.py (w_render, w_intround, w_wrap, w_escape_text, w_escape_attr). *)
From Coq Require Import ZArith NArith QArith List Bool.
Import ListNotations.
From V Require Import Model.Val Model.SvgTypes Model.SvgDraw Model.SvgInst Model.SvgText Gen.SvgTables
  Proofs.SvgDrawP Proofs.SvgInstP Proofs.SvgTextP.
Open Scope N_scope.

(* ---- a concrete, non-trivial instance used by the ..._hyps_sat examples below: a "Class Diagram Blank"
        diagram with a labelled Class box (two features, two context ids, gradient fill override), a Class
        box hidden below a collapsed parent, and a Generalization edge (marker-end in STYLES, one label,
        stroke override) *)
Definition ex_dc : str := [67;108;97;115;115;32;68;105;97;103;114;97;109;32;66;108;97;110;107].   (* Class Diagram Blank *)
Definition s_Class : str := [67;108;97;115;115].
Definition s_Generalization : str := [71;101;110;101;114;97;108;105;122;97;116;105;111;110].
Definition ex_kc : kind * str := (KBox, s_Class).
Definition ex_sh : bool * nat * nat := (true, 0, 2)%nat.
Definition ex_ov : list (str * sval) := [(s_fill, SvGrad [h1; h2])].
Definition ex_box : jobj := mkO KBox (Some [98;49]) s_Class [[99;50]; [99;49]] ex_ov true 0%nat 2%nat.
Definition ex_hid : jobj := mkO KBox (Some [98;50]) s_Class [] [] false 0%nat 0%nat.
Definition ex_edge : jobj := mkO KEdge (Some [101;49]) s_Generalization [] [(s_stroke, SvRGB h2)] false 1%nat 0%nat.
Definition ex_els : list delem :=
  [ mkE ex_box false [(false, false)] [];
    mkE ex_hid false [(false, false); (false, true); (true, false)] [];
    mkE ex_edge false [] [(false, [(false, false)]); (false, [])] ].
Ltac in_list := vm_compute; repeat (first [left; reflexivity | right]).
(* membership in a long regenerated table: compute the index with a boolean test, let the VM check the entry *)
Fixpoint find_idx {A} (p : A -> bool) (l : list A) : nat :=
  match l with [] => O | x :: r => if p x then O else S (find_idx p r) end.
Ltac in_by_idx p := match goal with |- In ?x ?l =>
  apply (nth_error_In l (find_idx p l)); vm_compute; reflexivity end.
Definition kc_is (kc y : kind * str) : bool := Z.eqb (kind_code (fst y)) (kind_code (fst kc)) && seqb (snd y) (snd kc).
Ltac is_some_by_vm := match goal with |- exists x, ?t = Some x =>
  let E := fresh in destruct t as [x|] eqn:E; [now exists x|vm_compute in E; discriminate E] end.

(* 1. viewBox = rounded viewport plus the fixed margin: 10 on every side, taken from the source
      (DiagramMetadata.__init__), rounding int(v + 1/2) taken from _json_enc._intround. *)
(* by definition of viewbox_with and of the regenerated constants PAD_POS_X/Y = -10, PAD_SIZE_X/Y = 20 *)
Theorem viewbox_spec : forall x y w h,
  viewbox (Some (x, y, w, h)) = ((intround x - 10)%Z, (intround y - 10)%Z, (intround w + 20)%Z, (intround h + 20)%Z)
  /\ viewbox None = ((-10)%Z, (-10)%Z, 20%Z, 20%Z).
Proof. intros. split; reflexivity. Qed.
Print Assumptions viewbox_spec.

(* 1a. the rounding: for coordinates >= -1/2 it is round-half-up (within 1/2 of the value) ... *)
Theorem intround_is_rounding : forall q, (-(1#2) <= q)%Q ->
  (inject_Z (intround q) <= q + (1#2) /\ q - (1#2) < inject_Z (intround q))%Q.
Proof. exact intround_half_nonneg. Qed.
Print Assumptions intround_is_rounding.
Example intround_is_rounding_hyps_sat :   (* 7/3 rounds to 2; the boundary value -1/2 rounds to 0 *)
  (-(1#2) <= 7#3)%Q /\ intround (7#3) = 2%Z /\ (-(1#2) <= -(1#2))%Q /\ intround (-(1#2)) = 0%Z.
Proof. repeat split; apply Qle_bool_imp_le; reflexivity. Qed.
(* 1b. ... and for every coordinate (negative ones are truncated towards zero after the shift) it is
       less than 3/2 away, so the margin of 10 always keeps the viewport inside the viewBox *)
Theorem intround_error_bound : forall q,
  (q - (3#2) < inject_Z (intround q) /\ inject_Z (intround q) < q + (3#2))%Q.
Proof. exact intround_half_any. Qed.
Print Assumptions intround_error_bound.

(* 2. exactly one group per visible element, in diagram order, carrying the element's id and a
      class attribute that starts "<Kind> <styleclass>"; for every diagram class, every element list
      of any length and every table.  Hidden elements (own flag, hidden or collapsed ancestor, hidden
      edge end) contribute nothing. *)
Theorem one_group_per_visible : forall T dc els st,
  draw_all T dc (encode_contents els) = Some st ->
  d_groups st = map (fun e => (o_id (e_obj e), group_class (e_obj e))) (filter (fun e => negb (elem_hidden e)) els).
Proof.
  intros T dc els st H. rewrite (draw_all_groups T dc _ st H). unfold encode_contents. now rewrite map_map.
Qed.
Print Assumptions one_group_per_visible.
Example one_group_per_visible_hyps_sat :   (* the three-element diagram above draws; two groups result *)
  exists st, draw_all TBL ex_dc (encode_contents ex_els) = Some st.
Proof. is_some_by_vm. Qed.
Example one_group_per_visible_instance :
  option_map (fun st => map fst (d_groups st)) (draw_all TBL ex_dc (encode_contents ex_els)) = Some [Some [98;49]; Some [101;49]].
Proof. vm_compute. reflexivity. Qed.

(* by definition of group_class *)
Theorem group_carries_class : forall o,
  exists rest, group_class o = kind_word (o_kind o) ++ 32 :: o_class o ++ rest.
Proof. exact group_class_shape. Qed.
Print Assumptions group_carries_class.

(* by definition of encode_contents (map e_obj after filtering on elem_hidden), read element-wise *)
Theorem hidden_absent : forall els o,
  In o (encode_contents els) <-> exists e, In e els /\ elem_hidden e = false /\ e_obj e = o.
Proof. exact encode_in. Qed.
Print Assumptions hidden_absent.
Example hidden_absent_hyps_sat :   (* both sides of the equivalence hold for the edge of ex_els; the hidden box is absent *)
  In ex_edge (encode_contents ex_els)
  /\ (exists e, In e ex_els /\ elem_hidden e = false /\ e_obj e = ex_edge)
  /\ ~ In ex_hid (encode_contents ex_els).
Proof.
  split; [right; left; reflexivity|]. split.
  - eexists. split; [right; right; left; reflexivity|]. split; reflexivity.
  - intros [H|[H|[]]]; discriminate H.
Qed.

Theorem hidden_below_hidden_or_collapsed : forall e h c rest1 rest2,
  e_anc e = rest1 ++ (h, c) :: rest2 -> h || c = true -> elem_hidden e = true.
Proof. exact hidden_by_ancestor. Qed.
Print Assumptions hidden_below_hidden_or_collapsed.
Example hidden_below_hidden_or_collapsed_hyps_sat :   (* the second element of ex_els: its grandparent is collapsed *)
  e_anc (mkE ex_hid false [(false, false); (false, true); (true, false)] []) = [(false, false)] ++ (false, true) :: [(true, false)]
  /\ false || true = true.
Proof. split; reflexivity. Qed.

(* 3. reference closure over the regenerated tables — finite domain, the bound is the table:
      every diagram class of STYLES (and none), every element kind, every style class STYLES knows for
      that diagram class or __GLOBAL__ plus every class of the symbol registry and every port class,
      every label / floating-label / feature shape of [shapes_of], every override of [override_menu]
      (none, fill colour, fill gradient, stroke, stroke+width+gradient, text colour, text gradient):
      drawing the element does not raise and every url(#..)/href="#.." it writes, including the ones
      inside the symbols it deploys, has its definition under <defs>. *)
Theorem refs_closed_all : forall dc kc sh ov,
  In dc diagram_classes -> In kc (kinds_classes dc) -> In sh (shapes_of (fst kc)) -> In ov override_menu ->
  closed1 dc (mk_obj kc sh ov) = true.
Proof. exact refs_closed_all_lemma. Qed.
Print Assumptions refs_closed_all.
Example refs_closed_all_hyps_sat :   (* labelled Class box with two features and a gradient fill override in a Class Diagram Blank *)
  In ex_dc diagram_classes /\ In ex_kc (kinds_classes ex_dc) /\ In ex_sh (shapes_of (fst ex_kc)) /\ In ex_ov override_menu.
Proof. split; [in_by_idx (seqb ex_dc)|]. split; [in_by_idx (kc_is ex_kc)|]. split; in_list. Qed.

Theorem refs_closed_all_defined : forall dc kc sh ov st,
  In dc diagram_classes -> In kc (kinds_classes dc) -> In sh (shapes_of (fst kc)) -> In ov override_menu ->
  draw_obj TBL dc st0 (mk_obj kc sh ov) = Some st -> incl (doc_refs TBL st) (doc_defs TBL st).
Proof. exact refs_closed_all_incl. Qed.
Print Assumptions refs_closed_all_defined.
Example refs_closed_all_defined_hyps_sat :   (* the same combination, and drawing it yields a state *)
  exists st, In ex_dc diagram_classes /\ In ex_kc (kinds_classes ex_dc) /\ In ex_sh (shapes_of (fst ex_kc)) /\ In ex_ov override_menu
             /\ draw_obj TBL ex_dc st0 (mk_obj ex_kc ex_sh ex_ov) = Some st.
Proof.
  assert (exists st, draw_obj TBL ex_dc st0 (mk_obj ex_kc ex_sh ex_ov) = Some st) as [st E] by is_some_by_vm.
  exists st. destruct refs_closed_all_hyps_sat as (A & B & C & D).
  split; [exact A|]. split; [exact B|]. split; [exact C|]. split; [exact D|exact E].
Qed.

(* 3'. whole drawings: ANY number of elements of that domain (ids and contexts arbitrary), in any order,
       hidden ones included, for every diagram class of the tables: if drawing does not raise, every
       reference in the document - written by a draw function or sitting inside a deployed symbol - has
       its definition under <defs>.  Proved by an invariant over the drawing loop (deco cache closed under
       declared dependencies; references so far within the deployed ids), with the per-element and
       per-symbol facts evaluated over the regenerated tables. *)
Theorem diagram_refs_closed : forall dc els st,
  In dc diagram_classes -> Forall (fun e => in_domain dc (e_obj e)) els ->
  draw_all TBL dc (encode_contents els) = Some st -> incl (doc_refs TBL st) (doc_defs TBL st).
Proof. exact diagram_refs_closed_lemma. Qed.
Print Assumptions diagram_refs_closed.
Example diagram_refs_closed_hyps_sat :   (* ex_els: every element (the hidden one included) is in the domain, and the diagram draws *)
  exists st, In ex_dc diagram_classes /\ Forall (fun e => in_domain ex_dc (e_obj e)) ex_els
             /\ draw_all TBL ex_dc (encode_contents ex_els) = Some st.
Proof.
  destruct one_group_per_visible_hyps_sat as [st E]. exists st.
  destruct refs_closed_all_hyps_sat as (Hdc & Hkc & Hsh & Hov). split; [exact Hdc|]. split; [|exact E].
  constructor; [|constructor; [|constructor; [|constructor]]].
  - exists ex_kc, ex_sh, ex_ov.
    split; [exact Hkc|]. split; [exact Hsh|]. split; [exact Hov|]. repeat split.
  - exists ex_kc, (false, 0, 0)%nat, [].
    split; [exact Hkc|]. split; [in_list|]. split; [in_list|]. repeat split.
  - exists (KEdge, s_Generalization), (false, 1, 0)%nat, [(s_stroke, SvRGB h2)].
    split; [in_by_idx (kc_is (KEdge, s_Generalization))|]. split; [in_list|]. split; [in_list|]. repeat split.
Qed.

(* 3''. the same for arbitrary tables and arbitrary elements, from the two local conditions *)
Theorem drawing_closed_from_local : forall (T : tables) dc objs st,
  tab_closed T -> forallb (obj_closed T dc) objs = true -> draw_all T dc objs = Some st ->
  incl (doc_refs T st) (doc_defs T st).
Proof. exact draw_all_closed. Qed.
Print Assumptions drawing_closed_from_local.
Example drawing_closed_from_local_hyps_sat :   (* the regenerated tables and the visible objects of ex_els *)
  exists st, tab_closed TBL /\ forallb (obj_closed TBL ex_dc) (encode_contents ex_els) = true
             /\ draw_all TBL ex_dc (encode_contents ex_els) = Some st.
Proof.
  destruct one_group_per_visible_hyps_sat as [st E]. exists st.
  split; [apply tab_closed_from_rows; exact rows_closed_true|]. split; [vm_compute; reflexivity|exact E].
Qed.

(* 3a. the symbol registry itself: the element a factory returns carries the registry key as id, and
       every reference inside a symbol is defined inside it or inside a declared dependency *)
Theorem symbol_registry_closed : forall r, In r SYMBOLS ->
  sy_id r = sy_key r /\ In (sy_key r) (sy_ids r) /\
  incl (sy_refs r) (sy_ids r ++ flat_map (row_ids TBL) (sy_deps r)).
Proof. exact symbol_registry_closed_lemma. Qed.
Print Assumptions symbol_registry_closed.
Example symbol_registry_closed_hyps_sat :   (* the first registered symbol that contains a reference *)
  exists r, In r SYMBOLS /\ sy_refs r <> [].
Proof.
  destruct (find (fun r => match sy_refs r with [] => false | _ => true end) SYMBOLS) as [r|] eqn:E;
    [|vm_compute in E; discriminate E].
  apply find_some in E as [Hin Hr]. exists r. split; [exact Hin|]. intro H. rewrite H in Hr. discriminate Hr.
Qed.

(* 3b. REFUTED parts of the full statement (faithful model = current code; both are listed in
       known_findings.d/C18.json):
       - a "symbol" element whose class has no registered symbol falls back to the Error symbol, which
         is deployed under its own id while the <use> refers to "<class>Symbol";
       - a marker given as a style override is referenced but only the default marker is deployed. *)
Definition no_such_class : str := [78;111;83;117;99;104;67;108;97;115;115].   (* NoSuchClass *)
Theorem symbol_fallback_refuted : exists o,
  o_kind o = KSymbol /\ has_icon TBL (o_class o) = false /\ closed1 [] o = false.
Proof. exists (mk_obj (KSymbol, no_such_class) (false, O, O) []). repeat split; vm_compute; reflexivity. Qed.
Print Assumptions symbol_fallback_refuted.

Definition s_ArrowMark : str := [65;114;114;111;119;77;97;114;107].
Theorem marker_override_refuted : exists o,
  o_kind o = KEdge /\ o_over o = [(s_marker_end, SvStr s_ArrowMark)] /\ closed1 [] o = false.
Proof.
  exists (mk_obj (KEdge, no_such_class) (false, O, O) [(s_marker_end, SvStr s_ArrowMark)]).
  repeat split; vm_compute; reflexivity.
Qed.
Print Assumptions marker_override_refuted.

(* 4. label text.  (a) word wrapping, for ANY text-extent function and width: the lines, read as word
      lists, concatenate to exactly the words of the label, no line is empty, and a line wider than
      the width is a single word. *)
Theorem wrap_preserves_words : forall (ext : str -> Z) (width : Z) (ws : list str),
  concat (wrapw ext width [] ws) = ws /\ Forall (fun l => l <> []) (wrapw ext width [] ws).
Proof. intros. split; [apply wrapw_concat|apply wrapw_nonempty]. Qed.
Print Assumptions wrap_preserves_words.

Theorem wrap_lines_fit : forall (ext : str -> Z) (width : Z) (ws : list str),
  Forall (fun l => (exists w, l = [w]) \/ (ext (joinsp l) <=? width)%Z = true) (wrapw ext width [] ws).
Proof. intros. apply wrapw_fits. now left. Qed.
Print Assumptions wrap_lines_fit.
(* no hypotheses; [ext] is universally quantified.  One concrete extent function (number of characters),
   width 5, the words "ab" "c" "defghij" "k": the over-long word sits alone on its line *)
Example wrap_instance :
  wrapw (fun s => Z.of_nat (length s)) 5%Z [] [[97;98]; [99]; [100;101;102;103;104;105;106]; [107]]
  = [[[97;98]; [99]]; [[100;101;102;103;104;105;106]]; [[107]]].
Proof. reflexivity. Qed.

(* (b) escaping: what the XML writer emits for character data / attribute values contains no '<', '>'
      (and no double quote in attributes), and a reader gets the original string back — markup-significant
      characters are escaped, never interpreted. *)
Theorem text_escaped : forall s,
  unescape (escape_text s) = s /\ forall c, In c (escape_text s) -> c <> LT /\ c <> GT.
Proof. intro s. split; [apply unescape_escape_text|apply escape_text_no_markup]. Qed.
Print Assumptions text_escaped.
Example text_escaped_hyps_sat :   (* a, LT, AMP, GT, QUOT : the inner hypothesis In c (escape_text s) holds e.g. for '&' *)
  escape_text [97; LT; AMP; GT; QUOT] = [97] ++ e_lt ++ e_amp ++ e_gt ++ [QUOT] /\ In AMP (escape_text [97; LT; AMP; GT; QUOT]).
Proof. split; [reflexivity|]. right; left; reflexivity. Qed.

Theorem attr_escaped : forall s,
  unescape (escape_attr s) = s /\ forall c, In c (escape_attr s) -> c <> LT /\ c <> GT /\ c <> QUOT.
Proof. intro s. split; [apply unescape_escape_attr|apply escape_attr_no_markup]. Qed.
Print Assumptions attr_escaped.
Example attr_escaped_hyps_sat :   (* a, LT, QUOT, newline : the inner hypothesis In c (escape_attr s) holds e.g. for '&' *)
  escape_attr [97; LT; QUOT; 10] = [97] ++ e_lt ++ e_quot ++ e_nl /\ In AMP (escape_attr [97; LT; QUOT; 10]).
Proof. split; [reflexivity|]. right; left; reflexivity. Qed.

(* (c) together: the <tspan> contents of a label read back as the wrapped lines *)
Theorem label_escaped : forall (ext : str -> Z) (width : Z) (ws : list str),
  map unescape (map escape_text (split_into_lines ext width ws)) = split_into_lines ext width ws
  /\ concat (wrapw ext width [] ws) = ws.
Proof. exact label_roundtrip. Qed.
Print Assumptions label_escaped.

(* hypotheses are satisfiable / the definitions compute *)
Example ex_hidden_child :
  elem_hidden (mkE (mkO KBox None [] [] [] false O O) false [(false, true)] []) = true.
Proof. reflexivity. Qed.
Example ex_intround_neg : intround (-(7#5)) = 0%Z /\ intround (5#2) = 3%Z /\ intround (-(5#2)) = (-2)%Z.
Proof. repeat split. Qed.
Example ex_in_domain : in_domain [] (mkO KBox (Some [120]) [67;108;97;115;115] [[99]] [] true O O).   (* a labelled Box of class "Class" *)
Proof. exists (KBox, [67;108;97;115;115]), (true, O, O), []. repeat split; vm_compute; tauto. Qed.
Example ex_domain_nonempty : In ([] : str) diagram_classes /\ In (@nil (str * sval)) override_menu.
Proof. split; now left. Qed.
