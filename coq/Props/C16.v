(* C16 — Saving to a git repository creates exactly one faithful commit, or none.
   Property theorems only; each is closed by [exact] of a lemma of Proofs/GitTxP.v.

   Subject: [run_tx o body s f] of Model/GitTx.v — _GitTransaction (capellambse/filehandler/git.py, with
   proposed_fixes/C16-dry-run-reset.diff) over an abstract repository, for ALL options [o], ALL bodies
   (sequences of writes — closed or left open —, a caller exception, a failing open, a nested transaction),
   ALL fault positions [f] (None, or the index of the step that raises instead of running) and ALL states
   [s] that satisfy [inv]:
     clean s   : work tree = index = tree of HEAD, no transaction open
     in_sync s : handler.revision resolves to the work tree's HEAD
   [inv] holds after the handler is constructed and is preserved by every transaction that stays on the
   handler's own branch (inv_preserved, history_inv).  A successful save to a *different* remote_branch
   breaks [in_sync]; what the code then does is shown by [remote_branch_diverges_refuted] (known finding).

   Trees are association lists; [teq] is equality of the git trees they denote. *)
From Coq Require Import ZArith NArith List Bool.
Import ListNotations.
From V Require Import Model.Val Model.GitTx Proofs.GitTxP Proofs.GitTxTie.

(* ---- the concrete instance used by the [*_hyps_sat] examples below (each shows that ALL hypotheses of
        one theorem hold together): a repository with two commits on refs/heads/m and a second branch
        refs/heads/o at the root commit; the handler sits on the tip of m; its work tree lists the files in
        another order than the index (so [teq], not [=], is what [clean] needs); the committer identity comes
        half from the options, half from the environment ---- *)
Definition hs_main : str := s_refs_heads ++ [109]%N.           (* refs/heads/m *)
Definition hs_other : str := s_refs_heads ++ [111]%N.          (* refs/heads/o *)
Definition hs_a : str := [97]%N.
Definition hs_b : str := [98]%N.
Definition hs_n : str := [110]%N.
Definition hs_t0 : tree := [(hs_a, [48]%N); (hs_b, [48]%N)].
Definition hs_t1 : tree := [(hs_b, [49]%N); (hs_a, [48]%N)].
Definition hs_s : st :=
  {| refs := [(hs_other, 0); (hs_main, 1)];
     commits := [{| cparent := None; ctree := hs_t0; cmsg := [105]%N; cauthor := ([118]%N, [118]%N) |};
                 {| cparent := Some 0; ctree := hs_t1; cmsg := [106]%N; cauthor := ([118]%N, [118]%N) |}];
     head := 1; index := hs_t1; wt := [(hs_a, [48]%N); (hs_b, [49]%N)]; slot := false; rev := hs_main;
     env_author := ([118]%N, [119]%N) |}.
Definition hs_plain : opts :=
  {| dry_run := false; ignore_empty := true; remote_branch := None; author := ([65]%N, []); msg := [120]%N |}.
Definition hs_dry : opts :=
  {| dry_run := true; ignore_empty := true; remote_branch := None; author := ([65]%N, []); msg := [120]%N |}.
Definition hs_cafe : opts :=      (* remote_branch = "cafe": looks like an abbreviated object name *)
  {| dry_run := false; ignore_empty := true; remote_branch := Some [99;97;102;101]%N; author := ([], []); msg := [120]%N |}.
(* a.0 -> 1 -> 3 (last write wins), new file n *)
Definition hs_body : list bop := [BWrite hs_a [49]%N true; BWrite hs_n [50]%N true; BWrite hs_a [51]%N true].
(* writes that end where HEAD's tree already is: a is changed and changed back, b is rewritten *)
Definition hs_same : list bop := [BWrite hs_a [55]%N true; BWrite hs_a [48]%N true; BWrite hs_b [49]%N true].
Example hs_inv : inv hs_s.
Proof.
  split; [split; [|split]|split].
  - apply tree_eqb_true; vm_compute; reflexivity.
  - apply teq_refl.
  - reflexivity.
  - reflexivity.
  - cbn; auto.
Qed.

(* 1. A save that succeeds creates exactly one commit [c]: it is the only new object, its parent is the
      commit the handler was at, its tree is the parent's tree with exactly the (closed) written files
      replaced by the written bytes (last write wins), message and author are the given ones; exactly the
      target ref moves, to [c]; the work tree sits on [c], is clean, and the handler is idle. *)
Theorem commit_exactly_one : forall o body s f c s' f',
  inv s -> run_tx o body s f = (Committed c, s', f') ->
  c = length (commits s) /\
  (exists cm, commits s' = commits s ++ [cm] /\ cparent cm = Some (head s) /\
              written_tree body (tree_of (head s) (commits s)) (ctree cm) /\
              cmsg cm = msg o /\ cauthor cm = commit_author o s) /\
  (forall r, lookup_ref r (refs s') = if str_eqb r (target_ref o s) then Some c else lookup_ref r (refs s)) /\
  head s' = c /\ slot s' = false /\ (all_closed body = true -> clean s').
Proof. exact commit_exactly_one_l. Qed.
Print Assumptions commit_exactly_one.
(* all hypotheses together: three writes, a fault scheduled for a step (40) the transaction never reaches *)
Example commit_exactly_one_hyps_sat :
  exists s', inv hs_s /\ run_tx hs_plain hs_body hs_s (Some 40) = (Committed 2, s', Some 25).
Proof. eexists; split; [exact hs_inv|vm_compute; reflexivity]. Qed.

(* 2. A save that changes no file creates no commit and moves no ref (ignore_empty, the default) —
      whatever else happens (any fault, dry run or not). *)
Theorem no_change_no_commit : forall o body s f out s' f',
  inv s -> ignore_empty o = true -> unchanged body (tree_of (head s) (commits s)) ->
  run_tx o body s f = (out, s', f') -> commits s' = commits s /\ refs s' = refs s.
Proof. exact no_change_no_commit_l. Qed.
Print Assumptions no_change_no_commit.
Example hs_same_unchanged : unchanged hs_same (tree_of (head hs_s) (commits hs_s)).
Proof.
  intros p b; simpl.
  destruct (str_eqb p hs_b) eqn:Eb.
  { apply g_str_eqb_eq in Eb; subst p. intros H; inversion H; reflexivity. }
  destruct (str_eqb p hs_a) eqn:Ea; [|discriminate].
  apply g_str_eqb_eq in Ea; subst p. intros H; inversion H; reflexivity.
Qed.
(* all hypotheses together, once without a fault (NoChange) and once with git add failing (step 6) *)
Example no_change_no_commit_hyps_sat :
  exists s', inv hs_s /\ ignore_empty hs_plain = true /\ unchanged hs_same (tree_of (head hs_s) (commits hs_s)) /\
             run_tx hs_plain hs_same hs_s None = (NoChange, s', None).
Proof. eexists; split; [exact hs_inv|]. split; [reflexivity|]. split; [exact hs_same_unchanged|vm_compute; reflexivity]. Qed.
Example no_change_no_commit_hyps_sat_2 :
  exists s', inv hs_s /\ ignore_empty hs_plain = true /\ unchanged hs_same (tree_of (head hs_s) (commits hs_s)) /\
             run_tx hs_plain hs_same hs_s (Some 6) = (Aborted E_OSError, s', None).
Proof. eexists; split; [exact hs_inv|]. split; [reflexivity|]. split; [exact hs_same_unchanged|vm_compute; reflexivity]. Qed.

(* 2'. conversely a commit made under ignore_empty changes at least one written file *)
Theorem commit_not_empty : forall o body s f c s' f',
  inv s -> ignore_empty o = true -> run_tx o body s f = (Committed c, s', f') ->
  exists p, last_write p body <> None /\ last_write p body <> lookup p (tree_of (head s) (commits s)).
Proof. exact commit_not_empty_l. Qed.
Print Assumptions commit_not_empty.
Example commit_not_empty_hyps_sat :
  exists s', inv hs_s /\ ignore_empty hs_plain = true /\ run_tx hs_plain hs_body hs_s None = (Committed 2, s', None).
Proof. eexists; split; [exact hs_inv|]. split; [reflexivity|vm_compute; reflexivity]. Qed.

(* 3. A transaction aborted by an error — the caller's, a failing open, or a fault injected at ANY step
      before or inside the commit phase — moves no ref, leaves HEAD, index and work tree as they were and
      the handler ready for the next transaction ([inv s'] is all the other theorems ask for). *)
Theorem abort_restores : forall o body s f e s' f',
  inv s -> run_tx o body s f = (Aborted e, s', f') ->
  refs s' = refs s /\ head s' = head s /\ teq (wt s') (wt s) /\ teq (index s') (index s) /\ inv s'.
Proof. exact abort_restores_l. Qed.
Print Assumptions abort_restores.
(* all hypotheses together: commit-tree (step 12, after rev-parse, 3 x 3 body steps, write-tree, cat-file)
   fails; and the caller raising with a file still open *)
Example abort_restores_hyps_sat :
  exists s', inv hs_s /\ run_tx hs_plain hs_body hs_s (Some 12) = (Aborted E_OSError, s', None).
Proof. eexists; split; [exact hs_inv|vm_compute; reflexivity]. Qed.
Example abort_restores_hyps_sat_2 :
  exists s', inv hs_s /\ run_tx hs_plain [BWrite hs_b [50]%N true; BWrite hs_n [49]%N false; BRaise] hs_s None
                        = (Aborted E_KeyError, s', None).
Proof. eexists; split; [exact hs_inv|vm_compute; reflexivity]. Qed.

(* 3'. the same for a dry run; the commit object it creates is the faithful one, referenced by nothing *)
Theorem dry_run_restores : forall o body s f c s' f',
  inv s -> run_tx o body s f = (DryRun c, s', f') ->
  refs s' = refs s /\ head s' = head s /\ teq (wt s') (wt s) /\ teq (index s') (index s) /\ inv s' /\
  exists cm, commits s' = commits s ++ [cm] /\ cparent cm = Some (head s) /\
             written_tree body (tree_of (head s) (commits s)) (ctree cm).
Proof. exact dry_run_restores_l. Qed.
Print Assumptions dry_run_restores.
Example dry_run_restores_hyps_sat :
  exists s', inv hs_s /\ run_tx hs_dry hs_body hs_s None = (DryRun 2, s', None).
Proof. eexists; split; [exact hs_inv|vm_compute; reflexivity]. Qed.

(* 3''. a transaction that could not be opened (object-like target, rev-parse failed, one already open)
        changes nothing at all *)
Theorem refused_unchanged : forall o body s f e s' f',
  inv s -> run_tx o body s f = (Refused e, s', f') -> s' = s.
Proof. exact refused_unchanged_l. Qed.
Print Assumptions refused_unchanged.
(* under [inv] (slot free, revision resolves) a refusal comes from rev-parse failing (fault at step 0)
   or from an object-like target name *)
Example refused_unchanged_hyps_sat :
  inv hs_s /\ run_tx hs_plain hs_body hs_s (Some 0) = (Refused E_OSError, hs_s, None).
Proof. split; [exact hs_inv|vm_compute; reflexivity]. Qed.
Example refused_unchanged_hyps_sat_2 :
  inv hs_s /\ run_tx hs_cafe hs_body hs_s (Some 3) = (Refused E_ValueError, hs_s, Some 3).
Proof. split; [exact hs_inv|vm_compute; reflexivity]. Qed.

(* 4. After any transaction, whatever its outcome, the handler has no transaction open ... *)
Theorem handler_idle_after : forall o body s f out s' f',
  inv s -> run_tx o body s f = (out, s', f') -> slot s' = false.
Proof. exact idle_after. Qed.
Print Assumptions handler_idle_after.
(* all hypotheses together, in the least friendly outcome: the caller raises and `git clean` of the
   rollback (step 5) is interrupted *)
Example handler_idle_after_hyps_sat :
  exists s', inv hs_s /\ run_tx hs_plain [BWrite hs_n [49]%N true; BRaise] hs_s (Some 5) = (RollbackFailed E_OSError, s', None).
Proof. eexists; split; [exact hs_inv|vm_compute; reflexivity]. Qed.

(* ... and without an injected fault the rollback always completes and a new transaction is only ever
   refused for its target name. *)
Theorem no_fault_no_failure : forall o body s out s' f',
  inv s -> run_tx o body s None = (out, s', f') ->
  (forall e, out <> RollbackFailed e) /\
  (objectlike (target_name o s) = false -> forall e, out <> Refused e).
Proof. exact nofault_l. Qed.
Print Assumptions no_fault_no_failure.
Example no_fault_no_failure_hyps_sat :
  exists s', inv hs_s /\ run_tx hs_plain [BWrite hs_n [49]%N true; BBadOpen hs_b] hs_s None = (Aborted E_FileNotFound, s', None)
             /\ objectlike (target_name hs_plain hs_s) = false.
Proof. eexists; split; [exact hs_inv|]. split; [vm_compute; reflexivity|reflexivity]. Qed.

(* 5. [inv] is an invariant of every transaction on the handler's own branch whose files were closed and
      whose rollback was not itself interrupted ... *)
Theorem inv_preserved : forall o body s f out s' f',
  inv s -> all_closed body = true -> run_tx o body s f = (out, s', f') ->
  (forall e, out <> RollbackFailed e) ->
  (forall c, out = Committed c -> target_ref o s = rev s) -> inv s'.
Proof. exact inv_preserved_l. Qed.
Print Assumptions inv_preserved.
Example inv_preserved_hyps_sat :
  exists s', inv hs_s /\ all_closed hs_body = true /\ run_tx hs_plain hs_body hs_s None = (Committed 2, s', None) /\
             (forall e, Committed 2 <> RollbackFailed e) /\
             (forall c, Committed 2 = Committed c -> target_ref hs_plain hs_s = rev hs_s).
Proof.
  eexists; split; [exact hs_inv|]. split; [reflexivity|]. split; [vm_compute; reflexivity|].
  split; [discriminate|reflexivity].
Qed.

(* ... hence of whole histories of any length: 1-4 apply to every transaction of the history. *)
Theorem history_inv : forall hs s, inv s -> Forall (own_tx s) hs ->
  (forall e s', ~ In (RollbackFailed e, s') (run_history hs s)) ->
  Forall (fun r => inv (snd r)) (run_history hs s).
Proof. exact history_inv_l. Qed.
Print Assumptions history_inv.
(* all hypotheses together for a history of five steps with four different outcomes: a commit, an
   aborted dry run (file.write fails), a write outside any transaction, a no-change save, a dry run *)
Definition hs_history : list hop :=
  [HTx hs_plain hs_body None; HTx hs_dry [BWrite hs_b [50]%N true] (Some 2); HWriteOutside;
   HTx hs_plain [BWrite hs_a [51]%N true] None; HTx hs_dry [BWrite hs_b [50]%N true] None].
Example history_inv_hyps_sat :
  inv hs_s /\ Forall (own_tx hs_s) hs_history /\
  (forall e s', ~ In (RollbackFailed e, s') (run_history hs_history hs_s)) /\
  map fst (run_history hs_history hs_s) = [Committed 2; Aborted E_OSError; Refused E_RuntimeError; NoChange; DryRun 3].
Proof.
  split; [exact hs_inv|]. split; [repeat constructor|]. split; [|vm_compute; reflexivity].
  intros e s' H.
  assert (B : forallb (fun r => match fst r with RollbackFailed _ => false | _ => true end)
                      (run_history hs_history hs_s) = true) by (vm_compute; reflexivity).
  rewrite forallb_forall in B. specialize (B _ H). discriminate B.
Qed.

(* 6. refusals *)
(* by definition of run_tx (its first test, _GitTransaction.__init__) *)
Theorem refuses_objectlike_target : forall o body s f,
  objectlike (target_name o s) = true -> run_tx o body s f = (Refused E_ValueError, s, f).
Proof. exact refuses_objectlike_l. Qed.
Print Assumptions refuses_objectlike_target.
Example refuses_objectlike_target_hyps_sat : objectlike (target_name hs_cafe hs_s) = true.
Proof. reflexivity. Qed.

(* by definition of open_w *)
Theorem write_requires_transaction : forall s, slot s = false -> open_w s = Some E_RuntimeError.
Proof. intros s H; unfold open_w; rewrite H; reflexivity. Qed.
Print Assumptions write_requires_transaction.
Example write_requires_transaction_hyps_sat : slot hs_s = false.
Proof. reflexivity. Qed.

(* ------------------------------------------------------------------ witnesses *)
Definition r_main : str := s_refs_heads ++ [109]%N.           (* refs/heads/m *)
Definition r_other : str := s_refs_heads ++ [111]%N.          (* refs/heads/o *)
Definition f_a : str := [97]%N.
Definition f_b : str := [98]%N.
Definition f_n : str := [110]%N.
Definition t0 : tree := [(f_a, [48]%N); (f_b, [48]%N)].
Definition s0 : st :=
  {| refs := [(r_main, 0); (r_other, 0)];
     commits := [{| cparent := None; ctree := t0; cmsg := []; cauthor := ([], []) |}];
     head := 0; index := t0; wt := t0; slot := false; rev := r_main; env_author := ([118]%N, [118]%N) |}.
Definition o_plain : opts :=
  {| dry_run := false; ignore_empty := true; remote_branch := None; author := ([], []); msg := [120]%N |}.
Definition o_dry : opts :=
  {| dry_run := true; ignore_empty := true; remote_branch := None; author := ([], []); msg := [120]%N |}.
Definition o_other : opts :=
  {| dry_run := false; ignore_empty := true; remote_branch := Some [111]%N; author := ([], []); msg := [120]%N |}.

(* the hypotheses are satisfiable, and every outcome occurs *)
Example inv_s0 : inv s0.
Proof. repeat split; try (intro; reflexivity); simpl; auto. Qed.
Example ex_committed : exists s', run_tx o_plain [BWrite f_a [49]%N true; BWrite f_n [50]%N true] s0 None = (Committed 1, s', None).
Proof. eexists; vm_compute; reflexivity. Qed.
Example ex_nochange : exists s', run_tx o_plain [BWrite f_a [48]%N true] s0 None = (NoChange, s', None).
Proof. eexists; vm_compute; reflexivity. Qed.
Example ex_unchanged : unchanged [BWrite f_a [48]%N true] (tree_of (head s0) (commits s0)).
Proof.
  intros p b; simpl. destruct (str_eqb p f_a) eqn:E; [|discriminate].
  intros H; inversion H; subst. apply g_str_eqb_eq in E; subst; reflexivity.
Qed.
Example ex_dry : exists s', run_tx o_dry [BWrite f_a [49]%N true] s0 None = (DryRun 1, s', None).
Proof. eexists; vm_compute; reflexivity. Qed.
(* a fault at git add (step 3), at commit-tree (step 6) and at update-ref (step 8) *)
Example ex_abort_add : exists s', run_tx o_plain [BWrite f_n [49]%N true] s0 (Some 3) = (Aborted E_OSError, s', None).
Proof. eexists; vm_compute; reflexivity. Qed.
Example ex_abort_commit : exists s', run_tx o_plain [BWrite f_n [49]%N true] s0 (Some 6) = (Aborted E_OSError, s', None).
Proof. eexists; vm_compute; reflexivity. Qed.
Example ex_abort_update_ref : exists s', run_tx o_plain [BWrite f_n [49]%N true] s0 (Some 8) = (Aborted E_OSError, s', None).
Proof. eexists; vm_compute; reflexivity. Qed.
Example ex_abort_caller : exists s', run_tx o_plain [BWrite f_n [49]%N false; BRaise] s0 None = (Aborted E_KeyError, s', None).
Proof. eexists; vm_compute; reflexivity. Qed.
Example ex_rollback_interrupted : exists s', run_tx o_plain [BWrite f_n [49]%N true; BRaise] s0 (Some 4) = (RollbackFailed E_OSError, s', None).
Proof. eexists; vm_compute; reflexivity. Qed.
Example ex_own_history : Forall (own_tx s0) [HTx o_plain [BWrite f_a [49]%N true] None; HTx o_dry [BWrite f_b [49]%N true] (Some 2); HWriteOutside].
Proof. repeat constructor. Qed.
Example ex_objectlike : objectlike (s_refs_heads ++ [99;97;102;101]%N) = true /\ objectlike r_main = false.
Proof. split; reflexivity. Qed.

(* 7. Outside the invariant the statement FAILS (known finding "diverged-head"): after a successful save to
      another branch (remote_branch) the work tree sits on the new commit while handler.revision still
      names the old one.  The next save — which writes only [f_n] — takes the OLD branch tip as parent
      although the handler was at c1, and its tree differs from that parent's also in [f_a], written by the
      previous transaction. *)
Theorem remote_branch_diverges_refuted :
  exists s1 s2 cm2,
    run_tx o_other [BWrite f_a [49]%N true] s0 None = (Committed 1, s1, None) /\
    run_tx o_other [BWrite f_n [50]%N true] s1 None = (Committed 2, s2, None) /\
    lookup_ref (rev s1) (refs s1) <> Some (head s1) /\
    nth_error (commits s2) 2 = Some cm2 /\
    head s1 = 1 /\ cparent cm2 = Some 0 /\
    last_write f_a [BWrite f_n [50]%N true] = None /\
    lookup f_a (ctree cm2) <> lookup f_a (tree_of 0 (commits s2)).
Proof.
  eexists; eexists; eexists.
  split; [vm_compute; reflexivity|].
  split; [vm_compute; reflexivity|].
  split; [vm_compute; discriminate|].
  split; [vm_compute; reflexivity|].
  split; [reflexivity|]. split; [reflexivity|]. split; [reflexivity|].
  vm_compute; discriminate.
Qed.
Print Assumptions remote_branch_diverges_refuted.
