(* C08 — Model-coupled lists behave like Python lists and write through. *)
From Coq Require Import ZArith List Bool.
Import ListNotations.
From V Require Import Model.Val Model.Lists Proofs.ListsP.
Open Scope Z_scope.

(* 1. containment and role lists: inserting at ANY index (negative, beyond both ends) among ANY
      interleaving of other child kinds gives exactly list.insert on the relation's view, and
      the children of other kinds keep their order *)
Theorem containment_insert_refines_list_insert : forall i x ks,
  NoDup (map fst ks) ->
  view (direct_insert i x ks) = py_insert i x (view ks) /\ others (direct_insert i x ks) = others ks.
Proof. exact direct_insert_refines. Qed.
Print Assumptions containment_insert_refines_list_insert.
(* hypothesis satisfiable: three members interleaved with two children of another kind, insertion at index -1 *)
Definition ex_kids : list kid := [(1, true); (8, false); (2, true); (9, false); (3, true)].
Example containment_insert_refines_list_insert_hyps_sat :
  NoDup (map fst ex_kids) /\ view (direct_insert (-1) 7 ex_kids) = [1; 2; 7; 3] /\ others ex_kids = [8; 9].
Proof. split; [cbn; repeat (apply NoDup_cons; [cbn; intuition discriminate|]); apply NoDup_nil|split; reflexivity]. Qed.

(* 2. deleting the member at a valid index gives del l[i]; other kinds untouched *)
Theorem containment_delete_refines_delitem : forall i ks k m, NoDup (map fst ks) ->
  py_index (length (view ks)) i = Some k -> nth_error (view ks) k = Some m ->
  Some (view (remove_kid m ks)) = py_delitem i (view ks) /\ others (remove_kid m ks) = others ks.
Proof. exact delete_refines. Qed.
Print Assumptions containment_delete_refines_delitem.
(* hypotheses satisfiable together: same parent, del l[-2] removes member 2 *)
Example containment_delete_refines_delitem_hyps_sat :
  NoDup (map fst ex_kids) /\ py_index (length (view ex_kids)) (-2) = Some 1%nat /\ nth_error (view ex_kids) 1 = Some 2.
Proof. split; [cbn; repeat (apply NoDup_cons; [cbn; intuition discriminate|]); apply NoDup_nil|split; reflexivity]. Qed.

(* 3. attribute-link lists *)
(* by definition of attr_insert: its body is literally that of py_insert (the proof is reflexivity); what ties
   attr_insert to AttrProxyAccessor.insert is the differential run of harness/c08.py *)
Theorem attribute_insert_refines : forall i x l, attr_insert i x l = py_insert i x l.
Proof. exact attr_insert_is_py_insert. Qed.
Print Assumptions attribute_insert_refines.
Theorem attribute_delete_refines_partial : forall l k x, NoDup l -> nth_error l k = Some x ->
  attr_delete x l = firstn k l ++ skipn (S k) l.
Proof. exact attr_delete_refines. Qed.
Print Assumptions attribute_delete_refines_partial.
Example attribute_delete_refines_partial_hyps_sat : NoDup [5; 6; 7] /\ nth_error [5; 6; 7] 1 = Some 6.
Proof. split; [repeat (apply NoDup_cons; [cbn; intuition discriminate|]); apply NoDup_nil|reflexivity]. Qed.
(* without the NoDup guard the statement is false: deleting by value removes every occurrence *)
Theorem attribute_delete_refuted : attr_delete 5 [5; 6; 5] = [6] /\ py_delitem 0 [5; 6; 5] = Some [6; 5].
Proof. exact attr_delete_duplicates_refuted. Qed.
Print Assumptions attribute_delete_refuted.

(* 4. the position arithmetic found in the code before the fix violates (1) *)
Theorem old_arithmetic_refuted :
  (let ks := [(1, true); (2, true); (9, false)] in
   option_map view (direct_insert_old (-1) 7 ks) = Some [1; 2; 7] /\ py_insert (-1) 7 (view ks) = [1; 7; 2]) /\
  (direct_insert_old 5 7 [(1, true); (2, true)] = None /\ py_insert 5 7 [1; 2] = [1; 2; 7]).
Proof. split; [exact old_insert_minus1_refuted|exact old_insert_beyond_end_refuted]. Qed.
Print Assumptions old_arithmetic_refuted.

(* 5. slices: `l[a:b] = xs` / `del l[a:b]` for any bounds (negative, beyond the ends, None, inverted) *)
Theorem slice_assignment_length : forall (a b : option Z) (xs l : list Z),
  length (py_slice_set a b xs l) = (py_lo (length l) a + length xs + (length l - py_hi (length l) a b))%nat.
Proof. exact (@py_slice_set_length Z). Qed.
Print Assumptions slice_assignment_length.
(* every list is its prefix, its slice and its suffix: assigning a slice to itself changes nothing, assigning to [:] replaces all *)
Theorem slice_assignment_frame : forall (a b : option Z) (xs l : list Z),
  py_slice_set a b (py_slice a b l) l = l /\ py_slice_set None None xs l = xs.
Proof. intros. split; [apply py_slice_set_same|apply py_slice_set_whole]. Qed.
Print Assumptions slice_assignment_frame.
(* ElementListCouplingMixin.__delitem__ rewrites `del l[i]` as `del l[i : i + 1 or None]` *)
Theorem delitem_is_slice_deletion : forall (l : list Z) i k, py_index (length l) i = Some k ->
  py_delitem i l = Some (py_slice_del (Some i) (if i + 1 =? 0 then None else Some (i + 1)) l).
Proof. intros l i k H. unfold py_delitem. rewrite H. f_equal. symmetry. now apply delitem_as_slice. Qed.
Print Assumptions delitem_is_slice_deletion.
Example delitem_is_slice_deletion_hyps_sat : py_index (length [4; 5; 6]) (-1) = Some 2%nat /\ py_slice_del (Some (-1)) None [4; 5; 6] = [4; 5].
Proof. split; reflexivity. Qed.
(* deleting a slice of an attribute relation member by member is the Python slice deletion — when no object is held twice *)
Theorem attribute_slice_delete_refines_partial : forall a b l, NoDup l -> attr_slice_del a b l = py_slice_del a b l.
Proof. exact attr_slice_del_refines. Qed.
Print Assumptions attribute_slice_delete_refines_partial.
Theorem attribute_slice_delete_refuted :
  attr_slice_del (Some 2) None [1; 2; 3; 1] = [2] /\ py_slice_del (Some 2) None [1; 2; 3; 1] = [1; 2].
Proof. exact attr_slice_del_duplicates_refuted. Qed.
Print Assumptions attribute_slice_delete_refuted.

(* 6. fixed-length relations keep their length under ANY sequence of item assignment, slice assignment, slice and item
      deletion, insertion and whole-list assignment; a rejected operation leaves the list as it was (fixed_apply), an
      accepted one gives what the Python list gives *)
Theorem fixed_length_kept : forall fixed ops l, length l = fixed -> length (fold_left (fixed_apply fixed) ops l) = fixed.
Proof. exact fixed_run_keeps_length. Qed.
Print Assumptions fixed_length_kept.
Example fixed_length_kept_hyps_sat :
  fold_left (fixed_apply 2) [FSliceSet (Some 1) None []; FSetItem (-1) 9; FAssign [1; 2; 3]; FSliceSet (Some 0) (Some 1) [5]] [7; 8] = [5; 9].
Proof. reflexivity. Qed.
Theorem fixed_accepted_is_python : forall fixed l o r, fixed_step fixed l o = Some r ->
  match o with
  | FSetItem i x => py_setitem i x l = Some r
  | FSliceSet a b xs => r = py_slice_set a b xs l
  | FSliceDel a b => r = py_slice_del a b l
  | FDelItem i => py_delitem i l = Some r
  | FInsert i x => r = py_insert i x l
  | FAssign xs => r = xs
  end.
Proof. exact fixed_step_is_python. Qed.
Print Assumptions fixed_accepted_is_python.
(* the guard `len > fixed` instead of `len <> fixed` lets a slice assignment shrink a full list *)
Theorem relaxed_length_guard_refuted : fixed_step_gt_guard 2 [7; 8] (Some 1) None [] = Some [7].
Proof. exact relaxed_guard_refuted. Qed.
Print Assumptions relaxed_length_guard_refuted.
