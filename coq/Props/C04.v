(* C04 — UUIDs stay unique at load, creation and save; failed creation leaves no trace. *)
From Coq Require Import ZArith List Bool.
Import ListNotations.
From V Require Import Model.Val Model.Graph Proofs.GraphP.
Open Scope Z_scope.

(* 1. the duplicate check at load and save accepts exactly when explicitly overridden or no id is
      shared between two fragments — any number of fragments, any id sets *)
Theorem duplicate_check_spec : forall ignore trees,
  check_duplicate_uuids ignore trees = ROk tt <->
  ignore = true \/
  (forall i j ti tj, (i < j)%nat -> nth_error trees i = Some ti -> nth_error trees j = Some tj -> forall x, In x ti -> ~ In x tj).
Proof. exact check_duplicate_uuids_spec. Qed.
Print Assumptions duplicate_check_spec.

(* 1'. within one fragment: indexing a well-formed fragment succeeds and is exact (load_ok); the
       duplicate check inside idcache_index is [index_ids]: an id already owned by another element
       is an error unless duplicates are ignored *)
Theorem within_fragment_duplicate_rejected : forall h h' u m,
  h' <> h -> get u m = Some (Some h') -> index_ids false h [u] m = RErr E_Corrupt.
Proof.
  intros h h' u m Hne Hg. unfold index_ids. cbn. rewrite Hg.
  destruct (h' =? h) eqn:E; [apply Z.eqb_eq in E; congruence|reflexivity].
Qed.
Print Assumptions within_fragment_duplicate_rejected.

(* 2. generated ids are used nowhere in any loaded fragment; a requested free id is honoured;
      a requested id that is in use is refused *)
Theorem generated_uuid_is_fresh : forall frs want stream u, FragsOK frs ->
  generate_uuid frs want stream = ROk u -> scan_uuid frs u = [] /\ (forall w, want = Some w -> u = w).
Proof. exact generate_uuid_fresh. Qed.
Print Assumptions generated_uuid_is_fresh.
Theorem in_use_uuid_refused : forall frs w stream h, FragsOK frs -> In h (scan_uuid frs w) ->
  generate_uuid frs (Some w) stream = RErr E_ValueError.
Proof. exact want_in_use_fails. Qed.
Print Assumptions in_use_uuid_refused.

(* 3. a creation = reserve; attach + index.  Undoing it by the paired detach restores exact
      indexes; undoing it by a bare tree removal (what ModelElement.__init__'s handler does for
      the already-indexed nested children) does not *)
Theorem failed_create_needs_unindexing :
  exists fr fr', FragOK fr /\ step_frag false fr (DetachForgetful 0 [7]) = ROk fr' /\
    by_uuid [fr'] 42 = ROk 7 /\ scan_uuid [fr'] 42 = [] /\ ~ FragOK fr'.
Proof. exact forgetful_detach_refuted. Qed.
Print Assumptions failed_create_needs_unindexing.
Theorem paired_undo_restores : forall fr f hs, FragOK fr -> f = fname fr ->
  exists fr', step_frag false fr (Detach f hs) = ROk fr' /\ FragOK fr' /\ fnodes fr' = without hs (fnodes fr).
Proof. exact detach_preserves. Qed.
Print Assumptions paired_undo_restores.
