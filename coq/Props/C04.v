(* C04 — UUIDs stay unique at load, creation and save; failed creation leaves no trace. *)
From Coq Require Import ZArith List Bool.
Import ListNotations.
From V Require Import Model.Val Model.Graph Model.Create Proofs.GraphP Proofs.CreateP.
Open Scope Z_scope.

(* 1. the duplicate check at load and save accepts exactly when explicitly overridden or no id is
      shared between two fragments — any number of fragments, any id sets *)
Theorem duplicate_check_spec : forall ignore trees,
  check_duplicate_uuids ignore trees = ROk tt <->
  ignore = true \/
  (forall i j ti tj, (i < j)%nat -> nth_error trees i = Some ti -> nth_error trees j = Some tj -> forall x, In x ti -> ~ In x tj).
Proof. exact check_duplicate_uuids_spec. Qed.
Print Assumptions duplicate_check_spec.

(* 1'. within one fragment: indexing a well-formed fragment succeeds and is exact (load_ok); the
       duplicate check inside idcache_index is [index_ids]: an id already owned by another element
       is an error unless duplicates are ignored *)
Theorem within_fragment_duplicate_rejected : forall h h' u m,
  h' <> h -> get u m = Some (Some h') -> index_ids false h [u] m = RErr E_Corrupt.
Proof.
  intros h h' u m Hne Hg. unfold index_ids. cbn. rewrite Hg.
  destruct (h' =? h) eqn:E; [apply Z.eqb_eq in E; congruence|reflexivity].
Qed.
Print Assumptions within_fragment_duplicate_rejected.
(* hypotheses satisfiable: id 11 of the three-element fragment GraphP.d_frag is owned by element 2, not by 9 *)
Example within_fragment_duplicate_rejected_hyps_sat : 2 <> 9 /\ get 11 (idc (fidx d_frag)) = Some (Some 2).
Proof. split; [discriminate|reflexivity]. Qed.

(* 2. generated ids are used nowhere in any loaded fragment; a requested free id is honoured;
      a requested id that is in use is refused *)
Theorem generated_uuid_is_fresh : forall frs want stream u, FragsOK frs ->
  generate_uuid frs want stream = ROk u -> scan_uuid frs u = [] /\ (forall w, want = Some w -> u = w).
Proof. exact generate_uuid_fresh. Qed.
Print Assumptions generated_uuid_is_fresh.
(* hypotheses satisfiable on a two-fragment forest: the first two candidates of the stream are in use (one in each
   fragment), the third is returned; a requested free id is returned *)
Example generated_uuid_is_fresh_hyps_sat :
  FragsOK d_forest /\ generate_uuid d_forest None [10; 21; 77; 78] = ROk 77 /\ generate_uuid d_forest (Some 55) [] = ROk 55.
Proof. split; [exact d_forest_ok|split; reflexivity]. Qed.
Theorem in_use_uuid_refused : forall frs w stream h, FragsOK frs -> In h (scan_uuid frs w) ->
  generate_uuid frs (Some w) stream = RErr E_ValueError.
Proof. exact want_in_use_fails. Qed.
Print Assumptions in_use_uuid_refused.
Example in_use_uuid_refused_hyps_sat : FragsOK d_forest /\ In 7 (scan_uuid d_forest 21).
Proof. split; [exact d_forest_ok|now left]. Qed.

(* 3. a creation = reserve; attach + index.  Undoing it by the paired detach restores exact
      indexes; undoing it by a bare tree removal (what ModelElement.__init__'s handler does for
      the already-indexed nested children) does not *)
Theorem failed_create_needs_unindexing :
  exists fr fr', FragOK fr /\ step_frag false fr (DetachForgetful 0 [7]) = ROk fr' /\
    by_uuid [fr'] 42 = ROk 7 /\ scan_uuid [fr'] 42 = [] /\ ~ FragOK fr'.
Proof. exact forgetful_detach_refuted. Qed.
Print Assumptions failed_create_needs_unindexing.
Theorem paired_undo_restores : forall fr f hs, FragOK fr -> f = fname fr ->
  exists fr', step_frag false fr (Detach f hs) = ROk fr' /\ FragOK fr' /\ fnodes fr' = without hs (fnodes fr).
Proof. exact detach_preserves. Qed.
Print Assumptions paired_undo_restores.
Example paired_undo_restores_hyps_sat : FragOK d_frag /\ 0 = fname d_frag /\ length (without [2; 3] (fnodes d_frag)) = 1%nat.
Proof. split; [exact d_frag_ok|split; reflexivity]. Qed.

(* 4. a creation that fails after ANY number j of nested objects were already created (and indexed) — the
      sequence the code performs: reserve the id, attach+index the nested objects, then on failure un-index them,
      remove the element, drop the reservation — leaves the fragment exactly as before: same elements, and every
      lookup in the id / type / href indexes answers as before (nothing indexed, nothing reserved).
      Hypotheses = what generate_uuid and fresh lxml elements guarantee: the ids and handles of the new objects
      are not in use, and the new objects carry plain ids (no href, the id attribute kinds agree). *)
Theorem failed_creation_leaves_no_trace : forall fr rq j,
  let done := firstn j (r_nested rq) in
  fname fr = r_frag rq ->
  lk_id fr (r_uuid rq) = None ->
  Forall plain done -> NoDup (ids_of_nodes done) -> ~ In (r_uuid rq) (ids_of_nodes done) ->
  (forall u, In u (ids_of_nodes done) -> lk_id fr u = None) ->
  NoDup (map nh done) -> (forall n, In n (fnodes fr) -> ~ In (nh n) (map nh done)) ->
  (forall n, In n done -> lk_xt fr (nh n) = None) ->
  exists fr', create rq (Some j) [fr] = ROk [fr'] /\ fnodes fr' = fnodes fr /\
    (forall k, lk_id fr' k = lk_id fr k) /\ (forall k, lk_xt fr' k = lk_xt fr k) /\ (forall k, lk_hr fr' k = lk_hr fr k).
Proof. exact failed_create_restores. Qed.
Print Assumptions failed_creation_leaves_no_trace.
(* all nine hypotheses hold together: a request against the three-element fragment GraphP.d_frag with three nested
   objects, failing after two of them were created *)
Definition ex_rq : request :=
  mkReq 0 900 (mkNode 50 (Some 2) (Some 100) [900] [900] None)
        [mkNode 51 (Some 50) (Some 101) [901] [901] None; mkNode 52 (Some 50) (Some 101) [902] [902] None;
         mkNode 53 (Some 50) None [903] [903] None].
Example failed_creation_leaves_no_trace_hyps_sat :
  let fr := d_frag in let rq := ex_rq in let j := 2%nat in
  let done := firstn j (r_nested rq) in
  length done = 2%nat /\
  fname fr = r_frag rq /\
  lk_id fr (r_uuid rq) = None /\
  Forall plain done /\ NoDup (ids_of_nodes done) /\ ~ In (r_uuid rq) (ids_of_nodes done) /\
  (forall u, In u (ids_of_nodes done) -> lk_id fr u = None) /\
  NoDup (map nh done) /\ (forall n, In n (fnodes fr) -> ~ In (nh n) (map nh done)) /\
  (forall n, In n done -> lk_xt fr (nh n) = None).
Proof.
  cbv zeta. split; [reflexivity|]. split; [reflexivity|]. split; [reflexivity|].
  split; [repeat (apply Forall_cons; [split; reflexivity|]); apply Forall_nil|].
  split; [nodup_concrete|]. split; [cbn; intuition discriminate|].
  split; [intros u [<-|[<-|[]]]; reflexivity|].
  split; [nodup_concrete|].
  split; [intros n [<-|[<-|[<-|[]]]]; cbn; intuition discriminate|].
  intros n [<-|[<-|[]]]; reflexivity.
Qed.

(* the hypotheses are satisfiable, and the handler found before the fix (bare tree removal) leaves the nested id indexed *)
Example failed_creation_instance :
  let rq := mkReq 0 900 (mkNode 50 (Some 7) (Some 100) [900] [900] None) [mkNode 51 (Some 50) (Some 101) [901] [901] None] in
  exists fr', create rq (Some 1%nat) [demo_frag] = ROk [fr'] /\ fnodes fr' = fnodes demo_frag /\ lk_id fr' 901 = None /\ lk_id fr' 900 = None.
Proof. exact failed_create_hypotheses_satisfiable. Qed.
Example failed_creation_old_handler_refuted :
  let rq := mkReq 0 900 (mkNode 50 (Some 7) (Some 100) [900] [900] None) [mkNode 51 (Some 50) (Some 101) [901] [901] None] in
  exists fr', run false (create_ops_old rq 1) [demo_frag] = ROk [fr'] /\ fnodes fr' = fnodes demo_frag /\ lk_id fr' 901 = Some (Some 51) /\ lk_id demo_frag 901 = None.
Proof. exact failed_create_old_leaves_ghost. Qed.
