(* C09 — Deleting an object is all-or-nothing and leaves no reachable reference to it. *)
From Coq Require Import ZArith List Bool.
Import ListNotations.
From V Require Import Model.Val Model.Delete Proofs.DeleteP.
Open Scope Z_scope.

Definition deleted_ids (ns : list el) (ts : list Z) : list Z := ids_of (filter (fun n => below ns ts (e_h n)) ns).

(* 1. after a deletion no element that remains exposes a reference (attribute link or link
      element) to any target or any of their descendants — for every element graph and every LIST of targets
      (`del lst[i]` deletes one, `del lst[a:b]` / `del obj.attr` / a declarative `delete:` several at once) *)
Theorem delete_complete : forall ns ts n', In n' (o_nodes (delete_many ns ts)) ->
  (forall r, In r (e_refs n') -> ra_exposed r = true -> forall u, In u (ra_targets r) -> ~ In u (deleted_ids ns ts)) /\
  (forall u, e_link n' = Some u -> ~ In u (deleted_ids ns ts)).
Proof. exact no_exposed_reference_left. Qed.
Print Assumptions delete_complete.
(* hypotheses (outer and inner) satisfiable together: the demo graph at the end of the file plus a surviving link
   element 7 -> id 60; deleting 1 removes ids 10 and 20; survivor 3 keeps an exposed reference with a target, survivor
   7 keeps its link *)
Definition ex_ns : list el :=
  [mkEl 1 None [10] [] None; mkEl 2 (Some 1) [20] [] None;
   mkEl 3 None [30] [mkRef 7 true [10; 99; 20]] None; mkEl 4 (Some 3) [40] [] (Some 20); mkEl 5 (Some 4) [50] [] None;
   mkEl 6 None [60] [mkRef 8 false [20]] None; mkEl 7 (Some 3) [70] [] (Some 60)].
Example delete_complete_hyps_sat :
  let n3 := mkEl 3 None [30] [mkRef 7 true [99]] None in
  let n7 := mkEl 7 (Some 3) [70] [] (Some 60) in
  In n3 (o_nodes (delete_many ex_ns [1])) /\ In (mkRef 7 true [99]) (e_refs n3) /\ ra_exposed (mkRef 7 true [99]) = true /\
  In 99 (ra_targets (mkRef 7 true [99])) /\
  In n7 (o_nodes (delete_many ex_ns [1])) /\ e_link n7 = Some 60 /\ deleted_ids ex_ns [1] = [10; 20].
Proof. cbv zeta. vm_compute. intuition. Qed.

(* 2. the target and its descendants are gone, and removed / surviving elements partition the model *)
Theorem delete_removes_subtree : forall ns ts n', In n' (o_nodes (delete_many ns ts)) -> below ns ts (e_h n') = false.
Proof. exact deleted_subtree_gone. Qed.
Print Assumptions delete_removes_subtree.
Example delete_removes_subtree_hyps_sat : In (mkEl 6 None [60] [mkRef 8 false [20]] None) (o_nodes (delete_many ex_ns [1])).
Proof. vm_compute. intuition. Qed.
Theorem delete_partitions : forall ns ts h, In h (map e_h ns) <->
  In h (o_removed (delete_many ns ts)) \/ In h (map e_h (o_nodes (delete_many ns ts))).
Proof. exact partition_handles. Qed.
Print Assumptions delete_partitions.

(* 3. nothing else is removed or altered: every survivor keeps handle, parent, ids, link target, the
      names/order of its reference attributes; non-exposed references are untouched and exposed ones lose
      exactly the deleted ids, order kept; document order of the survivors is kept *)
Theorem delete_frame : forall ns ts n, In n ns ->
  (below ns ts (e_h n) ||
   below ns (map e_h (filter (fun n => negb (below ns ts (e_h n)) &&
                                      match e_link n with Some u => memz u (deleted_ids ns ts) | None => false end) ns)) (e_h n)) = false ->
  exists n', In n' (o_nodes (delete_many ns ts)) /\ e_h n' = e_h n /\ e_par n' = e_par n /\ e_ids n' = e_ids n /\ e_link n' = e_link n /\
    map ra_name (e_refs n') = map ra_name (e_refs n) /\
    Forall2 (fun r' r => if ra_exposed r then ra_targets r' = filter (fun u => negb (memz u (deleted_ids ns ts))) (ra_targets r) else r' = r)
            (e_refs n') (e_refs n).
Proof. exact frame. Qed.
Print Assumptions delete_frame.
(* hypotheses satisfiable: element 3 (holding the exposed reference list) is neither below the target nor below a
   removed link element *)
Example delete_frame_hyps_sat :
  let n := mkEl 3 None [30] [mkRef 7 true [10; 99; 20]] None in
  In n ex_ns /\
  (below ex_ns [1] (e_h n) ||
   below ex_ns (map e_h (filter (fun n => negb (below ex_ns [1] (e_h n)) &&
                                      match e_link n with Some u => memz u (deleted_ids ex_ns [1]) | None => false end) ex_ns)) (e_h n)) = false.
Proof. cbv zeta. split; [right; right; now left|reflexivity]. Qed.

(* 4. all-or-nothing *)
(* the Some branch holds by definition of delete_guarded; the content is the None branch (a refusal names a
   surviving refusing element) *)
Theorem delete_all_or_nothing : forall refuses ns t,
  match delete_guarded refuses ns t with
  | None => exists n, In n ns /\ refuses n = true /\ below ns [t] (e_h n) = false
  | Some o => o = delete ns t
  end.
Proof. exact guarded_all_or_nothing. Qed.
Print Assumptions delete_all_or_nothing.
(* both branches occur *)
Example delete_all_or_nothing_both_branches :
  delete_guarded (fun n => e_h n =? 3) ex_ns 1 = None /\ delete_guarded (fun n => e_h n =? 6) ex_ns 1 = Some (delete ex_ns 1).
Proof. split; reflexivity. Qed.

(* non-vacuity: a function (1, id 10) with a child (2, id 20), referenced by an attribute list of 3 and by the link
   element 4 (which has a child 5); 6 references 20 through an attribute no accessor exposes *)
Example demo :
  let ns := [mkEl 1 None [10] [] None; mkEl 2 (Some 1) [20] [] None;
             mkEl 3 None [30] [mkRef 7 true [10; 99; 20]] None; mkEl 4 (Some 3) [40] [] (Some 20); mkEl 5 (Some 4) [50] [] None;
             mkEl 6 None [60] [mkRef 8 false [20]] None] in
  o_removed (delete ns 1) = [1; 2; 4; 5] /\
  map (fun n => (e_h n, map ra_targets (e_refs n))) (o_nodes (delete ns 1)) = [(3, [[99]]); (6, [[20]])].
Proof. split; reflexivity. Qed.

(* 5. several targets at once: one holder whose relation refers to two of the deleted objects loses both; the
      once-per-(holder, relation) purge of a seeded change leaves the second behind *)
Example delete_many_demo :
  let ns := [mkEl 1 None [10] [] None; mkEl 2 None [20] [] None; mkEl 8 None [80] [] None;
             mkEl 3 None [30] [mkRef 7 true [10; 80; 20]] None; mkEl 4 (Some 3) [40] [] (Some 10); mkEl 5 (Some 3) [50] [] (Some 20)] in
  o_removed (delete_many ns [1; 2]) = [1; 2; 4; 5] /\
  map (fun n => (e_h n, map ra_targets (e_refs n))) (o_nodes (delete_many ns [1; 2])) = [(8, []); (3, [[80]])].
Proof. split; reflexivity. Qed.
Theorem purge_once_per_relation_refuted :
  let ns := [mkEl 1 None [10] [] None; mkEl 2 (Some 1) [20] [] None; mkEl 3 None [30] [mkRef 7 true [10; 20]] None] in
  o_nodes (delete_many_once ns [1]) = [mkEl 3 None [30] [mkRef 7 true [20]] None] /\
  o_nodes (delete_many ns [1]) = [mkEl 3 None [30] [mkRef 7 true []] None].
Proof. exact purge_once_refuted. Qed.
Print Assumptions purge_once_per_relation_refuted.

(* 6. all-or-nothing for ONE call with several targets (`del obj.attr`): a refusal anywhere leaves everything in place; deleting
      the same targets call by call (`del lst[a:b]`, known finding partial-multi-delete) does not have this property *)
Theorem delete_many_all_or_nothing : forall refuses ns ts,
  match delete_guarded_many refuses ns ts with
  | None => exists n, In n ns /\ refuses n = true /\ below ns ts (e_h n) = false
  | Some o => o = delete_many ns ts
  end.
Proof. exact guarded_many_all_or_nothing. Qed.
Print Assumptions delete_many_all_or_nothing.
Theorem delete_call_by_call_refuted :
  let ns := [mkEl 1 None [10] [] None; mkEl 2 None [20] [] None; mkEl 3 None [30] [mkRef 7 true [20]] None] in
  let refuses := fun n => e_h n =? 3 in
  delete_guarded_many refuses ns [1; 2] = None /\
  delete_seq refuses ns [1; 2] = ([mkEl 2 None [20] [] None; mkEl 3 None [30] [mkRef 7 true [20]] None], true).
Proof. exact sequential_delete_refuted. Qed.
Print Assumptions delete_call_by_call_refuted.
