(* C11 — Reading and rendering never change the model; introspection never crashes.
   The Coq part is deliberately small and is stated for what it is: in the object-graph model
   every read is a function of the state (validated operation by operation in C03/C06/C10), so
   any sequence of reads leaves the state — hence its serialization — unchanged and answers do
   not depend on order or repetition.  Whether the REAL read paths (accessors, repr/dir/HTML,
   validation, metrics, ReqIF export, diagram rendering) contain a hidden write is decided on
   the implementation by harness/c11.py: byte comparison of every fragment around every group
   of reads, exhaustive over objects, attributes, diagrams and formats. *)
From Coq Require Import ZArith List Bool.
Import ListNotations.
From V Require Import Model.Val Model.Graph Model.Reads Proofs.ReadsP.

(* by definition of Reads.step: a read step copies the state component, so this holds by construction of the model
   (see the header: the real content of C11 is the byte comparison on the implementation) *)
Theorem reads_preserve_state : forall frs rs, fst (session frs rs) = frs.
Proof. exact reads_pure. Qed.
Print Assumptions reads_preserve_state.

(* by definition of Reads.step / session: each answer is eval of the (unchanged) initial state *)
Theorem reads_any_order_any_repetition : forall frs rs, snd (session frs rs) = map (eval frs) rs.
Proof. exact reads_order_independent. Qed.
Print Assumptions reads_any_order_any_repetition.

(* by definition of access_step: the Read branch returns the state unchanged *)
Theorem only_pvmt_first_use_may_write : forall frs accs,
  Forall (fun a => match a with Read _ => True | PvmtFirstUse _ _ => False end) accs ->
  fold_left access_step accs (ROk frs) = ROk frs.
Proof. exact accesses_without_pvmt_pure. Qed.
Print Assumptions only_pvmt_first_use_may_write.
(* hypothesis satisfiable by a two-read session; and it is needed: a PVMT first use does change the state *)
Example only_pvmt_first_use_may_write_hyps_sat :
  Forall (fun a => match a with Read _ => True | PvmtFirstUse _ _ => False end) [Read (RByUuid 42); Read (RSearch [100; 101])].
Proof. repeat constructor. Qed.
Example pvmt_first_use_writes :
  let fr := mkFrag 0 Semantic [] empty_index in
  fold_left access_step [Read (RByUuid 42); PvmtFirstUse 0 [mkNode 7 None (Some 100) [42] [42] None]] (ROk [fr]) <> ROk [fr].
Proof. vm_compute. discriminate. Qed.

(* 4. diagram parsing sets an attribute for the time of one factory call (aird._common.temporary_attribute): whatever
      the element's attributes were — the attribute absent, present and empty, or present with a value, at any position —
      they are exactly the same afterwards, also when two such blocks are nested; inside the block the attribute reads
      as the temporary value and the others as before *)
From V Require Import Model.TempAttr Proofs.TempAttrP.
Theorem temporary_attribute_restores : forall k v k2 v2 a,
  with_temp k v a = a /\
  restore k (aget k a) (restore k2 (aget k2 (aset k v a)) (aset k2 v2 (aset k v a))) = a /\
  aget k (aset k v a) = Some v /\ (forall j, j <> k -> aget j (aset k v a) = aget j a).
Proof.
  intros. split; [apply with_temp_restores|split; [apply nested_temp_restores|split; [apply aget_aset_same|intros; now apply aget_aset_other]]].
Qed.
Print Assumptions temporary_attribute_restores.
(* restoring by truthiness drops an attribute that was present and empty *)
Theorem temporary_attribute_truthy_refuted :
  with_temp_truthy 7 5 [(1, 3); (7, 0)] = [(1, 3)] /\ with_temp 7 5 [(1, 3); (7, 0)] = [(1, 3); (7, 0)].
Proof. exact truthy_restore_refuted. Qed.
Print Assumptions temporary_attribute_truthy_refuted.
