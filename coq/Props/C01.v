(* C01 — Unmodified load-then-save reproduces Capella's files byte for byte; the XML writer is
   canonical.  Property theorems only; each is closed by [exact] of a lemma of Proofs/.
   The writer model (Model/SerExs.v) takes LINE_LENGTH, INDENT, the escape classes, the priority
   attributes, the namespace rank table and ALWAYS_EXPANDED_TAGS from Gen/ExsConsts.v, which is
   re-extracted from capellambse/loader/exs.py on every run. *)
From Coq Require Import ZArith NArith List Bool Permutation Sorted Lia.
Import ListNotations.
From V Require Import Model.Val Model.XmlTree Gen.ExsConsts Model.SerExs Model.XmlRead Proofs.SerExsP Proofs.XmlReadP.
Open Scope N_scope.

(* ---- 1. escaping -------------------------------------------------------------------------- *)
(* 1a. f"{ord(c):X}" read back as a hexadecimal character reference gives c — every number *)
Theorem hex_reference_roundtrip : forall n, hexval (hex n) 0 = Some n.
Proof. exact hex_roundtrip. Qed.
Print Assumptions hex_reference_roundtrip.

(* 1b. _escape with P_ESCAPE_TEXT followed by XML reference decoding is the identity on ALL
       code point strings (attribute values and character data) *)
Theorem escape_roundtrip : forall s, unescape (escape TEXT_CLASS s) = Some s.
Proof. exact escape_text_roundtrip. Qed.
Print Assumptions escape_roundtrip.

(* 1c. the escaped string contains no raw member of the class other than '&' — in particular no
       double quote, no '<', no C0 control, no DEL, no raw newline/tab/CR; and by 1b every '&' in it starts a
       well-formed reference (the strict decoder [unescape] rejects anything else) *)
Theorem escape_safe : forall s c, In c (escape TEXT_CLASS s) -> in_ranges c TEXT_CLASS && negb (c =? AMP) = false.
Proof. exact escape_text_safe. Qed.
Print Assumptions escape_safe.

(* 1c'. the class extracted from the source covers what XML requires to be escaped in a double-quoted
        attribute value and in character data, plus TAB/LF/CR (attribute value normalisation would
        turn them into spaces): a finite check on the regenerated table *)
Theorem text_class_covers_xml : forallb (fun c => in_ranges c TEXT_CLASS) [34; 38; 60; 9; 10; 13] = true.
Proof. vm_compute. reflexivity. Qed.
Print Assumptions text_class_covers_xml.

(* 1d. comments: the pattern _serialize_comment uses is applied once and is then stable
       (byte-canonical); it is NOT tree-faithful, XML does not decode references in comments:
       [comment_gt_not_faithful] *)
Theorem comment_escape_idempotent : forall s,
  escape COMMENT_TEXT_CLASS (escape COMMENT_TEXT_CLASS s) = escape COMMENT_TEXT_CLASS s.
Proof. exact escape_comment_idem. Qed.
Print Assumptions comment_escape_idempotent.
Example comment_gt_not_faithful : escape COMMENT_TEXT_CLASS [97; 62; 98] <> [97; 62; 98].
Proof. vm_compute. discriminate. Qed.

(* ---- 2. attribute order ------------------------------------------------------------------- *)
(* 2a. what _unmapped_attrs yields is: the priority attributes, then the namespace declarations,
       then the remaining attributes — names unmapped, values escaped *)
Theorem attr_order_spec : forall nsmap parent_ns attrs l,
  unmapped_attrs nsmap parent_ns attrs = ROk l ->
  exists pr rs,
    l = pr ++ ns_decls nsmap parent_ns ++ rs
    /\ map_res (unmap_attr nsmap) (prio_present attrs) = ROk pr
    /\ map_res (unmap_attr nsmap) (rest_attrs attrs) = ROk rs.
Proof. exact unmapped_attrs_spec. Qed.
Print Assumptions attr_order_spec.

(* 2b. every attribute of the element is written exactly once *)
Theorem attr_order_permutation : forall attrs, NoDup (map fst attrs) ->
  Permutation (prio_present attrs ++ rest_attrs attrs) attrs.
Proof. exact attrs_partition. Qed.
Print Assumptions attr_order_permutation.

(* 2c. the priority block follows the order of the tuple in the source (xmi:version, xmi:type,
       xmi:id, xsi:type) and holds exactly the ones present; the rest keeps tree order *)
Theorem attr_order_priority : forall attrs,
  map fst (prio_present attrs)
  = filter (fun k => match find_attr k attrs with Some _ => true | None => false end)
           (map (fun p => QN (fst p) (snd p)) PRIORITY_ATTRS).
Proof. exact prio_present_order. Qed.
Print Assumptions attr_order_priority.
Example priority_names :
  map (fun p => snd p) PRIORITY_ATTRS = [[118;101;114;115;105;111;110]; [116;121;112;101]; [105;100]; [116;121;112;101]].
Proof. reflexivity. Qed.

(* 2d. namespace declarations: those of element.nsmap the parent does not have, strongly sorted
       by (rank, prefix) where rank xmi = 0, xsi = 1, others = 2 (NS_RANKS), each as xmlns:<p> *)
Theorem ns_decl_order : forall nsmap parent_ns,
  exists l, ns_decls nsmap parent_ns = map (fun p => (XMLNS_PREFIX ++ fst p, snd p)) l
    /\ StronglySorted ns_le l
    /\ (forall p, In p l <-> In p nsmap /\ mem_str (fst p) parent_ns = false).
Proof. exact ns_decls_spec. Qed.
Print Assumptions ns_decl_order.
Example ns_order_example :
  map fst (ns_sort [([122], []); ([120;115;105], []); ([65], []); ([120;109;105], [])]) = [[120;109;105]; [120;115;105]; [65]; [122]].
Proof. reflexivity. Qed.

(* ---- 3. wrapping -------------------------------------------------------------------------- *)
(* 3a. in the attribute loop, pos is the true output column (names/values without raw newline —
       values are escaped, so they have none) *)
Theorem attr_pos_is_column : forall ll root aind ats, no_nl aind -> Forall attr_no_nl ats ->
  forall pos force, column (fst (lay_attrs ll root aind pos force ats)) pos = snd (lay_attrs ll root aind pos force ats).
Proof. exact lay_attrs_column. Qed.
Print Assumptions attr_pos_is_column.

(* 3b. the wrap rule: attribute k goes on a new line (LINESEP + attribute indent) iff the column
       reached before it exceeds the line length, or it follows the root's [id]; else one space *)
Theorem wrap_rule : forall ll root aind a1 n v a2 pos,
  no_nl aind -> Forall attr_no_nl a1 ->
  let '(o1, _) := lay_attrs ll root aind pos false a1 in
  let forced := match rev a1 with [] => false | (n0, _) :: _ => root && str_eqb n0 ROOT_BREAK_ATTR end in
  exists o2,
    fst (lay_attrs ll root aind pos false (a1 ++ (n, v) :: a2))
    = o1 ++ (if (ll <? column o1 pos) || forced then LINESEP ++ aind else [32]) ++ n ++ [61; QUOT] ++ v ++ [QUOT] ++ o2.
Proof. exact SerExsP.wrap_rule. Qed.
Print Assumptions wrap_rule.

(* 3c. for whole elements without character data (attribute-only trees, ASCII tags) the pos the
       code carries and returns is the true column of the output *)
Theorem pos_is_column : forall cfg ll r, attr_only r ->
  forall root ind pos, column (fst (lay_elem cfg ll root ind pos r)) pos = snd (lay_elem cfg ll root ind pos r).
Proof. exact SerExsP.pos_is_column. Qed.
Print Assumptions pos_is_column.
(* the excluded corner: a childless always-expanded element — pos is one short (the '>' of the
   start tag is not counted).  Harmless: the value is only used when character data follows. *)
Theorem pos_is_column_refuted : forall cfg ll,
  let r := RElem [98] [] true None [] None in
  column (fst (lay_elem cfg ll false 0 0 r)) 0 = snd (lay_elem cfg ll false 0 0 r) + 1.
Proof. exact pos_short_expanded. Qed.
Print Assumptions pos_is_column_refuted.
Example attr_only_satisfiable : attr_only (RElem [97] [([105;100], [49])] false None [RElem [98] [] false None [] None] None).
Proof.
  assert (Hb : attr_only (RElem [98] [] false None [] None)).
  { apply AO; [repeat constructor | unfold no_nl; cbn; intuition discriminate | constructor | constructor | reflexivity]. }
  apply AO; [repeat constructor | unfold no_nl; cbn; intuition discriminate | | constructor; [exact Hb | constructor] | reflexivity].
  constructor; [|constructor]. split; unfold no_nl; cbn; intuition discriminate.
Qed.

(* ---- 4. canonicality ---------------------------------------------------------------------- *)
(* Full statement (design 4/C01.4): for every well-formed document d and line length ll,
     read (ser ll d) = Some (norm d)   and hence   ser ll (norm d) = ser ll d.
   Proved part (stage A): attribute-only trees — no character data, no tails — which is every
   semantic Capella element except bodies/languages.  Text, tails and the comments around the
   root are NOT covered by the proof; they are covered by the differential checks only. *)
Theorem ser_read_roundtrip_partial : forall cfg ll root ind pos r rest,
  stageA r ->
  read_elem (fst (lay_elem cfg ll root ind pos r) ++ rest) = Some (decode_tree r, rest).
Proof. intros. now apply XmlReadP.read_lay_elem. Qed.
Print Assumptions ser_read_roundtrip_partial.

(* writing what was read gives the same bytes again: for trees whose written values are the
   canonical escapes of what they decode to (true of everything [resolve] produces when
   namespace URIs contain no escapable character) *)
Theorem ser_canonical_partial : forall cfg ll root ind pos r,
  stageA r -> canonical_values r ->
  exists r', read_elem (fst (lay_elem cfg ll root ind pos r)) = Some (r', [])
             /\ lay_elem cfg ll root ind pos (reescape r') = lay_elem cfg ll root ind pos r.
Proof. exact XmlReadP.write_read_write. Qed.
Print Assumptions ser_canonical_partial.
Example stageA_satisfiable : stageA (RElem [97] [([105;100], [49;38;97;109;112;59])] false None [RElem [98] [] false None [] None] None).
Proof.
  assert (Hn : forall c, name_char c = true -> name_ok [c]) by (intros c H; split; [discriminate | repeat constructor; exact H]).
  assert (Hb : stageA (RElem [98] [] false None [] None)) by (apply SA; [apply Hn; reflexivity | constructor | constructor]).
  apply SA; [apply Hn; reflexivity | | constructor; [exact Hb | constructor]].
  constructor; [|constructor]. split; [split; [discriminate | repeat constructor]|].
  split; [cbn; intuition discriminate | vm_compute; discriminate].
Qed.
