(* C01 — Unmodified load-then-save reproduces Capella's files byte for byte; the XML writer is
   canonical.  Property theorems only; each is closed by [exact] of a lemma of Proofs/.
   The writer model (Model/SerExs.v) takes LINE_LENGTH, INDENT, the escape classes, the priority
   attributes, the namespace rank table and ALWAYS_EXPANDED_TAGS from Gen/ExsConsts.v, which is
   re-extracted from capellambse/loader/exs.py on every run. *)
From Coq Require Import ZArith NArith List Bool Permutation Sorted Lia.
Import ListNotations.
From V Require Import Model.Val Model.XmlTree Gen.ExsConsts Model.SerExs Model.XmlRead Proofs.SerExsP Proofs.XmlReadP Proofs.SerTextP.
Open Scope N_scope.

(* ---- 1. escaping -------------------------------------------------------------------------- *)
(* 1a. f"{ord(c):X}" read back as a hexadecimal character reference gives c — every number *)
Theorem hex_reference_roundtrip : forall n, hexval (hex n) 0 = Some n.
Proof. exact hex_roundtrip. Qed.
Print Assumptions hex_reference_roundtrip.

(* 1b. _escape with P_ESCAPE_TEXT followed by XML reference decoding is the identity on ALL
       code point strings (attribute values and character data) *)
Theorem escape_roundtrip : forall s, unescape (escape TEXT_CLASS s) = Some s.
Proof. exact escape_text_roundtrip. Qed.
Print Assumptions escape_roundtrip.

(* 1c. the escaped string contains no raw member of the class other than '&' — in particular no
       double quote, no '<', no C0 control, no DEL, no raw newline/tab/CR; and by 1b every '&' in it starts a
       well-formed reference (the strict decoder [unescape] rejects anything else) *)
Theorem escape_safe : forall s c, In c (escape TEXT_CLASS s) -> in_ranges c TEXT_CLASS && negb (c =? AMP) = false.
Proof. exact escape_text_safe. Qed.
Print Assumptions escape_safe.

(* 1c'. the class extracted from the source covers what XML requires to be escaped in a double-quoted
        attribute value and in character data, plus TAB/LF/CR (attribute value normalisation would
        turn them into spaces): a finite check on the regenerated table *)
Theorem text_class_covers_xml : forallb (fun c => in_ranges c TEXT_CLASS) [34; 38; 60; 9; 10; 13] = true.
Proof. vm_compute. reflexivity. Qed.
Print Assumptions text_class_covers_xml.

(* 1d. comments: the pattern _serialize_comment uses is applied once and is then stable
       (byte-canonical); it is NOT tree-faithful, XML does not decode references in comments:
       [comment_gt_not_faithful] *)
Theorem comment_escape_idempotent : forall s,
  escape COMMENT_TEXT_CLASS (escape COMMENT_TEXT_CLASS s) = escape COMMENT_TEXT_CLASS s.
Proof. exact escape_comment_idem. Qed.
Print Assumptions comment_escape_idempotent.
Example comment_gt_not_faithful : escape COMMENT_TEXT_CLASS [97; 62; 98] <> [97; 62; 98].
Proof. vm_compute. discriminate. Qed.

(* ---- 2. attribute order ------------------------------------------------------------------- *)
(* 2a. what _unmapped_attrs yields is: the priority attributes, then the namespace declarations,
       then the remaining attributes — names unmapped, values escaped *)
Theorem attr_order_spec : forall nsmap parent_ns attrs l,
  unmapped_attrs nsmap parent_ns attrs = ROk l ->
  exists pr rs,
    l = pr ++ ns_decls nsmap parent_ns ++ rs
    /\ map_res (unmap_attr nsmap) (prio_present attrs) = ROk pr
    /\ map_res (unmap_attr nsmap) (rest_attrs attrs) = ROk rs.
Proof. exact unmapped_attrs_spec. Qed.
Print Assumptions attr_order_spec.

(* 2b. every attribute of the element is written exactly once *)
Theorem attr_order_permutation : forall attrs, NoDup (map fst attrs) ->
  Permutation (prio_present attrs ++ rest_attrs attrs) attrs.
Proof. exact attrs_partition. Qed.
Print Assumptions attr_order_permutation.

(* 2c. the priority block follows the order of the tuple in the source (xmi:version, xmi:type,
       xmi:id, xsi:type) and holds exactly the ones present; the rest keeps tree order *)
Theorem attr_order_priority : forall attrs,
  map fst (prio_present attrs)
  = filter (fun k => match find_attr k attrs with Some _ => true | None => false end)
           (map (fun p => QN (fst p) (snd p)) PRIORITY_ATTRS).
Proof. exact prio_present_order. Qed.
Print Assumptions attr_order_priority.
Example priority_names :
  map (fun p => snd p) PRIORITY_ATTRS = [[118;101;114;115;105;111;110]; [116;121;112;101]; [105;100]; [116;121;112;101]].
Proof. reflexivity. Qed.

(* 2d. namespace declarations: those of element.nsmap the parent does not have, strongly sorted
       by (rank, prefix) where rank xmi = 0, xsi = 1, others = 2 (NS_RANKS), each as xmlns:<p> *)
Theorem ns_decl_order : forall nsmap parent_ns,
  exists l, ns_decls nsmap parent_ns = map (fun p => (XMLNS_PREFIX ++ fst p, snd p)) l
    /\ StronglySorted ns_le l
    /\ (forall p, In p l <-> In p nsmap /\ mem_str (fst p) parent_ns = false).
Proof. exact ns_decls_spec. Qed.
Print Assumptions ns_decl_order.
Example ns_order_example :
  map fst (ns_sort [([122], []); ([120;115;105], []); ([65], []); ([120;109;105], [])]) = [[120;109;105]; [120;115;105]; [65]; [122]].
Proof. reflexivity. Qed.

(* ---- 3. wrapping -------------------------------------------------------------------------- *)
(* 3a. in the attribute loop, pos is the true output column (names/values without raw newline —
       values are escaped, so they have none) *)
Theorem attr_pos_is_column : forall ll root aind ats, no_nl aind -> Forall attr_no_nl ats ->
  forall pos force, column (fst (lay_attrs ll root aind pos force ats)) pos = snd (lay_attrs ll root aind pos force ats).
Proof. exact lay_attrs_column. Qed.
Print Assumptions attr_pos_is_column.

(* 3b. the wrap rule: attribute k goes on a new line (LINESEP + attribute indent) iff the column
       reached before it exceeds the line length, or it follows the root's [id]; else one space *)
Theorem wrap_rule : forall ll root aind a1 n v a2 pos,
  no_nl aind -> Forall attr_no_nl a1 ->
  let '(o1, _) := lay_attrs ll root aind pos false a1 in
  let forced := match rev a1 with [] => false | (n0, _) :: _ => root && str_eqb n0 ROOT_BREAK_ATTR end in
  exists o2,
    fst (lay_attrs ll root aind pos false (a1 ++ (n, v) :: a2))
    = o1 ++ (if (ll <? column o1 pos) || forced then LINESEP ++ aind else [32]) ++ n ++ [61; QUOT] ++ v ++ [QUOT] ++ o2.
Proof. exact SerExsP.wrap_rule. Qed.
Print Assumptions wrap_rule.

(* 3c. for whole elements without character data (attribute-only trees, ASCII tags) the pos the
       code carries and returns is the true column of the output *)
Theorem pos_is_column : forall cfg ll r, attr_only r ->
  forall root ind pos, column (fst (lay_elem cfg ll root ind pos r)) pos = snd (lay_elem cfg ll root ind pos r).
Proof. exact SerExsP.pos_is_column. Qed.
Print Assumptions pos_is_column.
(* the excluded corner: a childless always-expanded element — pos is one short (the '>' of the
   start tag is not counted).  Harmless: the value is only used when character data follows. *)
Theorem pos_is_column_refuted : forall cfg ll,
  let r := RElem [98] [] true None [] None in
  column (fst (lay_elem cfg ll false 0 0 r)) 0 = snd (lay_elem cfg ll false 0 0 r) + 1.
Proof. exact pos_short_expanded. Qed.
Print Assumptions pos_is_column_refuted.
Example attr_only_satisfiable : attr_only (RElem [97] [([105;100], [49])] false None [RElem [98] [] false None [] None] None).
Proof.
  assert (Hb : attr_only (RElem [98] [] false None [] None)).
  { apply AO; [repeat constructor | unfold no_nl; cbn; intuition discriminate | constructor | constructor | reflexivity]. }
  apply AO; [repeat constructor | unfold no_nl; cbn; intuition discriminate | | constructor; [exact Hb | constructor] | reflexivity].
  constructor; [|constructor]. split; unfold no_nl; cbn; intuition discriminate.
Qed.

(* ---- 4. canonicality ---------------------------------------------------------------------- *)
(* Full statement (design 4/C01.4): for every well-formed document d and line length ll,
     read (ser ll d) = Some (norm d)   and hence   ser ll (norm d) = ser ll d.
   Proved:
     stage A  attribute-only trees, reader [read_elem]  (4a, 4b below);
     stage B  (4c-4h below) reader [read_doc]/[read_elem_t]: trees whose elements are attribute-only
              with element children, or childless with text (bodies / languages: any string — multi-line,
              every escapable character, "]]>", whitespace-only when the writer writes it), blank
              text/tails where the writer drops them, and the comments before and after the root.
   NOT proved (covered by the differential checks only): mixed content — non-blank text in an
   element that has children, non-blank tails (the writer uses the parent's tail after each child,
   and joins the lines of a tail without separator) —, non-blank text after the root or after a
   top-level comment (not well-formed XML), comments whose content has '>' / newline / "--" (refuted
   below: the writer is not faithful on them), UTF-8 encoding/decoding of the payload. *)
Theorem ser_read_roundtrip_partial : forall cfg ll root ind pos r rest,
  stageA r ->
  read_elem (fst (lay_elem cfg ll root ind pos r) ++ rest) = Some (decode_tree r, rest).
Proof. intros. now apply XmlReadP.read_lay_elem. Qed.
Print Assumptions ser_read_roundtrip_partial.

(* writing what was read gives the same bytes again: for trees whose written values are the
   canonical escapes of what they decode to (true of everything [resolve] produces when
   namespace URIs contain no escapable character) *)
Theorem ser_canonical_partial : forall cfg ll root ind pos r,
  stageA r -> canonical_values r ->
  exists r', read_elem (fst (lay_elem cfg ll root ind pos r)) = Some (r', [])
             /\ lay_elem cfg ll root ind pos (reescape r') = lay_elem cfg ll root ind pos r.
Proof. exact XmlReadP.write_read_write. Qed.
Print Assumptions ser_canonical_partial.
Example stageA_satisfiable : stageA (RElem [97] [([105;100], [49;38;97;109;112;59])] false None [RElem [98] [] false None [] None] None).
Proof.
  assert (Hn : forall c, name_char c = true -> name_ok [c]) by (intros c H; split; [discriminate | repeat constructor; exact H]).
  assert (Hb : stageA (RElem [98] [] false None [] None)) by (apply SA; [apply Hn; reflexivity | constructor | constructor]).
  apply SA; [apply Hn; reflexivity | | constructor; [exact Hb | constructor]].
  constructor; [|constructor]. split; [split; [discriminate | repeat constructor]|].
  split; [cbn; intuition discriminate | vm_compute; discriminate].
Qed.

(* ---- 4c-4h: stage B ------------------------------------------------------------------------ *)
(* 4c. character data: for EVERY non-empty string t, what _serialize_text(multiline=True) writes (lines
       split at "\n", each escaped with P_ESCAPE_TEXT and "]]>" rewritten, joined by LINESEP) contains no
       '<' and decodes back to exactly t — under both settings of the "]]>" repair *)
Theorem text_roundtrip : forall cfg t pos, t <> [] ->
  let w := fst (ser_text cfg TEXT_CLASS true (Some t) pos) in
  ~ In LT w /\ unescape w = Some t.
Proof. exact ser_text_roundtrip. Qed.
Print Assumptions text_roundtrip.
(* every escapable character, a "]]>", three lines *)
Example text_roundtrip_example :
  let t := [97; 34; 38; 60; 62; 39; 93; 93; 62; 9; 10; 13; 127; 0; 31; 10; 32; 98] in
  let w := fst (ser_text CFG TEXT_CLASS true (Some t) 7) in
  w = [97; 38;113;117;111;116;59; 38;97;109;112;59; 38;108;116;59; 62; 39; 93;93;38;103;116;59; 38;35;120;57;59; 10;
       38;35;120;68;59; 38;35;120;55;70;59; 38;35;120;48;59; 38;35;120;49;70;59; 10; 32; 98]
  /\ unescape w = Some t.
Proof. vm_compute. split; reflexivity. Qed.

(* 4d. elements.  Restriction [stageB cfg r] (Proofs/SerTextP.v): every element has a non-empty name of
       name characters, attribute values without raw double quote that decode, a blank (unwritten) tail, and
       EITHER children and blank (unwritten) text OR no children and any text the configuration
       writes (leaf_text_ok: always, once whitespace-only leaf text is written; non-blank otherwise).
       [norm_tree] (Model/XmlRead.v): attribute values decoded, leaf text kept verbatim, unwritten
       text/tails dropped, expanded = "written as <t></t>". *)
Theorem ser_read_text_roundtrip_partial : forall cfg ll root ind pos r rest,
  stageB cfg r ->
  read_elem_t (fst (lay_elem cfg ll root ind pos r) ++ rest) = Some (norm_tree r, rest).
Proof. intros. now apply SerTextP.read_lay_elem_t. Qed.
Print Assumptions ser_read_text_roundtrip_partial.

(* stage B contains stage A, where the two readers and the two normal forms coincide *)
Theorem stageB_extends_stageA : forall cfg r, stageA r -> stageB cfg r /\ norm_tree r = decode_tree r.
Proof. intros cfg r H. split; [now apply stageA_stageB | now apply norm_tree_stageA]. Qed.
Print Assumptions stageB_extends_stageA.
Theorem readers_agree_on_stageA : forall cfg ll root ind pos r rest, stageA r ->
  read_elem_t (fst (lay_elem cfg ll root ind pos r) ++ rest) = read_elem (fst (lay_elem cfg ll root ind pos r) ++ rest).
Proof. exact SerTextP.readers_agree_stageA. Qed.
Print Assumptions readers_agree_on_stageA.

(* the hypothesis is decidable, and holds of every leaf text under the configuration of the source
   under check when that writes whitespace-only leaf text, of non-blank text under either *)
Theorem stageB_decidable : forall cfg r, stageBb cfg r = true -> stageB cfg r.
Proof. exact stageBb_ok. Qed.
Print Assumptions stageB_decidable.
Theorem leaf_text_always_ok : forall cfg tx, fix_blank_leaf cfg = true -> leaf_text_ok cfg tx = true.
Proof. exact leaf_text_ok_fixed. Qed.
Print Assumptions leaf_text_always_ok.
Theorem leaf_text_nonblank_ok : forall cfg s, py_nonblank s = true -> leaf_text_ok cfg (Some s) = true.
Proof. exact leaf_text_ok_nonblank. Qed.
Print Assumptions leaf_text_nonblank_ok.

(* root a with id = 1&amp; and blank text (dropped) and a blank tail; children:
     bodies with text  a QUOT & < > ]]> TAB LF CR DEL SP LF b ;  l with text of two blanks ;
     e with empty text (written expanded) ;  c (written as an empty-element tag) *)
Definition exB_body : relem :=
  RElem [98;111;100;105;101;115] [] true (Some [97;34;38;60;62;93;93;62;9;10;13;127;32;10;98]) [] None.
Definition exB_root : relem :=
  RElem [97] [([105;100], [49;38;97;109;112;59])] false (Some [10;32])
        [exB_body; RElem [108] [([120], [])] false (Some [32;32]) [] None; RElem [101] [] false (Some []) [] None;
         RElem [99] [] false None [] None] (Some [32]).
Example stageB_satisfiable : stageB CFG exB_root /\ stageB (SCfg false false) exB_body.
Proof. split; apply stageBb_ok; vm_compute; reflexivity. Qed.
Example stageB_example_reads :
  read_elem_t (fst (lay_elem CFG 80 true 0 0 exB_root)) = Some (norm_tree exB_root, [])
  /\ norm_tree exB_root =
     RElem [97] [([105;100], [49;38])] false None
       [RElem [98;111;100;105;101;115] [] false (Some [97;34;38;60;62;93;93;62;9;10;13;127;32;10;98]) [] None;
        RElem [108] [([120], [])] false (Some [32;32]) [] None; RElem [101] [] true None [] None;
        RElem [99] [] false None [] None] None.
Proof. vm_compute. split; reflexivity. Qed.

(* 4e. documents: comments before/after the root.  Restrictions: [stageB] for the root (whose tail is
       then blank: text after the root element is not XML); every comment satisfies [comment_ok]:
       comment_text_ok (decidable: no '>', no newline, no "--", no trailing '-') and a blank tail;
       the root tag does not begin with '!' (no XML name does; the reference reader would take
       "<!--" for a comment). *)
Theorem ser_read_doc_roundtrip_partial : forall cfg ll before root after,
  stageB cfg root -> tag_not_bang root -> Forall comment_ok before -> Forall comment_ok after ->
  read_doc (lay_doc cfg ll before root after) = Some (map c_text before, norm_tree root, map c_text after).
Proof. exact SerTextP.read_lay_doc. Qed.
Print Assumptions ser_read_doc_roundtrip_partial.

(* 4f. … and through phase 1 and the XML declaration: what exs.write emits (before UTF-8 encoding)
       for a document whose resolved root is a stage B tree *)
Theorem write_read_doc_partial : forall cfg ll d r,
  resolve [] (d_root d) = ROk r -> stageB cfg r -> tag_not_bang r ->
  Forall comment_ok (d_before d) -> Forall comment_ok (d_after d) ->
  exists s, ser_doc cfg ll d = ROk s
    /\ read_file (declaration ++ s) = Some (map c_text (d_before d), norm_tree r, map c_text (d_after d)).
Proof. exact SerTextP.ser_doc_read. Qed.
Print Assumptions write_read_doc_partial.

(* 4g. canonicality for stage B documents: writing what was read gives the same bytes again.
       Caveat (as in stage A): the tree that is written again carries the reader's [expanded] flag
       (written as <t></t>).  lxml does not keep that flag — phase 1 recomputes it from
       ALWAYS_EXPANDED_TAGS — so for a childless element with text "" whose tag is not in that set
       write-parse-write through lxml is NOT stable (<t></t> becomes <t/>): that is the known finding
       [empty-string-text] of the harness, outside what these two theorems claim. *)
Theorem ser_text_canonical_partial : forall cfg r, stageB cfg r -> canonical_values r ->
  forall ll root ind pos, lay_elem cfg ll root ind pos (reescape (norm_tree r)) = lay_elem cfg ll root ind pos r.
Proof. exact SerTextP.reescape_norm. Qed.
Print Assumptions ser_text_canonical_partial.
Theorem ser_doc_canonical_partial : forall cfg ll before root after,
  stageB cfg root -> tag_not_bang root -> canonical_values root -> Forall comment_ok before -> Forall comment_ok after ->
  exists b r a, read_doc (lay_doc cfg ll before root after) = Some (b, r, a)
    /\ lay_doc cfg ll (map mk_comment b) (reescape r) (map mk_comment a) = lay_doc cfg ll before root after.
Proof. exact SerTextP.doc_write_read_write. Qed.
Print Assumptions ser_doc_canonical_partial.

Definition exB_before : list comment := [Comment [32;104;105;45;32] None; Comment [] (Some [10])].
Definition exB_after : list comment := [Comment [38;97;109;112;59;60] None].
Example doc_hypotheses_satisfiable :
  stageB CFG exB_root /\ tag_not_bang exB_root /\ canonical_values exB_root
  /\ Forall comment_ok exB_before /\ Forall comment_ok exB_after.
Proof.
  split; [apply stageBb_ok; vm_compute; reflexivity|].
  split; [apply tag_not_bangb_ok; vm_compute; reflexivity|].
  split; [apply canonical_valuesb_ok; vm_compute; reflexivity|].
  split; apply comment_okb_ok; vm_compute; reflexivity.
Qed.
Example doc_example_reads :
  read_doc (lay_doc CFG 80 exB_before exB_root exB_after)
  = Some ([[32;104;105;45;32]; []], norm_tree exB_root, [[38;97;109;112;59;60]]).
Proof. vm_compute. reflexivity. Qed.

(* 4h. the restrictions on comments are needed — the writer is NOT faithful outside them:
       '>' is written as "&gt;", which XML does not decode inside a comment … *)
Example comment_gt_refuted :
  comment_text_ok [97; 62] = false /\
  read_doc (lay_doc CFG 80 [Comment [97; 62] None] exB_root []) = Some ([[97; 38; 103; 116; 59]], norm_tree exB_root, []).
Proof. vm_compute. split; reflexivity. Qed.
(* … the lines of a multi-line comment are joined without the newline … *)
Example comment_newline_refuted :
  comment_text_ok [97; 10; 98] = false /\
  read_doc (lay_doc CFG 80 [Comment [97; 10; 98] None] exB_root []) = Some ([[97; 98]], norm_tree exB_root, []).
Proof. vm_compute. split; reflexivity. Qed.
(* … "--" inside and '-' at the end of a comment are written as they are: not well-formed XML … *)
Example comment_dashes_refuted :
  comment_text_ok [97; 45; 45; 98] = false /\ comment_text_ok [97; 45] = false /\
  read_doc (lay_doc CFG 80 [Comment [97; 45; 45; 98] None] exB_root []) = None /\
  read_doc (lay_doc CFG 80 [] exB_root [Comment [97; 45] None]) = None.
Proof. vm_compute. repeat split; reflexivity. Qed.
(* … and a non-blank comment tail is written as character data outside the root element *)
Example comment_tail_refuted :
  read_doc (lay_doc CFG 80 [Comment [97] (Some [120])] exB_root []) = None.
Proof. vm_compute. reflexivity. Qed.
(* the side condition on the root tag is about the reference reader only *)
Example tag_bang_refuted :
  let r := RElem [33; 45; 45] [] false None [] None in
  stageB CFG r /\ read_doc (lay_doc CFG 80 [] r []) = None.
Proof. split; [apply stageBb_ok; vm_compute; reflexivity | vm_compute; reflexivity]. Qed.
