(* C19 — Diagram cache lookups return the cached image of exactly that diagram.
   Property theorems only; each is closed by [exact] of a lemma proved in Proofs/DiagCacheP.v.
   [data], [convert], [from_cache] (what the converters do) and [fresh] (what the internal
   renderer produces) are universally quantified: the theorems hold for every behaviour of them,
   including converters that raise. *)
From Coq Require Import ZArith NArith List Bool.
Import ListNotations.
From V Require Import Model.Val Model.PyPrims Model.DiagCache Proofs.DiagCacheP Proofs.DiagCacheGenP Gen.DiagCacheGraph.

(* ---- witnesses used by the non-vacuity examples ([*_hyps_sat]: one concrete instance meeting
        ALL hypotheses of the theorem above it, jointly).  A chain html-like(5, no extension) ->
        ".p"(2) -> ".s"(4) [-> 7, no extension]; a cache holding "A.s" and another diagram's "B.p";
        a three-node converter graph producing that chain, with two entry points. ---- *)
Definition ex_c5 : conv := {| cv_id := 5; cv_ext := None; cv_fc := false |}.
Definition ex_c2 : conv := {| cv_id := 2; cv_ext := Some [46;112]%N; cv_fc := true |}.
Definition ex_c4 : conv := {| cv_id := 4; cv_ext := Some [46;115]%N; cv_fc := true |}.
Definition ex_c7 : conv := {| cv_id := 7; cv_ext := None; cv_fc := false |}.
Definition ex_chain : list conv :=
  [ {| cv_id := 5; cv_ext := None; cv_fc := false |};
    {| cv_id := 2; cv_ext := Some [46;112]%N; cv_fc := true |};
    {| cv_id := 4; cv_ext := Some [46;115]%N; cv_fc := true |} ].
Definition ex_cache (n : str) : option str :=
  if str_eqb n [65;46;115]%N then Some [1]%N else if str_eqb n [66;46;112]%N then Some [2]%N else None.
(* ex_cache without the other diagram's file "B.p" *)
Definition ex_cache_other (n : str) : option str :=
  if list_eq_dec N.eq_dec n [66;46;112]%N then None else ex_cache n.
Definition ex_graph : list node :=
  [ {| n_conv := ex_c4; n_dep := None |};
    {| n_conv := ex_c2; n_dep := Some 4%N |};
    {| n_conv := ex_c5; n_dep := Some 2%N |} ].
Definition ex_entries : list (str * N) := [([115]%N, 4%N); ([104]%N, 5%N)].
(* a rank for the regenerated graph of /repo: the length of the walk from the converter *)
Definition gen_rank (id : N) : nat :=
  match walk (length gen_graph) gen_graph id with Some ch => length ch | None => O end.

(* 1. __load_cache, every chain / cache / uuid: the result is built from the file
      <uuid><ext> of the FIRST converter of the chain that has a non-empty extension, a
      from_cache and whose file exists, run forward through the converters before it;
      exactly the names up to and including that one are opened; no such converter: KeyError
      after probing every candidate. *)
Theorem load_cache_spec : forall data convert from_cache chain (c : str -> option str) uuid,
  (exists pre h post e b,
      chain = pre ++ h :: post /\ eligible h = Some e /\ c (uuid ++ e) = Some b /\ no_hit uuid c pre
      /\ load_cache data convert from_cache chain c uuid
         = (names uuid (pre ++ [h]), rbind (from_cache (cv_id h) b) (run_chain data convert pre)))
  \/ (no_hit uuid c chain
      /\ load_cache data convert from_cache chain c uuid = (names uuid chain, Err E_KeyError)).
Proof. exact DiagCacheP.load_cache_spec. Qed.
Print Assumptions load_cache_spec.
(* no hypotheses; both disjuncts occur: see ex_hit (left) and ex_no_hit (right) at the end *)

(* 1'. ... "identical to converting that cached file directly": on a chain without repeated
      converters the result equals convert_format(<hit format>, <requested format>, from_cache(file)). *)
Theorem cached_equals_direct_conversion : forall data convert from_cache uuid (c : str -> option str) pre h post e b,
  NoDup (map cv_id (pre ++ h :: post)) ->
  eligible h = Some e -> c (uuid ++ e) = Some b -> no_hit uuid c pre ->
  snd (load_cache data convert from_cache (pre ++ h :: post) c uuid)
  = rbind (from_cache (cv_id h) b) (convert_chain data convert (cv_id h) (pre ++ h :: post)).
Proof. exact load_cache_is_direct_conversion. Qed.
Print Assumptions cached_equals_direct_conversion.
Example cached_equals_direct_conversion_hyps_sat :
  let pre := [ex_c5; ex_c2] in let post := [ex_c7] in
  NoDup (map cv_id (pre ++ ex_c4 :: post))
  /\ eligible ex_c4 = Some [46;115]%N
  /\ ex_cache ([65]%N ++ [46;115]%N) = Some [1]%N
  /\ no_hit [65]%N ex_cache pre
  /\ snd (load_cache val (sym_convert []) (sym_from_cache []) (pre ++ ex_c4 :: post) ex_cache [65]%N)
     = Ok (VL [VZ 5; VL [VZ 2; VL [VZ 4; VS [1]%N]]]).
Proof.
  cbv zeta. split; [apply nodupN_NoDup; reflexivity|].
  split; [reflexivity|]. split; [reflexivity|]. split; [|reflexivity].
  intros cv e [<-|[<-|[]]]; vm_compute; intro H; inversion H; subst; reflexivity.
Qed.

(* 2. every file name opened on the cache handler is <uuid> ++ <extension of a converter of the chain> *)
Theorem only_own_files : forall data convert from_cache chain (c : str -> option str) uuid n,
  In n (fst (load_cache data convert from_cache chain c uuid)) ->
  exists cv e, In cv chain /\ eligible cv = Some e /\ n = uuid ++ e.
Proof. exact opened_own. Qed.
Print Assumptions only_own_files.
Example only_own_files_hyps_sat :
  In [65;46;115]%N (fst (load_cache val (sym_convert []) (sym_from_cache []) ex_chain ex_cache [65]%N)).
Proof. vm_compute. right; left; reflexivity. Qed.

(* 2'. ... and such names identify the diagram: uuids contain no '.', extensions start with '.' *)
Theorem own_names_injective : forall u u' e e' : str,
  no_dot u = true -> no_dot u' = true -> dot_ext e = true -> dot_ext e' = true ->
  u ++ e = u' ++ e' -> u = u' /\ e = e'.
Proof. exact name_split. Qed.
Print Assumptions own_names_injective.
(* (the theorem itself says that only instances with u = u' and e = e' exist) *)
Example own_names_injective_hyps_sat :
  let u := [65;66]%N in let e := [46;112;110;103]%N in
  no_dot u = true /\ no_dot u = true /\ dot_ext e = true /\ dot_ext e = true /\ u ++ e = u ++ e.
Proof. repeat split. Qed.

(* 2''. never a file of another diagram: two caches that differ only in files named
       <other uuid><.ext> give the same names opened and the same result *)
Theorem never_another_diagrams_file : forall data convert from_cache uuid (c c' : str -> option str) chain,
  no_dot uuid = true ->
  (forall cv e, In cv chain -> eligible cv = Some e -> dot_ext e = true) ->
  (forall n, c n <> c' n ->
     exists uuid' e', n = uuid' ++ e' /\ no_dot uuid' = true /\ dot_ext e' = true /\ uuid' <> uuid) ->
  load_cache data convert from_cache chain c uuid = load_cache data convert from_cache chain c' uuid.
Proof. exact other_diagram_irrelevant. Qed.
Print Assumptions never_another_diagrams_file.
(* two caches that really differ (at "B.p"), uuid "A", the three-converter chain *)
Example never_another_diagrams_file_hyps_sat :
  no_dot [65]%N = true
  /\ (forall cv e, In cv ex_chain -> eligible cv = Some e -> dot_ext e = true)
  /\ (forall n, ex_cache n <> ex_cache_other n ->
        exists uuid' e', n = uuid' ++ e' /\ no_dot uuid' = true /\ dot_ext e' = true /\ uuid' <> [65]%N)
  /\ ex_cache [66;46;112]%N <> ex_cache_other [66;46;112]%N.
Proof.
  split; [reflexivity|]. split.
  { intros cv e [<-|[<-|[<-|[]]]]; cbn; intro H; inversion H; subst; reflexivity. }
  split.
  { intros n H. unfold ex_cache_other in H.
    destruct (list_eq_dec N.eq_dec n [66;46;112]%N) as [->|_]; [|congruence].
    exists [66]%N, [46;112]%N. repeat split. discriminate. }
  unfold ex_cache_other.
  destruct (list_eq_dec N.eq_dec [66;46;112]%N [66;46;112]%N) as [_|Hn]; [cbn; discriminate|congruence].
Qed.

(* 3. render policy.  A KeyError raised by a converter while converting the cached file is
      treated by render() like a cache miss (`except KeyError: pass`); the statement says so. *)
Theorem render_policy : forall data convert from_cache g es allow uuid fresh f id chain (c : str -> option str),
  lookup_entry es f = Some id -> walk (length g) g id = Some chain -> NoDup (map cv_id chain) ->
  let R := render data convert from_cache g es (Some f) (Some c) allow uuid fresh in
  let nocache := snd (render data convert from_cache g es (Some f) None allow uuid fresh) in
  (exists pre h post e b r,
      chain = pre ++ h :: post /\ eligible h = Some e /\ c (uuid ++ e) = Some b /\ no_hit uuid c pre
      /\ r = rbind (from_cache (cv_id h) b) (convert_chain data convert (cv_id h) chain)
      /\ fst R = names uuid (pre ++ [h])
      /\ snd R = if (match r with Err 1%N => true | _ => false end)
                 then (if allow then nocache else Err E_RuntimeError) else r)
  \/ (no_hit uuid c chain /\ fst R = names uuid chain
      /\ snd R = if allow then nocache else Err E_RuntimeError).
Proof. exact render_cache_policy. Qed.
Print Assumptions render_policy.
(* entry "h" of ex_graph walks to ex_chain; with the cache of ex_hit the policy returns the hit *)
Example render_policy_hyps_sat :
  lookup_entry ex_entries [104]%N = Some 5%N
  /\ walk (length ex_graph) ex_graph 5%N = Some ex_chain
  /\ NoDup (map cv_id ex_chain)
  /\ render val (sym_convert []) (sym_from_cache []) ex_graph ex_entries (Some [104]%N) (Some ex_cache)
            false [65]%N (Err E_Other)
     = ([[65;46;112]; [65;46;115]]%N, Ok (VL [VZ 5; VL [VZ 2; VL [VZ 4; VS [1]%N]]])).
Proof.
  split; [reflexivity|]. split; [reflexivity|]. split; [apply nodupN_NoDup; reflexivity|reflexivity].
Qed.

(* by definition of render (its branch for a known format and cache_ = None) *)
Theorem render_without_cache : forall data convert from_cache g es allow uuid fresh f id chain,
  lookup_entry es f = Some id -> walk (length g) g id = Some chain ->
  render data convert from_cache g es (Some f) None allow uuid fresh
  = ([], rbind fresh (run_chain data convert chain)).
Proof. exact render_nocache. Qed.
Print Assumptions render_without_cache.
Example render_without_cache_hyps_sat :
  lookup_entry ex_entries [104]%N = Some 5%N /\ walk (length ex_graph) ex_graph 5%N = Some ex_chain.
Proof. split; reflexivity. Qed.

(* by definition of render (its branch for lookup_entry = None) *)
Theorem render_unknown_format : forall data convert from_cache g es allow uuid fresh f cache_,
  lookup_entry es f = None ->
  render data convert from_cache g es (Some f) cache_ allow uuid fresh = ([], Err E_ValueError).
Proof. exact render_unknown. Qed.
Print Assumptions render_unknown_format.
Example render_unknown_format_hyps_sat :
  lookup_entry ex_entries [120]%N = None /\ lookup_entry gen_entries [120]%N = None.
Proof. split; reflexivity. Qed.

(* fmt=None (the Diagram object itself) bypasses the cache, as the code does *)
(* by definition of render (its first branch; no hypotheses) *)
Theorem render_no_format : forall data convert from_cache g es allow uuid fresh cache_,
  render data convert from_cache g es None cache_ allow uuid fresh = ([], fresh).
Proof. exact render_none. Qed.
Print Assumptions render_no_format.

(* 4. _walk_converters: a successful walk does not depend on the fuel, and any graph whose
      `depends` edges decrease some rank (= is acyclic and closed) is walked to the end *)
Theorem walk_fuel_independent : forall g f id ch k, walk f g id = Some ch -> walk (f + k) g id = Some ch.
Proof. exact walk_fuel_mono. Qed.
Print Assumptions walk_fuel_independent.
Example walk_fuel_independent_hyps_sat : walk 3 ex_graph 5%N = Some ex_chain.
Proof. reflexivity. Qed.

Theorem walk_terminates_on_ranked_graph : forall g (rank : N -> nat),
  (forall id n d, find_node g id = Some n -> n_dep n = Some d ->
                  find_node g d <> None /\ (rank d < rank id)%nat) ->
  forall f id, find_node g id <> None -> (rank id < f)%nat -> exists ch, walk f g id = Some ch.
Proof. exact walk_ranked. Qed.
Print Assumptions walk_terminates_on_ranked_graph.
(* the regenerated graph of /repo with rank = length of the walk (proof does not depend on the
   shape of the graph beyond its being acyclic and closed) *)
Example walk_terminates_on_ranked_graph_hyps_sat :
  (forall id n d, find_node gen_graph id = Some n -> n_dep n = Some d ->
                  find_node gen_graph d <> None /\ (gen_rank d < gen_rank id)%nat)
  /\ find_node gen_graph 2%N <> None /\ (gen_rank 2%N < S (length gen_graph))%nat.
Proof.
  split.
  - intros id n d F D.
    pose proof (find_node_id _ _ _ F) as I.
    assert (In n gen_graph) as Hin.
    { clear D I. revert F. generalize gen_graph. induction l as [|m l IH]; cbn; [discriminate|].
      destruct (N.eqb (cv_id (n_conv m)) id); intro H; [inversion H; now left|right; now apply IH]. }
    clear F. cbn in Hin.
    repeat (destruct Hin as [<-|Hin];
            [cbn in D;
             first [discriminate D
                   |inversion D; subst; vm_compute; split; [intro X; discriminate X|repeat constructor]]|]).
    destruct Hin.
  - vm_compute. split; [intro X; discriminate X|repeat constructor].
Qed.

(* 4'. the converter graph of /repo as regenerated on this run (finite table: 7 entry points,
       7 converter objects at the time of writing): every entry point walks to the end within
       |graph| steps, without repeated converters, and every cacheable extension starts with '.';
       so the hypotheses of 1', 2'' and 3 hold for every chain render() can build. *)
Theorem generated_graph_wellformed : forall name id, In (name, id) gen_entries ->
  exists ch, walk (length gen_graph) gen_graph id = Some ch /\ NoDup (map cv_id ch)
             /\ (forall cv e, In cv ch -> eligible cv = Some e -> dot_ext e = true).
Proof. exact gen_graph_wellformed. Qed.
Print Assumptions generated_graph_wellformed.
Example generated_graph_wellformed_hyps_sat :
  (exists name id, In (name, id) gen_entries) /\ (2 <= length gen_entries)%nat.
Proof. vm_compute. split; [do 2 eexists; left; reflexivity|repeat constructor]. Qed.

(* ---- non-vacuity: a hit behind a converter without extension, with another diagram's file present
        (ex_chain / ex_cache are defined at the top of the file) ---- *)
Example ex_hit :
  load_cache val (sym_convert []) (sym_from_cache []) ex_chain ex_cache [65]%N
  = ([[65;46;112]; [65;46;115]]%N,
     Ok (VL [VZ 5; VL [VZ 2; VL [VZ 4; VS [1]%N]]])).
Proof. reflexivity. Qed.
Example ex_nodup : NoDup (map cv_id ex_chain).
Proof. apply nodupN_NoDup. reflexivity. Qed.
Example ex_no_hit : no_hit [67]%N ex_cache ex_chain.
Proof.
  intros cv e [<-|[<-|[<-|[]]]]; cbn; intro H; inversion H; subst; reflexivity.
Qed.
Example ex_rank_generated :
  forall id n d, find_node gen_graph id = Some n -> n_dep n = Some d ->
                 find_node gen_graph d <> None.
Proof.
  intros id n d F D.
  assert (In n gen_graph) as Hin.
  { clear D. revert F. generalize gen_graph. induction l as [|m l IH]; cbn; [discriminate|].
    destruct (N.eqb (cv_id (n_conv m)) id); intro H; [inversion H; now left|right; now apply IH]. }
  cbn in Hin. repeat (destruct Hin as [<-|Hin]; [cbn in D; inversion D; subst; cbn; discriminate|]).
  destruct Hin.
Qed.
