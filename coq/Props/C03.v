(* C03 — UUID and type lookups always agree with the actual model tree. *)
From Coq Require Import ZArith List Bool.
Import ListNotations.
From V Require Import Model.Val Model.Graph Proofs.GraphP.
Open Scope Z_scope.

(* 1. loading: the indexes rebuilt from any well-formed fragment are exact *)
Theorem load_indexes_exact : forall name k ns, WF ns ->
  exists ix, rebuild false ns = ROk ix /\ FragOK (mkFrag name k ns ix).
Proof. exact load_ok. Qed.
Print Assumptions load_indexes_exact.
(* hypotheses satisfiable: a fragment of three elements, two with ids, one placeholder with an href (GraphP.d_nodes) *)
Example load_indexes_exact_hyps_sat : WF d_nodes /\ length d_nodes = 3%nat.
Proof. split; [exact d_nodes_wf|reflexivity]. Qed.

(* 2. one step: attaching a subtree paired with idcache_index, and detaching one paired with
      idcache_remove, keep all three indexes exact (any fragment, any subtree) *)
Theorem attach_keeps_indexes_exact : forall fr f add,
  FragOK fr -> f = fname fr -> WF (fnodes fr ++ add) ->
  exists fr', step_frag false fr (Attach f add) = ROk fr' /\ FragOK fr' /\ fnodes fr' = fnodes fr ++ add.
Proof. exact attach_preserves. Qed.
Print Assumptions attach_keeps_indexes_exact.
(* hypotheses satisfiable: a two-element subtree attached to the three-element fragment *)
Example attach_keeps_indexes_exact_hyps_sat : FragOK d_frag /\ 0 = fname d_frag /\ WF (fnodes d_frag ++ d_add).
Proof. split; [exact d_frag_ok|split; [reflexivity|exact d_attach_wf]]. Qed.
Theorem detach_keeps_indexes_exact : forall fr f hs,
  FragOK fr -> f = fname fr ->
  exists fr', step_frag false fr (Detach f hs) = ROk fr' /\ FragOK fr' /\ fnodes fr' = without hs (fnodes fr).
Proof. exact detach_preserves. Qed.
Print Assumptions detach_keeps_indexes_exact.
(* hypotheses satisfiable: detaching two of the three elements (one with an id, one with an href) *)
Example detach_keeps_indexes_exact_hyps_sat :
  FragOK d_frag /\ 0 = fname d_frag /\ length (without [2; 3] (fnodes d_frag)) = 1%nat.
Proof. split; [exact d_frag_ok|split; reflexivity]. Qed.

(* 3. every history of paired operations, over any number of fragments *)
Theorem every_history_keeps_indexes_exact : forall ops frs,
  FragsOK frs -> ops_pre frs ops -> exists frs', run false ops frs = ROk frs' /\ FragsOK frs'.
Proof. exact reachable_ok. Qed.
Print Assumptions every_history_keeps_indexes_exact.
(* hypotheses satisfiable: two fragments, a history of an attach and two detaches *)
Example every_history_keeps_indexes_exact_hyps_sat :
  FragsOK d_forest /\ ops_pre d_forest [Attach 0 d_add; Detach 0 [4; 5]; Detach 1 [7]].
Proof.
  split; [exact d_forest_ok|]. split.
  - intros fr [<-|[<-|[]]] E; [exact d_attach_wf|discriminate E].
  - intros frs1 E1. vm_compute in E1. injection E1 as <-. split; [exact I|].
    intros frs2 E2. vm_compute in E2. injection E2 as <-. split; [exact I|]. intros; exact I.
Qed.

(* 4. user-visible: by_uuid returns exactly the element the trees contain, fails for ids no
      element has; search(type) = scan of the semantic fragments *)
Theorem by_uuid_returns_tree_element : forall frs u h, FragsOK frs -> by_uuid frs u = ROk h -> In h (scan_uuid frs u).
Proof. exact by_uuid_sound. Qed.
Print Assumptions by_uuid_returns_tree_element.
Example by_uuid_returns_tree_element_hyps_sat : FragsOK d_forest /\ by_uuid d_forest 21 = ROk 7.
Proof. split; [exact d_forest_ok|reflexivity]. Qed.
Theorem by_uuid_fails_for_absent : forall frs u, FragsOK frs -> scan_uuid frs u = [] -> by_uuid frs u = RErr E_KeyError.
Proof. exact by_uuid_missing. Qed.
Print Assumptions by_uuid_fails_for_absent.
Example by_uuid_fails_for_absent_hyps_sat : FragsOK d_forest /\ scan_uuid d_forest 99 = [].
Proof. split; [exact d_forest_ok|reflexivity]. Qed.
Theorem by_uuid_finds_present : forall frs u h, FragsOK frs -> NoDup frs ->
  In h (scan_uuid frs u) -> (forall h', In h' (scan_uuid frs u) -> h' = h) ->
  (forall fr1 fr2, In fr1 frs -> In fr2 frs -> owners (fnodes fr1) u <> [] -> owners (fnodes fr2) u <> [] -> fr1 = fr2) ->
  by_uuid frs u = ROk h.
Proof. exact by_uuid_complete. Qed.
Print Assumptions by_uuid_finds_present.
Example by_uuid_finds_present_hyps_sat :
  FragsOK d_forest /\ NoDup d_forest /\ In 7 (scan_uuid d_forest 21) /\
  (forall h', In h' (scan_uuid d_forest 21) -> h' = 7) /\
  (forall fr1 fr2, In fr1 d_forest -> In fr2 d_forest ->
     owners (fnodes fr1) 21 <> [] -> owners (fnodes fr2) 21 <> [] -> fr1 = fr2).
Proof.
  split; [exact d_forest_ok|]. split; [exact d_forest_nodup|]. split; [now left|]. split.
  - intros h' [<-|[]]. reflexivity.
  - intros fr1 fr2 [<-|[<-|[]]] [<-|[<-|[]]] H1 H2; try reflexivity; exfalso; [apply H1|apply H2]; reflexivity.
Qed.
Theorem search_is_scan : forall frs xts h, FragsOK frs -> (In h (search frs xts) <-> In h (scan_xt frs xts)).
Proof. exact search_exact. Qed.
Print Assumptions search_is_scan.
Example search_is_scan_hyps_sat : FragsOK d_forest /\ search d_forest [100; 102] <> [].
Proof. split; [exact d_forest_ok|discriminate]. Qed.

(* 5. a site that removes an element without un-indexing it breaks the property: the removed
      element is still returned (this is what LinkAccessor.purge_references did before the fix) *)
Theorem forgetful_site_refuted :
  exists fr fr', FragOK fr /\ step_frag false fr (DetachForgetful 0 [7]) = ROk fr' /\
    by_uuid [fr'] 42 = ROk 7 /\ scan_uuid [fr'] 42 = [] /\ ~ FragOK fr'.
Proof. exact forgetful_detach_refuted. Qed.
Print Assumptions forgetful_site_refuted.

(* non-vacuity: a concrete fragment satisfies the invariant (one element; the *_hyps_sat examples above use
   a two-fragment forest with five elements) *)
Example invariant_inhabited : FragOK demo_frag.
Proof. exact demo_ok. Qed.
