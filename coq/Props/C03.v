(* C03 — UUID and type lookups always agree with the actual model tree. *)
From Coq Require Import ZArith List Bool.
Import ListNotations.
From V Require Import Model.Val Model.Graph Proofs.GraphP.
Open Scope Z_scope.

(* 1. loading: the indexes rebuilt from any well-formed fragment are exact *)
Theorem load_indexes_exact : forall name k ns, WF ns ->
  exists ix, rebuild false ns = ROk ix /\ FragOK (mkFrag name k ns ix).
Proof. exact load_ok. Qed.
Print Assumptions load_indexes_exact.

(* 2. one step: attaching a subtree paired with idcache_index, and detaching one paired with
      idcache_remove, keep all three indexes exact (any fragment, any subtree) *)
Theorem attach_keeps_indexes_exact : forall fr f add,
  FragOK fr -> f = fname fr -> WF (fnodes fr ++ add) ->
  exists fr', step_frag false fr (Attach f add) = ROk fr' /\ FragOK fr' /\ fnodes fr' = fnodes fr ++ add.
Proof. exact attach_preserves. Qed.
Print Assumptions attach_keeps_indexes_exact.
Theorem detach_keeps_indexes_exact : forall fr f hs,
  FragOK fr -> f = fname fr ->
  exists fr', step_frag false fr (Detach f hs) = ROk fr' /\ FragOK fr' /\ fnodes fr' = without hs (fnodes fr).
Proof. exact detach_preserves. Qed.
Print Assumptions detach_keeps_indexes_exact.

(* 3. every history of paired operations, over any number of fragments *)
Theorem every_history_keeps_indexes_exact : forall ops frs,
  FragsOK frs -> ops_pre frs ops -> exists frs', run false ops frs = ROk frs' /\ FragsOK frs'.
Proof. exact reachable_ok. Qed.
Print Assumptions every_history_keeps_indexes_exact.

(* 4. user-visible: by_uuid returns exactly the element the trees contain, fails for ids no
      element has; search(type) = scan of the semantic fragments *)
Theorem by_uuid_returns_tree_element : forall frs u h, FragsOK frs -> by_uuid frs u = ROk h -> In h (scan_uuid frs u).
Proof. exact by_uuid_sound. Qed.
Print Assumptions by_uuid_returns_tree_element.
Theorem by_uuid_fails_for_absent : forall frs u, FragsOK frs -> scan_uuid frs u = [] -> by_uuid frs u = RErr E_KeyError.
Proof. exact by_uuid_missing. Qed.
Print Assumptions by_uuid_fails_for_absent.
Theorem by_uuid_finds_present : forall frs u h, FragsOK frs -> NoDup frs ->
  In h (scan_uuid frs u) -> (forall h', In h' (scan_uuid frs u) -> h' = h) ->
  (forall fr1 fr2, In fr1 frs -> In fr2 frs -> owners (fnodes fr1) u <> [] -> owners (fnodes fr2) u <> [] -> fr1 = fr2) ->
  by_uuid frs u = ROk h.
Proof. exact by_uuid_complete. Qed.
Print Assumptions by_uuid_finds_present.
Theorem search_is_scan : forall frs xts h, FragsOK frs -> (In h (search frs xts) <-> In h (scan_xt frs xts)).
Proof. exact search_exact. Qed.
Print Assumptions search_is_scan.

(* 5. a site that removes an element without un-indexing it breaks the property: the removed
      element is still returned (this is what LinkAccessor.purge_references did before the fix) *)
Theorem forgetful_site_refuted :
  exists fr fr', FragOK fr /\ step_frag false fr (DetachForgetful 0 [7]) = ROk fr' /\
    by_uuid [fr'] 42 = ROk 7 /\ scan_uuid [fr'] 42 = [] /\ ~ FragOK fr'.
Proof. exact forgetful_detach_refuted. Qed.
Print Assumptions forgetful_site_refuted.

(* non-vacuity: a concrete fragment satisfies the invariant *)
Example invariant_inhabited : FragOK demo_frag.
Proof. exact demo_ok. Qed.
