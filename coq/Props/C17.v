(* C17 — Parsed diagrams are geometrically sound and independent of absolute position.
   Property theorems only; each is closed by [exact] of a lemma proved in Proofs/GeomP.v.
   The model (Model/Geom.v) is over exact rationals; its constants are regenerated from the
   source (Gen/GeomConsts.v) and it is compared with the implementation on every run.
   Box sizes are those seen through the `Box.size` property, i.e. >= 0.

   What is NOT proved here and is decided per instance by the harness oracle on the real
   implementation: the whole-diagram claims (every diagram of the corpus: finite coordinates,
   edge ends on outlines, ports on borders, viewport, translation of the stored layout, moving
   one node).  Theorems 8 and 9 cover only the position calculus of the box factory. *)
From Coq Require Import QArith Qabs ZArith NArith List Bool Lqa.
Import ListNotations.
From V Require Import Model.Val Model.Geom Model.GeomEdge Gen.GeomConsts Gen.GeomFns Proofs.GeomP Proofs.GeomTie Proofs.GeomEdgeP.
Open Scope Q_scope.

(* ---- 0. Tie: line_intersect, Box.__vector_snap_manhattan and Box.__vector_snap_tree as translated from
        the current source (Gen/GeomFns.v, regenerated on every run) agree with the model on all inputs *)
Theorem translated_functions_are_model :
  (forall p1 p2 p3 p4, res_eq (gen_line_intersect (p1, p2) (p3, p4)) (line_intersect p1 p2 p3 p4))
  /\ (forall b p d, res_eq (gen_snap_manhattan b p d) (snap_manhattan b p d))
  /\ (forall b p d, res_eq (gen_snap_tree b p d) (snap_tree b p d)).
Proof. exact (conj tie_line_intersect (conj tie_snap_manhattan tie_snap_tree)). Qed.
Print Assumptions translated_functions_are_model.

(* ---- 1. Manhattan snapping: total, result on the outline — every box, point, direction, port or not *)
Theorem snap_manhattan_on_outline : forall b p d,
  0 <= bw b -> 0 <= bh b -> exists r, snap_manhattan b p d = Ok r /\ on_outline b r.
Proof. exact manhattan_sound. Qed.
Print Assumptions snap_manhattan_on_outline.
Example snap_manhattan_on_outline_hyps_sat :   (* a 10 x 6 port at (2, 3) *)
  0 <= bw (mkbox 2 3 10 6 true) /\ 0 <= bh (mkbox 2 3 10 6 true).
Proof. split; cbn; lra. Qed.

(* ---- 2. Closest snapping (no source / source = point): total and on the outline for every box of
        positive width and height.  The code violates the statement for degenerate boxes. *)
Theorem snap_closest_on_outline_partial : forall b s,
  0 < bw b -> 0 < bh b -> exists r, snap_closest b s = Ok r /\ on_outline b r.
Proof. exact closest_sound. Qed.
Print Assumptions snap_closest_on_outline_partial.
Example snap_closest_on_outline_partial_hyps_sat :   (* a 10 x 6 box at (2, 3) *)
  0 < bw (mkbox 2 3 10 6 false) /\ 0 < bh (mkbox 2 3 10 6 false).
Proof. split; cbn; lra. Qed.

Theorem snap_closest_refuted : exists b s, 0 <= bw b /\ 0 <= bh b /\ snap_closest b s = Err E_ValueError.
Proof. exists (mkbox 0 0 0 0 false), (1, 1). repeat split; try (cbn; lra). Qed.
Print Assumptions snap_closest_refuted.

(* ---- 3. Oblique snapping: whatever it returns is on the outline (boxes of positive extent).
        Totality fails: the code raises AssertionError when the ray passes exactly through the corner
        shared by the two candidate borders, and when the point lies outside the box while the source
        is the box centre. *)
Theorem snap_oblique_on_outline_partial : forall b p s r,
  0 < bw b -> 0 < bh b -> snap_oblique b p s = Ok r -> on_outline b r.
Proof. exact oblique_sound. Qed.
Print Assumptions snap_oblique_on_outline_partial.
Example snap_oblique_on_outline_partial_hyps_sat :   (* ray from (-5, 2) to the centre of a 10 x 10 box: hits the left side *)
  exists r, 0 < bw (mkbox 0 0 10 10 false) /\ 0 < bh (mkbox 0 0 10 10 false)
            /\ snap_oblique (mkbox 0 0 10 10 false) (5, 5) (-5 # 1, 2) = Ok r /\ fst r == 0 /\ snd r == 7 # 2.
Proof. eexists. split; [cbn; lra|]. split; [cbn; lra|]. split; [reflexivity|]. split; reflexivity. Qed.

(* 3'. the exact guard: for boxes of positive extent the oblique variant returns (a point of the outline)
        exactly when [oblique_ok] holds — the ray has a direction and, when it is neither horizontal nor
        vertical, does not pass through the corner it is heading to — and raises AssertionError otherwise *)
Theorem snap_oblique_exact : forall b p s, 0 < bw b -> 0 < bh b ->
  (oblique_ok b p s = true -> exists r, snap_oblique b p s = Ok r /\ on_outline b r)
  /\ (oblique_ok b p s = false -> snap_oblique b p s = Err E_AssertionError).
Proof. exact oblique_exact. Qed.
Print Assumptions snap_oblique_exact.
Example snap_oblique_exact_hyps_sat :   (* one box of positive extent with a ray that is ok and one through the corner *)
  0 < bw (mkbox 0 0 10 10 false) /\ 0 < bh (mkbox 0 0 10 10 false)
  /\ oblique_ok (mkbox 0 0 10 10 false) (5, 5) (-5 # 1, 2) = true
  /\ oblique_ok (mkbox 0 0 10 10 false) (5, 5) (-5 # 1, -5 # 1) = false.
Proof. split; [cbn; lra|]. split; [cbn; lra|]. split; reflexivity. Qed.

Theorem snap_oblique_refuted :
  (exists b p s, 0 < bw b /\ 0 < bh b /\ veqb p s = false /\ inside b p = true
                 /\ snap_oblique b p s = Err E_AssertionError)
  /\ (exists b p s, 0 < bw b /\ 0 < bh b /\ veqb p s = false /\ snap_oblique b p s = Err E_AssertionError
                    /\ veqb s (center b) = true).
Proof.
  split.
  - exists (mkbox 0 0 10 10 false), (5, 5), (-5 # 1, -5 # 1). repeat split; try (cbn; lra).
  - exists (mkbox 0 0 2 2 false), (4, 5), (1, 1). repeat split; try (cbn; lra).
Qed.
Print Assumptions snap_oblique_refuted.

(* ---- 4. Tree snapping: for a non-zero direction the result is on the top or bottom line, at the
        middle for a port and straight above/below the point otherwise; hence on the outline for ports
        and, for other boxes, exactly when the point's x lies within the sides.  With source = point
        the code returns point +/- (1, 0), which is not on the outline. *)
Theorem snap_tree_on_side_partial : forall b p d,
  veqb d (0, 0) = false -> exists r, snap_tree b p d = Ok r /\ on_tree_side b p r.
Proof. exact tree_partial. Qed.
Print Assumptions snap_tree_on_side_partial.
Example snap_tree_on_side_partial_hyps_sat :   (* direction pi - pn of a vertical last segment *)
  veqb (vsub (103, 100) (103, 50)) (0, 0) = false.
Proof. reflexivity. Qed.

Theorem tree_side_on_outline : forall b p r,
  0 <= bw b -> on_tree_side b p r ->
  (bport b = true \/ (bx b <= fst p /\ fst p <= bx b + bw b)) -> on_outline b r.
Proof. exact tree_side_outline. Qed.
Print Assumptions tree_side_on_outline.
Example tree_side_on_outline_hyps_sat :   (* 10 x 10 box, point (3, 20) below it, result (3, 10) on the bottom line *)
  0 <= bw (mkbox 0 0 10 10 false) /\ on_tree_side (mkbox 0 0 10 10 false) (3, 20) (3, 10)
  /\ (bport (mkbox 0 0 10 10 false) = true
      \/ (bx (mkbox 0 0 10 10 false) <= fst (3, 20) /\ fst (3, 20) <= bx (mkbox 0 0 10 10 false) + bw (mkbox 0 0 10 10 false))).
Proof.
  split; [cbn; lra|]. split.
  - split; [right; cbn; lra|cbn; lra].
  - right. cbn. lra.
Qed.
Example tree_side_on_outline_hyps_sat_2 :   (* a port, point far outside its x range, result at the middle of the top line *)
  0 <= bw (mkbox 0 0 10 10 true) /\ on_tree_side (mkbox 0 0 10 10 true) (30, -20 # 1) (5, 0)
  /\ (bport (mkbox 0 0 10 10 true) = true
      \/ (bx (mkbox 0 0 10 10 true) <= fst (30, -20 # 1) /\ fst (30, -20 # 1) <= bx (mkbox 0 0 10 10 true) + bw (mkbox 0 0 10 10 true))).
Proof.
  split; [cbn; lra|]. split.
  - split; [left; cbn; lra|cbn; lra].
  - left. reflexivity.
Qed.

Theorem tree_side_on_outline_only_if : forall b p r,
  0 <= bw b -> bport b = false -> on_tree_side b p r -> on_outline b r ->
  bx b <= fst p /\ fst p <= bx b + bw b.
Proof. exact tree_side_outline_only_if. Qed.
Print Assumptions tree_side_on_outline_only_if.
Example tree_side_on_outline_only_if_hyps_sat :   (* same box and points as tree_side_on_outline_hyps_sat *)
  0 <= bw (mkbox 0 0 10 10 false) /\ bport (mkbox 0 0 10 10 false) = false
  /\ on_tree_side (mkbox 0 0 10 10 false) (3, 20) (3, 10) /\ on_outline (mkbox 0 0 10 10 false) (3, 10).
Proof.
  split; [cbn; lra|]. split; [reflexivity|]. split.
  - split; [right; cbn; lra|cbn; lra].
  - left. cbn. repeat split; lra.
Qed.

Theorem snap_tree_refuted : exists b p r,
  0 < bw b /\ 0 < bh b /\ snap_tree b p (0, 0) = Ok r /\ ~ on_outline b r.
Proof.
  exists (mkbox 0 0 10 10 false), (20, 20), (20 - 1, 20). repeat split; try (cbn; lra).
  unfold on_outline. cbn. lra.
Qed.
Print Assumptions snap_tree_refuted.

(* ---- 5. Translation: every variant of Box.vector_snap commutes with every translation — the result
        moves by exactly the vector and the crash set is translation-invariant (exact arithmetic; the
        implementation's floats are compared within 1e-6 and its crash set is NOT invariant near
        corners, see known findings). *)
Theorem translation_equivariant : forall st b p s v,
  res_eq (vector_snap st (shift_box v b) (vadd p v) (vadd s v)) (shift_res v (vector_snap st b p s)).
Proof. exact vector_snap_shift. Qed.
Print Assumptions translation_equivariant.

Theorem line_intersect_equivariant : forall p1 p2 p3 p4 q1 q2 q3 q4 v,
  veq q1 (vadd p1 v) -> veq q2 (vadd p2 v) -> veq q3 (vadd p3 v) -> veq q4 (vadd p4 v) ->
  res_eq (line_intersect q1 q2 q3 q4) (shift_res v (line_intersect p1 p2 p3 p4)).
Proof. exact li_shift. Qed.
Print Assumptions line_intersect_equivariant.
Example line_intersect_equivariant_hyps_sat :   (* the diagonals of a 2 x 2 square moved by (3, -1); q4 given unreduced *)
  veq (3, -1 # 1) (vadd (0, 0) (3, -1 # 1)) /\ veq (5, 1) (vadd (2, 2) (3, -1 # 1))
  /\ veq (3, 1) (vadd (0, 2) (3, -1 # 1)) /\ veq (10 # 2, -2 # 2) (vadd (2, 0) (3, -1 # 1)).
Proof. unfold veq. cbn. repeat split; lra. Qed.

(* ---- 6. Ports: when the parent exceeds the port by more than -2*PORT_OVERHANG in both directions,
        snap_to_parent succeeds and puts the port's centre on the outline of the mid-box, i.e. the parent
        shrunk by (size/2 - PORT_OVERHANG) on every side (second theorem). *)
Theorem port_on_border : forall ppos psize pos size, port_fits psize size ->
  exists np, snap_port_to_parent ppos psize pos size = Ok np
             /\ on_outline (port_midbox ppos psize size) (port_mid np size).
Proof. exact port_on_border_lemma. Qed.
Print Assumptions port_on_border.
(* hypothesis [port_fits]: Example port_fits_default below (MIN_SIZE parent, PORT_SIZE port) *)
Example port_on_border_hyps_sat :   (* a parent narrower than the port, still within the overhang: 7 - 10 + 2*2 > 0 *)
  port_fits (7, 8) PORT_SIZE.
Proof. unfold port_fits, PORT_SIZE, PORT_OVERHANG; cbn [fst snd]; lra. Qed.

(* by definition of port_midbox (content: the clamp of mkbox is inactive under port_fits) *)
Theorem port_midbox_is_shrunk_parent : forall ppos psize size, port_fits psize size ->
  let m := port_midbox ppos psize size in
  bx m == fst ppos + fst size * (1 # 2) - PORT_OVERHANG /\ by_ m == snd ppos + snd size * (1 # 2) - PORT_OVERHANG
  /\ bx m + bw m == fst ppos + fst psize - fst size * (1 # 2) + PORT_OVERHANG
  /\ by_ m + bh m == snd ppos + snd psize - snd size * (1 # 2) + PORT_OVERHANG.
Proof. exact port_midbox_geometry. Qed.
Print Assumptions port_midbox_is_shrunk_parent.
(* hypothesis [port_fits]: Examples port_fits_default (below) and port_on_border_hyps_sat (above) *)

(* ---- 7. Viewport: defined for every non-empty list of visible bounds and encloses each of them *)
Theorem viewport_encloses : forall bs v, viewport bs = Some v -> Forall (fun b => within b v) bs.
Proof. exact viewport_encloses_all. Qed.
Print Assumptions viewport_encloses.
Example viewport_encloses_hyps_sat :   (* two boxes, the second one up and to the right of the first *)
  exists v, viewport [(0, 0, 1, 1); (5, -3 # 1, 2, 2)] = Some v.
Proof.
  destruct (viewport [(0, 0, 1, 1); (5, -3 # 1, 2, 2)]) as [v|] eqn:E; [now exists v|].
  vm_compute in E. discriminate.
Qed.

(* by definition of viewport (a match on the list) *)
Theorem viewport_defined : forall bs, bs <> [] -> exists v, viewport bs = Some v.
Proof. exact viewport_total. Qed.
Print Assumptions viewport_defined.
Example viewport_defined_hyps_sat : [(0, 0, 1, 1); (5, -3 # 1, 2, 2)] <> [].
Proof. discriminate. Qed.

(* ---- 8. Moving one top-level node (position calculus of the box factory): the other top-level nodes
        and their contents keep their positions; the node and everything inside it move by exactly d *)
Theorem move_locality : forall before n after d,
  exists moved, place_all (before ++ shift_node d n :: after) = place_all before ++ moved :: place_all after
                /\ Forall2 (shifted_by d) (place (0, 0) n) moved.
Proof. exact move_locality_lemma. Qed.
Print Assumptions move_locality.

(* ---- 9. Translating the whole stored layout moves every position by exactly d *)
Theorem layout_translation : forall tops d,
  Forall2 (Forall2 (shifted_by d)) (place_all tops) (place_all (map (shift_node d) tops)).
Proof. exact translate_all_lemma. Qed.
Print Assumptions layout_translation.

(* ---- 10. Default routes (no stored bend points): route_manhattan and route_tree start on the outline of
         the source box and end on the outline of the target box *)
Theorem route_manhattan_on_outlines : forall src tgt,
  0 <= bw src -> 0 <= bh src -> 0 <= bw tgt -> 0 <= bh tgt ->
  exists l, route_manhattan src tgt = LOk l /\ on_outline src (origin l) /\ on_outline tgt (extremity l).
Proof. exact route_manhattan_ends. Qed.
Print Assumptions route_manhattan_on_outlines.
Example route_manhattan_on_outlines_hyps_sat :   (* a 10 x 10 box and a 20 x 8 box to its lower right *)
  0 <= bw (mkbox 0 0 10 10 false) /\ 0 <= bh (mkbox 0 0 10 10 false)
  /\ 0 <= bw (mkbox 50 30 20 8 false) /\ 0 <= bh (mkbox 50 30 20 8 false).
Proof. repeat split; cbn; lra. Qed.

Theorem route_tree_on_outlines : forall src tgt,
  0 <= bw src -> 0 <= bh src -> 0 <= bw tgt -> 0 <= bh tgt ->
  on_outline src (origin (route_tree src tgt)) /\ on_outline tgt (extremity (route_tree src tgt)).
Proof. exact route_tree_ends. Qed.
Print Assumptions route_tree_on_outlines.
Example route_tree_on_outlines_hyps_sat :   (* a box and a port below it *)
  0 <= bw (mkbox 0 0 10 10 false) /\ 0 <= bh (mkbox 0 0 10 10 false)
  /\ 0 <= bw (mkbox 3 40 10 10 true) /\ 0 <= bh (mkbox 3 40 10 10 true).
Proof. repeat split; cbn; lra. Qed.

(* ---- 11. Edge-end snapping, Manhattan style (_edge_factories.snap_manhattan): never fails and the new
         extremity of the edge is on the outline of the box *)
Theorem edge_manhattan_end_on_outline : forall tgt pi pn,
  0 <= bw tgt -> 0 <= bh tgt ->
  exists l, edge_snap_manhattan tgt pi pn = LOk l /\ on_outline tgt (extremity l).
Proof. exact edge_snap_manhattan_end. Qed.
Print Assumptions edge_manhattan_end_on_outline.
Example edge_manhattan_end_on_outline_hyps_sat :
  0 <= bw (mkbox 50 30 20 8 false) /\ 0 <= bh (mkbox 50 30 20 8 false).
Proof. split; cbn; lra. Qed.

(* ---- 12. Edge-end snapping, tree style (_edge_factories.snap_tree): for a box that is not a port the end
         becomes the snapped point on the top or bottom line; for a port only while the snap keeps the end's
         x.  Otherwise the code makes (endpoint.x, y of the neighbour) the extremity — refuted below. *)
Theorem edge_tree_end_on_side_nonport : forall tgt pi pn,
  bport tgt = false -> veqb (vsub pi pn) (0, 0) = false ->
  exists e, edge_snap_tree tgt pi pn = LOk [e] /\ on_tree_side tgt pi e.
Proof. exact edge_snap_tree_nonport. Qed.
Print Assumptions edge_tree_end_on_side_nonport.
Example edge_tree_end_on_side_nonport_hyps_sat :   (* vertical last segment (103, 50) -> (103, 100) into a 10 x 10 box *)
  bport (mkbox 100 100 10 10 false) = false /\ veqb (vsub (103, 100) (103, 50)) (0, 0) = false.
Proof. split; reflexivity. Qed.

Theorem edge_tree_end_on_side_partial : forall tgt pi pn,
  veqb (vsub pi pn) (0, 0) = false ->
  exists e, vector_snap Tree tgt pi pn = Ok e /\ on_tree_side tgt pi e
            /\ (isclose (fst e) (fst pi) = true -> edge_snap_tree tgt pi pn = LOk [e]).
Proof. exact edge_snap_tree_partial. Qed.
Print Assumptions edge_tree_end_on_side_partial.
Example edge_tree_end_on_side_partial_hyps_sat :   (* a port hit exactly at its middle x: the snap keeps the end's x *)
  exists e, veqb (vsub (105, 100) (105, 50)) (0, 0) = false
            /\ vector_snap Tree (mkbox 100 100 10 10 true) (105, 100) (105, 50) = Ok e
            /\ isclose (fst e) (fst (105, 100)) = true.
Proof. eexists. split; [reflexivity|]. split; reflexivity. Qed.

Theorem edge_tree_end_refuted : exists tgt pi pn l,
  0 < bw tgt /\ 0 < bh tgt /\ veqb (vsub pi pn) (0, 0) = false /\ edge_snap_tree tgt pi pn = LOk l
  /\ ~ (snd (extremity l) == by_ tgt \/ snd (extremity l) == by_ tgt + bh tgt).
Proof.
  exists (mkbox 100 100 10 10 true), (103, 100), (103, 50), [(100 + 10 * (1 # 2), 100); (100 + 10 * (1 # 2), 50)].
  repeat split; try (cbn; lra).
Qed.
Print Assumptions edge_tree_end_refuted.

(* ---- hypotheses are satisfiable / non-vacuity *)
Example port_fits_default : port_fits MIN_SIZE PORT_SIZE.
Proof. unfold port_fits, MIN_SIZE, PORT_SIZE, PORT_OVERHANG; cbn [fst snd]; lra. Qed.
Example manhattan_example :
  snap_manhattan (mkbox 0 0 10 10 false) (3, 4) (1, 0) = Ok (0 + 10 * b2q false, 4).
Proof. reflexivity. Qed.
Example tree_direction_nonzero : veqb (0, 1) (0, 0) = false.
Proof. reflexivity. Qed.
Example oblique_ok_example : oblique_ok (mkbox 0 0 10 10 false) (5, 5) (-5 # 1, 2) = true.
Proof. reflexivity. Qed.
Example oblique_not_ok_example : oblique_ok (mkbox 0 0 10 10 false) (5, 5) (-5 # 1, -5 # 1) = false.
Proof. reflexivity. Qed.
Example viewport_example : viewport [(0, 0, 1, 1); (5, -3 # 1, 2, 2)] <> None.
Proof. discriminate. Qed.
Example place_example : place_all [Node (1, 2) [Node (3, 4) []]] = [[(0 + 1, 0 + 2); (0 + 1 + 3, 0 + 2 + 4)]].
Proof. reflexivity. Qed.
