(* C13 — Declarative sync is idempotent; instruction documents survive dump and load.
   Property theorems only; each is closed by [exact] of a lemma proved in Proofs/DeclSyncP.v / DeclYamlP.v.

   (a) [sync_groups g x] is decl._operate_sync (find-or-create through _resolve_findby, nested sync first,
       then set; creation from find | set followed by the re-run that descends into the new object) on an
       object tree.  [wf_groups] is find_keys_stable: every entry is keyed by a name (further find attributes
       allowed), `set` does not write a find key, the entries of one list have different names, a sync
       mapping mentions a list once.  Attribute values are assumed to read back as written (C07).
   (b) [represent]/[construct] are the tag layer of YDMDumper/YDMLoader over PyYAML's node graph with the
       tags and the type-hint handling read from the source (Gen/Decl_consts.v); [dump_stream]/[load_stream]
       the one-or-two-document layout of dump/load_with_metadata. *)
From Coq Require Import ZArith NArith List Bool.
Import ListNotations.
From V Require Import Model.Val Model.DeclSync Model.DeclYaml Proofs.DeclSyncP Proofs.DeclYamlP Gen.Decl_consts.

(* inputs used by the non-vacuity examples ([..._hyps_sat]) below.
   ex_entry  = { find: {name: A}, set: {d: x}, sync: { i: [ {find: {name: B}} ] } }
   ex_groups = { f: [ ex_entry ] }
   ex_tree   = an object whose list f holds A (without d, without children) and an unrelated Z *)
Definition s_name : str := [110; 97; 109; 101]%N.
Definition ex_entry : entry :=
  Entry [(s_name, [65]%N)] [([100]%N, [120]%N)] (QCons [105]%N (SCons (Entry [(s_name, [66]%N)] [] QNil) SNil) QNil).
Definition ex_groups : sgroups :=
  QCons [102]%N (SCons (Entry [(s_name, [65]%N)] [([100]%N, [120]%N)]
                              (QCons [105]%N (SCons (Entry [(s_name, [66]%N)] [] QNil) SNil) QNil)) SNil) QNil.
Definition ex_kids : list obj := [Obj [(s_name, [65]%N)] []; Obj [(s_name, [90]%N)] []].
Definition ex_tree : obj := Obj [] [([102]%N, ex_kids)].
(* a stream of two instructions with all four marker types, and a two-entry metadata mapping *)
Definition ex_ins : yvs :=
  VCons (YMap (KCons [112]%N (YPromise [120]%N) (KCons [115]%N (YNew [84]%N (KCons [118]%N (YStd (SInt 1)) KNil))
         (KCons [117]%N (YUuid [97; 45; 49]%N) (KCons [102]%N (YFind (KCons s_name (YStd (SStr [33]%N)) KNil)) KNil)))))
  (VCons (YMap (KCons [112]%N (YUuid [95; 55; 70]%N) (KCons [101]%N (YList (VCons (YPromise [121]%N) VNil)) KNil))) VNil).
Definition ex_md : ykvs := KCons [118]%N (YStd (SStr [49]%N)) (KCons [119]%N (YStd (SInt 2)) KNil).
(* a text layer that is not the identity: documents with a length header, refused when the header is wrong *)
Definition ex_text : Type := (list node * nat)%type.
Definition ex_emit (docs : list node) : ex_text := (docs, length docs).
Definition ex_parse (t : ex_text) : res (list node) :=
  if Nat.eqb (length (fst t)) (snd t) then ROk (fst t) else RErr E_ValueError.

(* 1. a second application of a well-formed sync document leaves the tree exactly as the first one left it *)
Theorem sync_idempotent : forall g x x1, wf_groups g = true -> sync_groups g x = Some x1 -> sync_groups g x1 = Some x1.
Proof. exact sync_groups_idempotent. Qed.
Print Assumptions sync_idempotent.
(* both hypotheses on one input; the first run does something: A is matched, gets d := x and a new child B *)
Example sync_idempotent_hyps_sat : exists x1, wf_groups ex_groups = true /\ sync_groups ex_groups ex_tree = Some x1
  /\ x1 <> ex_tree /\ size ex_tree = 3%nat /\ size x1 = 4%nat.
Proof.
  eexists. split; [reflexivity|]. split; [vm_compute; reflexivity|].
  split; [vm_compute; discriminate|]. split; vm_compute; reflexivity.
Qed.

(* ... in particular it creates nothing new *)
Theorem second_run_creates_nothing : forall g x x1 x2, wf_groups g = true ->
  sync_groups g x = Some x1 -> sync_groups g x1 = Some x2 -> x2 = x1 /\ size x2 = size x1.
Proof. exact second_run_nothing. Qed.
Print Assumptions second_run_creates_nothing.
(* immediate from sync_idempotent; the second conjunct follows from the first *)
Example second_run_creates_nothing_hyps_sat : exists x1 x2, wf_groups ex_groups = true /\
  sync_groups ex_groups ex_tree = Some x1 /\ sync_groups ex_groups x1 = Some x2 /\ size ex_tree <> size x1.
Proof.
  eexists. eexists. split; [reflexivity|]. split; [vm_compute; reflexivity|].
  split; [vm_compute; reflexivity | vm_compute; discriminate].
Qed.

(* 2. key lemma: after an entry ran, the object it created from find | set (or the one it matched and
      modified) is the unique match of the same find, and the entry is a fixed point on that list *)
Theorem created_is_found : forall e l l1, wf_entry e = true -> sync_entry e l = Some l1 ->
  count_matches (e_find e) l1 = 1%nat /\ sync_entry e l1 = Some l1.
Proof. exact created_or_matched_is_found. Qed.
Print Assumptions created_is_found.
(* the matched-and-modified case (A is in the list) and the created case (only Z is) *)
Example created_is_found_hyps_sat : exists l1, wf_entry ex_entry = true /\ sync_entry ex_entry ex_kids = Some l1
  /\ l1 <> ex_kids /\ length l1 = 2%nat.
Proof.
  eexists. split; [reflexivity|]. split; [vm_compute; reflexivity|].
  split; [vm_compute; discriminate | vm_compute; reflexivity].
Qed.
Example created_is_found_hyps_sat_2 : exists l1, wf_entry ex_entry = true /\
  sync_entry ex_entry [Obj [(s_name, [90]%N)] []] = Some l1 /\ length l1 = 2%nat.
Proof. eexists. split; [reflexivity|]. split; vm_compute; reflexivity. Qed.

(* 3. the tag layer: for every stream value built from the marker classes (UUIDs valid as
      UUIDReference.__post_init__ guarantees, new-object markers with a non-empty type hint and no `_type`
      keyword), whatever predicate is_uuid_string is *)
Theorem tag_layer_roundtrip : forall is_uuid v, wf is_uuid v = true -> construct is_uuid (represent v) = ROk v.
Proof. intros is_uuid. exact (proj1 (roundtrip_all is_uuid)). Qed.
Print Assumptions tag_layer_roundtrip.
Example tag_layer_roundtrip_hyps_sat : wf is_uuid_re (YList ex_ins) = true.
Proof. reflexivity. Qed.
(* ... and [wf] does reject: a malformed UUID, an empty type hint, a `_type` keyword *)
Example wf_rejects : wf is_uuid_re (YUuid [33]%N) = false /\ wf is_uuid_re (YNew [] KNil) = false
  /\ wf is_uuid_re (YNew [84]%N (KCons NEWOBJ_DUMP_KEY (YStd SNull) KNil)) = false.
Proof. repeat split; reflexivity. Qed.

(* the generated tag tables are mutually consistent (dumper tag of a marker type -> loader -> same type) *)
Theorem tags_agree : forall k, In k [M_PROMISE; M_UUID; M_NEW; M_FIND] -> assoc_marker (dump_tag k) LOAD_TAGS = Some k.
Proof. exact tags_agree_all. Qed.
Print Assumptions tags_agree.
(* a finite check of the four generated table rows *)
Example tags_agree_hyps_sat : In M_NEW [M_PROMISE; M_UUID; M_NEW; M_FIND] /\ dump_tag M_NEW <> [].
Proof. split; [right; right; left; reflexivity | vm_compute; discriminate]. Qed.

(* 4. the document layout: metadata (possibly none) + instructions *)
Theorem stream_layout_roundtrip : forall is_uuid md ins, wf_kvs is_uuid md = true -> wf_list is_uuid ins = true ->
  load_stream is_uuid (dump_stream md ins) = ROk (YMap md, YList ins).
Proof. exact stream_roundtrip. Qed.
Print Assumptions stream_layout_roundtrip.
(* two-document layout (metadata present) and one-document layout (no metadata) *)
Example stream_layout_roundtrip_hyps_sat : wf_kvs is_uuid_re ex_md = true /\ wf_list is_uuid_re ex_ins = true
  /\ length (dump_stream ex_md ex_ins) = 2%nat.
Proof. repeat split; reflexivity. Qed.
Example stream_layout_roundtrip_hyps_sat_2 : wf_kvs is_uuid_re KNil = true /\ wf_list is_uuid_re ex_ins = true
  /\ length (dump_stream KNil ex_ins) = 1%nat.
Proof. repeat split; reflexivity. Qed.

(* 5. _partial: dump then load through YAML text, for ANY emitter/parser pair that round-trips node
      documents.  That PyYAML is such a pair on the node graphs the dumper produces is the hypothesis
      [yaml_rt]; it is sampled by the correspondence check (nasty strings), not proved. *)
Theorem dump_load_roundtrip_partial : forall is_uuid (text : Type) (emit : list node -> text) (parse : text -> res (list node)),
  (forall docs, parse (emit docs) = ROk docs) ->
  forall md ins, wf_kvs is_uuid md = true -> wf_list is_uuid ins = true ->
  load is_uuid text parse (dump text emit md ins) = ROk (YMap md, YList ins).
Proof. exact dump_load. Qed.
Print Assumptions dump_load_roundtrip_partial.
(* the conclusion is stream_layout_roundtrip after one rewrite with the hypothesis on emit/parse; that
   hypothesis is asked for ALL node documents, more than the theorem needs (only dump_stream md ins).
   All hypotheses on one instance: a parser that can fail, a non-empty metadata mapping, two instructions *)
Example dump_load_roundtrip_partial_hyps_sat :
  (forall docs, ex_parse (ex_emit docs) = ROk docs) /\ (exists t e, ex_parse t = RErr e)
  /\ wf_kvs is_uuid_re ex_md = true /\ wf_list is_uuid_re ex_ins = true.
Proof.
  split; [intro docs; unfold ex_parse, ex_emit; cbn [fst snd]; now rewrite Nat.eqb_refl|].
  split; [exists ([], 1%nat); eexists; reflexivity|]. split; reflexivity.
Qed.
Example dump_load_roundtrip_partial_instance :
  load is_uuid_re ex_text ex_parse (dump ex_text ex_emit ex_md ex_ins) = ROk (YMap ex_md, YList ex_ins).
Proof.
  apply dump_load_roundtrip_partial;
    [exact (proj1 dump_load_roundtrip_partial_hyps_sat) | reflexivity | reflexivity].
Qed.

(* 6. _refuted without the guard on the type hint: as long as the dumper omits an empty hint and the loader
      insists on the key (both facts are read from the source), a new-object marker with an empty type hint
      — legal for NewObject and meaning "guess the type" — does not survive *)
Theorem newobj_empty_hint_refuted : NEWOBJ_DUMP_ONLY_IF_TRUTHY = true -> NEWOBJ_LOAD_REQUIRED = true ->
  forall is_uuid, exists v, construct is_uuid (represent v) <> ROk v.
Proof. exact empty_hint_witness. Qed.
Print Assumptions newobj_empty_hint_refuted.
(* NON-VACUITY DEPENDS ON THE SOURCE TREE: the two premises are statements about generated constants.  On a
   tree whose dumper always writes the `_type` key (NEWOBJ_DUMP_ONLY_IF_TRUTHY = false — the repaired
   decl.py) the first premise is false and the theorem above says nothing; the empty hint then survives.
   This example is written so that it compiles for every value of the two constants and says which case
   the tree under check is in: either both premises hold, or the empty-hint marker round-trips. *)
Example newobj_empty_hint_refuted_hyps_status :
  (NEWOBJ_DUMP_ONLY_IF_TRUTHY && NEWOBJ_LOAD_REQUIRED = true)
  \/ (NEWOBJ_DUMP_ONLY_IF_TRUTHY && NEWOBJ_LOAD_REQUIRED = false
      /\ forall is_uuid, construct is_uuid (represent (YNew [] KNil)) = ROk (YNew [] KNil)).
Proof. vm_compute. first [left; reflexivity | right; split; [reflexivity | intros; reflexivity]]. Qed.

(* non-vacuity *)
(* [s_name], [ex_groups] are defined at the top of the file, with the other inputs of the non-vacuity examples *)
Example ex_wf : wf_groups ex_groups = true. Proof. reflexivity. Qed.
Example ex_creates_then_finds : exists x1, sync_groups ex_groups (Obj [] []) = Some x1 /\ size x1 = 3%nat
                                           /\ sync_groups ex_groups x1 = Some x1.
Proof. eexists. split; [vm_compute; reflexivity|]. split; vm_compute; reflexivity. Qed.
Example ex_ambiguous : sync_groups ex_groups
  (Obj [] [([102]%N, [Obj [(s_name, [65]%N)] []; Obj [(s_name, [65]%N)] []])]) = None.
Proof. reflexivity. Qed.
Example ex_stream_wf : wf_list is_uuid_re
  (VCons (YMap (KCons [112]%N (YPromise [120]%N) (KCons [115]%N (YNew [84]%N (KCons [118]%N (YStd (SInt 1)) KNil))
         (KCons [117]%N (YUuid [97; 45; 49]%N) (KCons [102]%N (YFind (KCons s_name (YStd (SStr [33]%N)) KNil)) KNil))))) VNil) = true.
Proof. reflexivity. Qed.
Example ex_yaml_rt : forall docs : list node, (fun t => ROk t) ((fun d => d) docs) = ROk docs.
Proof. reflexivity. Qed.
Example ex_constants_now : NEWOBJ_DUMP_ONLY_IF_TRUTHY = true /\ NEWOBJ_LOAD_REQUIRED = true \/ NEWOBJ_LOAD_REQUIRED = false \/ NEWOBJ_DUMP_ONLY_IF_TRUTHY = false.
Proof. destruct NEWOBJ_DUMP_ONLY_IF_TRUTHY, NEWOBJ_LOAD_REQUIRED; tauto. Qed.
