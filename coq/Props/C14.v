(* C14 — File handlers never reach outside their root.
   Property theorems only; each is closed by [exact] of a lemma proved in Proofs/. *)
From Coq Require Import ZArith NArith List Bool.
Import ListNotations.
From V Require Import Model.Val Model.Paths Model.PyPrims Model.Quote Model.HttpUrl Proofs.PathsP Proofs.QuoteP Proofs.Ties Proofs.HttpUrlP Gen.Fn_helpers.

(* 1. normalize_pure_path: for every path string and every base, the result consists of
      genuine segments only: no "..", no ".", no empty segment, no "/" inside a segment;
      it is a relative path, so joined to any root it names something below that root. *)
Theorem normalize_confined : forall path base, Forall seg_ok (normalize path base).
Proof. exact normalize_segments. Qed.
Print Assumptions normalize_confined.

(* 1'. the same about the function translated from /repo's helpers.py on this run *)
Theorem translated_normalize_is_model : forall path base,
  normalize_pure_path path base = py_of_parts (normalize path base).
Proof. exact tie_normalize. Qed.
Print Assumptions translated_normalize_is_model.

(* 2. every handler kind: the path handed to the backing store starts with the configured
      subdir and contains no ".." (all file names, all subdirs) *)
Theorem handler_confined : forall k sub f,
  is_prefix (subdir_parts sub) (handler_target k sub f) = true /\ has_dotdot (handler_target k sub f) = false.
Proof. exact target_confined. Qed.
Print Assumptions handler_confined.

(* 3. FilePath.joinpath / iterdir never leave the handler's virtual root *)
Theorem filepath_join_confined : forall cur p, has_dotdot (filepath_join cur p) = false.
Proof. exact filepath_join_no_dotdot. Qed.
Print Assumptions filepath_join_confined.

(* 4. HTTP: the text inserted into the URL template is percent-quoted: it contains no '?', '#',
      space or backslash, and '/' only where listed as safe; '%' only as the start of an escape. *)
Theorem http_quote_no_structure : forall safe bs c,
  Forall (fun b => (b < 256)%N) bs -> In c (quote safe bs) -> memN c safe = false ->
  c <> 63%N /\ c <> 35%N /\ c <> 32%N /\ c <> 47%N /\ c <> 92%N.
Proof. exact quote_no_structure. Qed.
Print Assumptions http_quote_no_structure.
(* hypotheses satisfiable together: the bytes of "a?/# \\" + e-acute quoted with '/' safe; '%' occurs in the output *)
Example http_quote_no_structure_hyps_sat :
  Forall (fun b => (b < 256)%N) [97;63;47;35;32;92;195;169]%N /\ In 37%N (quote [47%N] [97;63;47;35;32;92;195;169]%N) /\ memN 37%N [47%N] = false.
Proof. split; [repeat constructor|split; [vm_compute; tauto|reflexivity]]. Qed.

Theorem quote_roundtrip : forall safe bs,
  Forall (fun b => (b < 256)%N) bs -> memN PCT safe = false -> unquote (quote safe bs) = bs.
Proof. exact unquote_quote. Qed.
Print Assumptions quote_roundtrip.
Example quote_roundtrip_hyps_sat :
  Forall (fun b => (b < 256)%N) [97;63;47;35;32;92;37;195;169]%N /\ memN PCT [47%N] = false /\
  quote [47%N] [97;63;47;35;32;92;37;195;169]%N <> [97;63;47;35;32;92;37;195;169]%N.
Proof. split; [repeat constructor|split; [reflexivity|vm_compute; discriminate]]. Qed.

(* 5. HTTP: whatever the file name is, the URL obtained by substituting %s %q %d %n %e %% in ANY template has exactly
      as many '?', '#', spaces and backslashes as the template: the name cannot add query or fragment structure *)
Theorem http_url_structure : forall k tpl u c, comps_ok k ->
  subst k tpl = Some u -> (c = 63 \/ c = 35 \/ c = 32 \/ c = 92)%N -> count c u = count c tpl.
Proof. exact url_structure_preserved. Qed.
Print Assumptions http_url_structure.
(* hypotheses satisfiable together: file "d e/a?b #.x" (dir "d e", name "a?b #", ext ".x") substituted into the
   template "http://h/%d/%n%e?x=%q#f%%" (all five placeholders and the escape); the substitution succeeds *)
Definition ex_comps : comps :=
  mkComps [100;32;101;47;97;63;98;32;35;46;120]%N [100;32;101]%N [97;63;98;32;35]%N [46;120]%N.
Definition ex_tpl : str := [104;116;116;112;58;47;47;104;47;37;100;47;37;110;37;101;63;120;61;37;113;35;102;37;37]%N.
Example http_url_structure_hyps_sat :
  comps_ok ex_comps /\ (exists u, subst ex_comps ex_tpl = Some u /\ length u = 55%nat) /\ (63 = 63 \/ 63 = 35 \/ 63 = 32 \/ 63 = 92)%N /\
  count 63%N ex_tpl = 1%nat.
Proof. split; [repeat split; repeat constructor|split; [eexists; split; reflexivity|split; [now left|reflexivity]]]. Qed.

(* non-vacuity: a path that tries to climb (two '..' against a one-segment base) *)
Example climb : normalize [46;46;47;46;46;47;120]%N [115;117;98]%N = [[120]%N].
Proof. reflexivity. Qed.
