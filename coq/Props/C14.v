(* C14 — File handlers never reach outside their root.
   Property theorems only; each is closed by [exact] of a lemma proved in Proofs/. *)
From Coq Require Import ZArith NArith List Bool.
Import ListNotations.
From V Require Import Model.Val Model.Paths Model.PyPrims Model.Quote Model.HttpUrl Proofs.PathsP Proofs.QuoteP Proofs.Ties Proofs.HttpUrlP Gen.Fn_helpers.

(* 1. normalize_pure_path: for every path string and every base, the result consists of
      genuine segments only: no "..", no ".", no empty segment, no "/" inside a segment;
      it is a relative path, so joined to any root it names something below that root. *)
Theorem normalize_confined : forall path base, Forall seg_ok (normalize path base).
Proof. exact normalize_segments. Qed.
Print Assumptions normalize_confined.

(* 1'. the same about the function translated from /repo's helpers.py on this run *)
Theorem translated_normalize_is_model : forall path base,
  normalize_pure_path path base = py_of_parts (normalize path base).
Proof. exact tie_normalize. Qed.
Print Assumptions translated_normalize_is_model.

(* 2. every handler kind: the path handed to the backing store starts with the configured
      subdir and contains no ".." (all file names, all subdirs) *)
Theorem handler_confined : forall k sub f,
  is_prefix (subdir_parts sub) (handler_target k sub f) = true /\ has_dotdot (handler_target k sub f) = false.
Proof. exact target_confined. Qed.
Print Assumptions handler_confined.

(* 3. FilePath.joinpath / iterdir never leave the handler's virtual root *)
Theorem filepath_join_confined : forall cur p, has_dotdot (filepath_join cur p) = false.
Proof. exact filepath_join_no_dotdot. Qed.
Print Assumptions filepath_join_confined.

(* 4. HTTP: the text inserted into the URL template is percent-quoted: it contains no '?', '#',
      space or backslash, and '/' only where listed as safe; '%' only as the start of an escape. *)
Theorem http_quote_no_structure : forall safe bs c,
  Forall (fun b => (b < 256)%N) bs -> In c (quote safe bs) -> memN c safe = false ->
  c <> 63%N /\ c <> 35%N /\ c <> 32%N /\ c <> 47%N /\ c <> 92%N.
Proof. exact quote_no_structure. Qed.
Print Assumptions http_quote_no_structure.

Theorem quote_roundtrip : forall safe bs,
  Forall (fun b => (b < 256)%N) bs -> memN PCT safe = false -> unquote (quote safe bs) = bs.
Proof. exact unquote_quote. Qed.
Print Assumptions quote_roundtrip.

(* 5. HTTP: whatever the file name is, the URL obtained by substituting %s %q %d %n %e %% in ANY template has exactly
      as many '?', '#', spaces and backslashes as the template: the name cannot add query or fragment structure *)
Theorem http_url_structure : forall k tpl u c, comps_ok k ->
  subst k tpl = Some u -> (c = 63 \/ c = 35 \/ c = 32 \/ c = 92)%N -> count c u = count c tpl.
Proof. exact url_structure_preserved. Qed.
Print Assumptions http_url_structure.

(* non-vacuity: a path that tries to climb *)
Example climb : normalize [46;46;47;46;46;47;120]%N [115;117;98]%N = [[120]%N].
Proof. reflexivity. Qed.
