(* C20 — ReqIF export is closed, unique and covers every requirement exactly once.
   Property theorems only; each is closed by [exact] of a lemma proved in Proofs/ReqifP.v.
   [export xhtml m] is the model of exporter.py (Model/Reqif.v) whose identifier and reference
   strings are the templates read from the source on this run (Gen/Consts_reqif.v); [xhtml] is
   lxml's HTML parser (any function).  All theorems are for every module, of any size and depth. *)
From Coq Require Import ZArith NArith List Bool.
Import ListNotations.
From V Require Import Model.Val Model.PyPrims Model.Reqif Gen.Consts_reqif Proofs.ReqifP.

(* ---------- witnesses (used by hyps_satisfiable and the [*_hyps_sat] examples: one concrete instance
   meeting ALL hypotheses of the theorem above it, jointly) ---------- *)
Definition xh : str -> result str := fun s => Ok s.
Definition u (n : N) : str := [97; 48 + n]%N.                       (* "a0", "a1", … *)
Definition e_dt : dtype := mkDt (u 7) [u 8; u 9].
Definition e_def : adef := mkAd (u 6) true true (Some e_dt).
Definition m_ok : module :=
  mkMod (u 0) (u 1) None [77]%N
    (Folder [mkReq (u 2) (Some (u 5)) [76]%N [73]%N [] [78]%N [] [mkAt (Some e_def) (PEnum [u 9]); mkAt None (PBool true)]]
            [Folder [] [Folder [mkReq (u 3) None [] [] [] [] [] [mkAt None (PInt (-42))]] []]]).
(* the hypotheses of refs_closed are satisfiable, by a module with nested folders, an enumeration
   attribute, and attributes without definition; and export succeeds on it *)
Example hyps_satisfiable :
  UniqueReqs m_ok /\ UniqueUuidsUp m_ok /\ DefsConsistent m_ok /\ DatatypesConsistent m_ok /\ EnumDeclared m_ok
  /\ DefsComplete m_ok /\ FieldsParse xh m_ok
  /\ exists q, export xh m_ok = Ok q /\ length (q_objs q) = 2%nat.
Proof.
  repeat split; try (unfold xh; eauto; fail).
  - unfold UniqueReqs. simpl. repeat constructor; simpl; intuition discriminate.
  - unfold UniqueUuidsUp. simpl. repeat constructor; simpl; intuition discriminate.
  - intros k k' Hk Hk' E. simpl in Hk, Hk'.
    repeat match goal with H : _ \/ _ |- _ => destruct H end; subst; try reflexivity; try contradiction;
      vm_compute in E; discriminate.
  - intros k k' Hk Hk' E. simpl in Hk, Hk'.
    repeat match goal with H : _ \/ _ |- _ => destruct H end; subst; try reflexivity; try contradiction;
      vm_compute in E; discriminate.
  - intros r a vs Hr Ha Hv. simpl in Hr.
    repeat match goal with H : _ \/ _ |- _ => destruct H end; subst; try contradiction; simpl in Ha;
      repeat match goal with H : _ \/ _ |- _ => destruct H end; subst; try contradiction; try discriminate.
    inversion Hv; subst. exists e_def, e_dt. repeat split. intros x [<-|[]]. simpl. auto.
  - simpl in H. repeat match goal with H : _ \/ _ |- _ => destruct H end; subst; try contradiction;
      eexists; vm_compute; reflexivity.
  - simpl in H. repeat match goal with H : _ \/ _ |- _ => destruct H end; subst; try contradiction;
      eexists; vm_compute; reflexivity.
  - eexists. split. vm_compute. reflexivity. reflexivity.
Qed.

(* a second module: two requirements of the same type in nested folders, a typed module, and two
   DIFFERENT enumeration definitions (a6, a4) sharing the data type a7, so that the premise of
   DatatypesConsistent holds for two distinct keys *)
Definition e_def2 : adef := mkAd (u 4) true false (Some e_dt).
Definition m_ok2 : module :=
  mkMod (u 0) (u 1) (Some (u 5)) [77]%N
    (Folder [mkReq (u 2) (Some (u 5)) [76]%N [73]%N [67]%N [78]%N [84]%N
                   [mkAt (Some e_def) (PEnum [u 8; u 9]); mkAt None (PStr [120]%N)]]
            [Folder [mkReq (u 3) (Some (u 5)) [] [] [] [] []
                           [mkAt (Some e_def2) (PEnum [u 8]); mkAt None (PDate None)]] []]).
(* an lxml stand-in that rejects some documents (those containing a NUL character) *)
Definition xh_partial : str -> result str :=
  fun s => if existsb (N.eqb 0) s then Err E_ValueError else Ok (s ++ [10]%N).


(* 0. _collect_objects, _build_spec_objects and create_hierarchy_folder are three separate recursions in
      the source; all three visit exactly the depth-first list of requirements. *)
Theorem traversals_are_dfs : forall xhtml f st,
  spec_objects_of xhtml f = map (build_spec_object xhtml) (dfs f)
  /\ hierarchy_of f = map hier_object (dfs f)
  /\ collect_folder f st = fold_left collect_requirement (dfs f) st.
Proof. intros. split; [apply spec_objects_dfs|split; [apply hierarchy_dfs|apply collect_dfs]]. Qed.
Print Assumptions traversals_are_dfs.
(* no hypotheses *)

(* 1. coverage and order: SPEC-OBJECTS and the SPEC-HIERARCHY object references are, in this order,
      the identifiers of the module's requirements in depth-first order. *)
Theorem coverage : forall xhtml m q, export xhtml m = Ok q ->
  map so_id (q_objs q) = map req_id (dfs (m_root m))
  /\ map h_ref (q_hier q) = map req_id (dfs (m_root m))
  /\ map h_id (q_hier q) = map (fun r => T_hier_id (req_id r)) (dfs (m_root m)).
Proof. intros. split; [eapply coverage_objs; eauto|eapply coverage_hier; eauto]. Qed.
Print Assumptions coverage.
Example coverage_hyps_sat : exists q, export xh m_ok = Ok q /\ length (dfs (m_root m_ok)) = 2%nat.
Proof. destruct hyps_satisfiable as (_ & _ & _ & _ & _ & _ & _ & q & E & _). exists q. split; [exact E|reflexivity]. Qed.

(* 1'. exactly once, in both places, when no two requirements share a uuid (up to case) *)
Theorem exactly_once_each : forall xhtml m q r,
  UniqueUuidsUp m -> export xhtml m = Ok q -> In r (dfs (m_root m)) ->
  count_occ str_eq_dec (map so_id (q_objs q)) (req_id r) = 1%nat
  /\ count_occ str_eq_dec (map h_ref (q_hier q)) (req_id r) = 1%nat.
Proof. exact exactly_once. Qed.
Print Assumptions exactly_once_each.
(* r = the requirement a3 in the innermost folder of m_ok *)
Example exactly_once_each_hyps_sat :
  UniqueUuidsUp m_ok /\ (exists q, export xh m_ok = Ok q)
  /\ In (mkReq (u 3) None [] [] [] [] [] [mkAt None (PInt (-42))]) (dfs (m_root m_ok)).
Proof.
  destruct hyps_satisfiable as (_ & U & _ & _ & _ & _ & _ & q & E & _).
  split; [exact U|]. split; [exists q; exact E|]. simpl. right. left. reflexivity.
Qed.

(* 2. referential closure: the text of every *-REF element is the IDENTIFIER of an element of the
      document.  Hypotheses: requirement uuids are distinct; a definition uuid names one definition; a
      data-type identifier names one set of enumeration values; enumeration attributes have an
      enumeration definition with a data type and choose among its values.
      (This is about the source as generated: with `NULLTYPE--…` in _ref_attribute_definition the
      lemma attrref_none_is_decl, and with it this theorem, no longer checks.) *)
Theorem refs_closed : forall xhtml m q,
  UniqueReqs m -> DefsConsistent m -> DatatypesConsistent m -> EnumDeclared m ->
  export xhtml m = Ok q -> incl (references q) (identifiers q).
Proof. exact refs_closed_lemma. Qed.
Print Assumptions refs_closed.
(* m_ok: see hyps_satisfiable above.  m_ok2: two distinct attribute keys map to the same data-type
   identifier, so DatatypesConsistent is met with a non-trivial premise. *)
Example refs_closed_hyps_sat_2 :
  UniqueReqs m_ok2 /\ DefsConsistent m_ok2 /\ DatatypesConsistent m_ok2 /\ EnumDeclared m_ok2
  /\ (exists q, export xh m_ok2 = Ok q /\ length (q_objs q) = 2%nat)
  /\ (exists k k', In k (all_keys m_ok2) /\ In k' (all_keys m_ok2) /\ k <> k' /\ key_dtid k = key_dtid k').
Proof.
  split; [|split; [|split; [|split; [|split]]]].
  - unfold UniqueReqs. simpl. repeat constructor; simpl; intuition discriminate.
  - intros k k' Hk Hk' E. simpl in Hk, Hk'.
    repeat match goal with H : _ \/ _ |- _ => destruct H end; subst; try reflexivity; try contradiction;
      vm_compute in E; discriminate.
  - intros k k' Hk Hk' E. simpl in Hk, Hk'.
    repeat match goal with H : _ \/ _ |- _ => destruct H end; subst; try reflexivity; try contradiction;
      vm_compute in E; discriminate.
  - intros r a vs Hr Ha Hv. simpl in Hr.
    repeat match goal with H : _ \/ _ |- _ => destruct H end; subst; try contradiction; simpl in Ha;
      repeat match goal with H : _ \/ _ |- _ => destruct H end; subst; try contradiction; try discriminate.
    all: inversion Hv; subst; eexists; eexists; repeat split; intros x Hx; simpl in Hx |- *; intuition.
  - eexists. split. vm_compute. reflexivity. reflexivity.
  - exists (Some e_def, KEnum), (Some e_def2, KEnum). repeat split.
    + simpl. auto.
    + simpl. auto.
    + discriminate.
Qed.

(* 3. values: each spec object carries, in order, ForeignID = identifier (string), ChapterName, Name,
      Text (whatever lxml makes of the field, or of "<div></div>" when empty) and then one value per
      attribute, in attribute order; LONG-NAME and the type reference are the requirement's. *)
Theorem values_intact : forall xhtml m q, export xhtml m = Ok q ->
  Forall2 (intact xhtml) (dfs (m_root m)) (q_objs q).
Proof. exact values_intact_full. Qed.
Print Assumptions values_intact.
Example values_intact_hyps_sat : exists q, export xh m_ok = Ok q.
Proof. destruct hyps_satisfiable as (_ & _ & _ & _ & _ & _ & _ & q & E & _). exists q. exact E. Qed.

(* by definition of build_attr_value (its PEnum branch) *)
Theorem enum_choices : forall a vs, at_val a = PEnum vs ->
  build_attr_value a = VEnumV (attr_defref KEnum (at_def a)) (map (fun v => T_enumvalue_ref (up v)) vs).
Proof. exact enum_choices_intact. Qed.
Print Assumptions enum_choices.
Example enum_choices_hyps_sat : at_val (mkAt (Some e_def) (PEnum [u 8; u 9])) = PEnum [u 8; u 9].
Proof. reflexivity. Qed.

(* 4. uniqueness — PARTIAL.  Proved: the SPEC-OBJECT identifiers, the hierarchy object references and the
      SPEC-HIERARCHY identifiers are each duplicate-free.  Not proved as a theorem: NoDup of ALL
      identifiers of the document (data types, enumeration values, spec types and their attribute
      definitions, across classes); that part is checked on every exported document by the oracle.
      The full statement is FALSE for the code as it is — see ids_unique_refuted. *)
Theorem ids_unique_partial : forall xhtml m q, UniqueUuidsUp m -> export xhtml m = Ok q ->
  NoDup (map so_id (q_objs q)) /\ NoDup (map h_ref (q_hier q)) /\ NoDup (map h_id (q_hier q)).
Proof. exact objs_nodup. Qed.
Print Assumptions ids_unique_partial.
Example ids_unique_partial_hyps_sat : UniqueUuidsUp m_ok /\ exists q, export xh m_ok = Ok q.
Proof. destruct hyps_satisfiable as (_ & U & _ & _ & _ & _ & _ & q & E & _). split; [exact U|exists q; exact E]. Qed.

(* 4'. the data types generated from attribute definitions are duplicate-free (the visited_types set), and
       so are the five standard data types *)
Theorem datatype_ids_unique : forall xhtml m q, export xhtml m = Ok q ->
  exists dts, q_datatypes q = std_datatypes ++ dts /\ NoDup (map dd_id dts) /\ has_dup (map dd_id std_datatypes) = false.
Proof. exact datatypes_nodup. Qed.
Print Assumptions datatype_ids_unique.
(* on m_ok2 the generated part [dts] is not empty: 3 data types for 4 attribute keys (the two
   enumeration definitions share one) *)
Example datatype_ids_unique_hyps_sat :
  exists q, export xh m_ok2 = Ok q /\ length (q_datatypes q) = (length std_datatypes + 3)%nat.
Proof. eexists. split; [vm_compute; reflexivity|reflexivity]. Qed.

(* 5. compressed export: the archive holds one member, ARCHIVE_MEMBER, with the bytes of the plain export
      (zipfile as any pair with unzip (zip ms) = ms); compression happens only for compress=None and a
      path ending in ".reqifz". *)
(* by definition of write_container, plus the hypothesis instantiated at the one-member archive *)
Theorem compressed_same : forall (zip : list (str * str) -> str) (unzip : str -> option (list (str * str))),
  (forall ms, unzip (zip ms) = Some ms) -> forall doc,
  unzip (write_container zip true doc) = Some [(ARCHIVE_MEMBER, doc)] /\ write_container zip false doc = doc.
Proof. exact compressed_same_lemma. Qed.
Print Assumptions compressed_same.
(* a concrete length-prefixed archive format (Proofs/ReqifP.v, ex_zip / ex_unzip) meets the section
   hypothesis *)
Example compressed_same_hyps_sat :
  (forall ms, ex_unzip (ex_zip ms) = Some ms)
  /\ ex_unzip (write_container ex_zip true [1;2;3]%N) = Some [(ARCHIVE_MEMBER, [1;2;3]%N)]
  /\ ex_zip [([7]%N, [8;9]%N); ([]%N, [5]%N)] = [1;7;2;8;9;0;1;5]%N.
Proof. split; [exact ex_unzip_zip|split; vm_compute; reflexivity]. Qed.
(* by definition of decide_compress (case analysis on its three arguments) *)
Theorem compress_decision : forall c p name,
  decide_compress c p name = true <-> c = None /\ p = true /\ ends_with name COMPRESS_SUFFIX = true.
Proof. exact decide_compress_spec. Qed.
Print Assumptions compress_decision.
(* no hypotheses (an equivalence); both sides are inhabited, and both can fail *)
Example compress_decision_hyps_sat :
  decide_compress None true ([120]%N ++ COMPRESS_SUFFIX) = true
  /\ decide_compress None true [120;46;114;101;113;105;102]%N = false
  /\ decide_compress (Some true) true ([120]%N ++ COMPRESS_SUFFIX) = false.
Proof. repeat split. Qed.

(* 6. well-formed output exists — PARTIAL (guarded).  The export produces a document whenever every
      definition in use is complete for its use (an enumeration attribute has an enumeration definition
      with a data type) and lxml can parse every XHTML-typed field.  Without the guards the statement
      is false: export_total_refuted. *)
Theorem export_total_partial : forall xhtml m, DefsComplete m -> FieldsParse xhtml m -> exists q, export xhtml m = Ok q.
Proof. exact export_total_lemma. Qed.
Print Assumptions export_total_partial.
(* m_ok with the total parser: see hyps_satisfiable.  Here with a parser that rejects some inputs
   (so that FieldsParse is a real restriction), on the typed module m_ok2. *)
Example export_total_partial_hyps_sat :
  DefsComplete m_ok2 /\ FieldsParse xh_partial m_ok2
  /\ xh_partial [60;0;62]%N = Err E_ValueError.
Proof.
  split; [|split; [split|reflexivity]].
  - intros k H. simpl in H. repeat match goal with H : _ \/ _ |- _ => destruct H end; subst; try contradiction;
      split; eexists; vm_compute; reflexivity.
  - intros r H. simpl in H. repeat match goal with H : _ \/ _ |- _ => destruct H end; subst; try contradiction;
      repeat split; eexists; vm_compute; reflexivity.
  - eexists. vm_compute. reflexivity.
Qed.

(* REFUTED: all identifiers unique.  A typed and an untyped requirement, each with a Boolean attribute
   without definition: `_NULL-ATTRIBUTE-DEFINITION--BOOLEAN` is declared under both spec object types.
   (Confirmed on the implementation; recorded in known_findings.d/C20.json.) *)
Definition m_dup : module :=
  mkMod (u 0) (u 1) None []
    (Folder [mkReq (u 2) (Some (u 5)) [] [] [] [] [] [mkAt None (PBool true)];
             mkReq (u 3) None [] [] [] [] [] [mkAt None (PBool false)]] []).
Theorem ids_unique_refuted : exists m q,
  UniqueReqs m /\ UniqueUuidsUp m /\ DefsConsistent m /\ DatatypesConsistent m /\ EnumDeclared m
  /\ export xh m = Ok q /\ ~ NoDup (identifiers q).
Proof.
  destruct (export xh m_dup) as [q|] eqn:E; [|vm_compute in E; discriminate].
  exists m_dup, q. vm_compute in E. inversion E as [Eq]. clear E. subst q. repeat split.
  - unfold UniqueReqs. simpl. repeat constructor; simpl; intuition discriminate.
  - unfold UniqueUuidsUp. simpl. repeat constructor; simpl; intuition discriminate.
  - intros k k' Hk Hk' E. simpl in Hk, Hk'.
    repeat match goal with H : _ \/ _ |- _ => destruct H end; subst; try reflexivity; try contradiction.
  - intros k k' Hk Hk' E. simpl in Hk, Hk'.
    repeat match goal with H : _ \/ _ |- _ => destruct H end; subst; try reflexivity; try contradiction.
  - intros r a vs Hr Ha Hv. simpl in Hr.
    repeat match goal with H : _ \/ _ |- _ => destruct H end; subst; try contradiction; simpl in Ha;
      repeat match goal with H : _ \/ _ |- _ => destruct H end; subst; try contradiction; try discriminate.
  - apply has_dup_sound. vm_compute. reflexivity.
Qed.
Print Assumptions ids_unique_refuted.

(* REFUTED: export always produces a document.  An enumeration attribute without definition stops the
   export with AssertionError (confirmed on the implementation; recorded as a known finding). *)
Definition m_enum_nodef : module :=
  mkMod (u 0) (u 1) None [] (Folder [mkReq (u 2) None [] [] [] [] [] [mkAt None (PEnum [])]] []).
Theorem export_total_refuted : exists m, UniqueReqs m /\ export xh m = Err E_AssertionError.
Proof.
  exists m_enum_nodef. split. - unfold UniqueReqs. simpl. repeat constructor; simpl; intuition.
  - vm_compute. reflexivity.
Qed.
Print Assumptions export_total_refuted.
