(* C06 — A fragmented model behaves exactly like its single-file equivalent. *)
From Coq Require Import ZArith List Bool.
Import ListNotations.
From V Require Import Model.Val Model.Graph Proofs.GraphP.
Open Scope Z_scope.

(* 1. upward navigation: for every forest of fragments with exact indexes and globally unique
      handles, the parent computed through the href-source index (MelodyLoader.iterancestors /
      _unfollow_href) is the parent in the glued single-file tree, for every element whose
      placeholder is unique — in particular for every fragment root *)
Theorem parent_across_fragments : forall frs fr n,
  FragsOK frs -> GlobalHandles frs -> In fr frs -> In n (fnodes fr) -> UniquePlaceholder frs n ->
  parent_of frs (nh n) = glued_parent frs n.
Proof. exact parent_of_glue. Qed.
Print Assumptions parent_across_fragments.
(* hypotheses satisfiable, on the case the theorem is about: the root (handle 6, id 20) of the second fragment of
   GraphP.d_forest, whose only placeholder is element 3 of the first fragment; its glued parent is element 1 *)
Definition d_root2 : node := mkNode 6 None (Some 100) [20] [20] None.
Example parent_across_fragments_hyps_sat :
  FragsOK d_forest /\ GlobalHandles d_forest /\ In d2_frag d_forest /\ In d_root2 (fnodes d2_frag) /\
  UniquePlaceholder d_forest d_root2 /\ npar d_root2 = None /\ glued_parent d_forest d_root2 = Some 1.
Proof.
  split; [exact d_forest_ok|]. split; [exact d_forest_handles|]. split; [right; now left|]. split; [now left|].
  split; [|split; reflexivity].
  intros p1 p2 H1 H2 P1 P2. cbn in H1, H2.
  destruct H1 as [<-|[<-|[<-|[<-|[<-|[]]]]]]; try discriminate P1;
  destruct H2 as [<-|[<-|[<-|[<-|[<-|[]]]]]]; try discriminate P2; reflexivity.
Qed.

(* 2. hence whole ancestor chains (parent, layer, search(below=...)) coincide *)
(* by definition of ancestors_fuel / glued_ancestors_fuel: both iterate a parent function with the same fuel, so
   this only says that the iteration respects pointwise equality of the parent functions; the content is in
   parent_across_fragments, which supplies the hypothesis element by element *)
Theorem ancestors_across_fragments : forall frs gp, (forall h, parent_of frs h = gp h) ->
  forall fuel h, ancestors_fuel fuel frs h = glued_ancestors_fuel fuel gp h.
Proof. exact ancestors_glue. Qed.
Print Assumptions ancestors_across_fragments.
(* hypothesis satisfiable with a parent function written down independently (the parent table of the glued tree of
   GraphP.d_forest: 2,3 -> 1; 6 -> 1 through the placeholder 3; 7 -> 6), for EVERY handle *)
Definition d_gp (h : Z) : option Z :=
  if h =? 2 then Some 1 else if h =? 3 then Some 1 else if h =? 6 then Some 1 else if h =? 7 then Some 6 else None.
Example ancestors_across_fragments_hyps_sat :
  (forall h, parent_of d_forest h = d_gp h) /\ ancestors d_forest 7 = [6; 1].
Proof.
  split; [|reflexivity]. intro h. unfold d_gp.
  destruct (h =? 2) eqn:E2; [apply Z.eqb_eq in E2; subst; reflexivity|].
  destruct (h =? 3) eqn:E3; [apply Z.eqb_eq in E3; subst; reflexivity|].
  destruct (h =? 6) eqn:E6; [apply Z.eqb_eq in E6; subst; reflexivity|].
  destruct (h =? 7) eqn:E7; [apply Z.eqb_eq in E7; subst; reflexivity|].
  destruct (h =? 1) eqn:E1; [apply Z.eqb_eq in E1; subst; reflexivity|].
  apply Z.eqb_neq in E1, E2, E3, E6, E7.
  unfold parent_of, d_forest. cbn [find_in_frags].
  rewrite !find_node_none; [reflexivity| |];
    intros n Hn; cbn in Hn; repeat (destruct Hn as [<-|Hn]; [cbn; intro; subst h; contradiction|]); destruct Hn.
Qed.

(* 3. lookups and type searches are layout independent: they equal scans of the node lists,
      wherever the nodes live (C03's theorems, restated for a forest) *)
Theorem search_layout_independent : forall frs xts h, FragsOK frs -> (In h (search frs xts) <-> In h (scan_xt frs xts)).
Proof. exact search_exact. Qed.
Print Assumptions search_layout_independent.
Theorem lookup_layout_independent : forall frs u h, FragsOK frs -> (In h (matches frs u) <-> In h (scan_uuid frs u)).
Proof. exact matches_exact. Qed.
Print Assumptions lookup_layout_independent.
Example layout_independent_hyps_sat : FragsOK d_forest /\ search d_forest [100; 102] <> [] /\ matches d_forest 20 = [6].
Proof. split; [exact d_forest_ok|split; [discriminate|reflexivity]]. Qed.

(* 4. the uniqueness hypothesis is needed: if a fragment consulted earlier (the .aird, whose
      diagram elements reference the same id) also knows the id, the index-based search returns
      that element instead of the placeholder — the reason the loader must look at semantic
      fragments first *)
Definition aird_first : list frag :=
  let ph := mkNode 2 (Some 1) (Some 100) [] [] (Some 42) in      (* placeholder under element 1 *)
  let visual_ref := mkNode 9 (Some 8) None [] [] (Some 42) in    (* diagram element referencing id 42 *)
  let rootn := mkNode 3 None (Some 100) [42] [42] None in        (* fragment root with id 42 *)
  let mk k ns := match rebuild true ns with ROk ix => mkFrag k Semantic ns ix | RErr _ => mkFrag k Semantic [] empty_index end in
  [mk 0 [mkNode 8 None None [] [] None; visual_ref]; mk 1 [mkNode 1 None None [11] [11] None; ph]; mk 2 [rootn]].
Example placeholder_uniqueness_needed : parent_of aird_first 3 = Some 8 /\ parent_of (tl aird_first) 3 = Some 1.
Proof. split; reflexivity. Qed.

(* 5. downward navigation: the children the loader yields for an element (MelodyLoader.iterchildren_xt: a child that
      carries an href is replaced by what its id resolves to) are exactly the non-placeholder elements whose parent in
      the glued single-file tree is that element, and following a placeholder never fails — for every forest with
      globally unique handles, local parent pointers, placeholders that resolve to the only owner of their id and at
      most one placeholder per element.  Together with (1) upward and downward navigation describe the same tree. *)
From V Require Import Proofs.GraphChildrenP.
Theorem children_across_fragments : forall frs, GlobalHandles frs -> ParentsLocal frs -> PlaceholdersResolve frs ->
  (forall r, In r (all_nodes frs) -> UniquePlaceholder frs r) ->
  forall h, (forall k, In (Some k) (children_xt frs h) <->
                       exists cn, In cn (all_nodes frs) /\ nh cn = k /\ nhref cn = None /\ glued_parent frs cn = Some h)
            /\ ~ In None (children_xt frs h).
Proof. intros frs Hg Hl Hr Hu h. split; [intro k; now apply children_glue|now apply children_all_resolve]. Qed.
Print Assumptions children_across_fragments.
(* hypotheses satisfiable: GraphP.d_forest — element 1 has the child 2 and, through the placeholder 3, the root 6 of the
   second fragment *)
Example children_across_fragments_hyps_sat :
  GlobalHandles d_forest /\ ParentsLocal d_forest /\ PlaceholdersResolve d_forest /\
  (forall r, In r (all_nodes d_forest) -> UniquePlaceholder d_forest r) /\ children_xt d_forest 1 = [Some 2; Some 6].
Proof.
  split; [exact d_forest_handles|]. split; [|split; [|split; [|reflexivity]]].
  - intros fr n p Hfr Hn Hp. cbn in Hfr. destruct Hfr as [<-|[<-|[]]]; cbn in Hn.
    + destruct Hn as [<-|[<-|[<-|[]]]]; cbn in Hp; try discriminate; injection Hp as <-;
        (exists (mkNode 1 None (Some 100) [10] [10] None); split; [now left|reflexivity]).
    + destruct Hn as [<-|[<-|[]]]; cbn in Hp; try discriminate; injection Hp as <-.
      exists d_root2. split; [now left|reflexivity].
  - intros p u Hp Hu. cbn in Hp. destruct Hp as [<-|[<-|[<-|[<-|[<-|[]]]]]]; cbn in Hu; try discriminate.
    injection Hu as <-. exists d_root2. split; [reflexivity|]. split; [cbn; tauto|]. split; [reflexivity|]. split; [reflexivity|]. split; [now left|].
    intros n Hn Hin. cbn in Hn. destruct Hn as [<-|[<-|[<-|[<-|[<-|[]]]]]]; cbn in Hin;
      try reflexivity; try (destruct Hin as [E|[]]; discriminate E); try (destruct Hin).
  - intros r Hr p1 p2 H1 H2 P1 P2. cbn in H1, H2.
    destruct H1 as [<-|[<-|[<-|[<-|[<-|[]]]]]]; try discriminate P1;
    destruct H2 as [<-|[<-|[<-|[<-|[<-|[]]]]]]; try discriminate P2; reflexivity.
Qed.
