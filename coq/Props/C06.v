(* C06 — A fragmented model behaves exactly like its single-file equivalent. *)
From Coq Require Import ZArith List Bool.
Import ListNotations.
From V Require Import Model.Val Model.Graph Proofs.GraphP.
Open Scope Z_scope.

(* 1. upward navigation: for every forest of fragments with exact indexes and globally unique
      handles, the parent computed through the href-source index (MelodyLoader.iterancestors /
      _unfollow_href) is the parent in the glued single-file tree, for every element whose
      placeholder is unique — in particular for every fragment root *)
Theorem parent_across_fragments : forall frs fr n,
  FragsOK frs -> GlobalHandles frs -> In fr frs -> In n (fnodes fr) -> UniquePlaceholder frs n ->
  parent_of frs (nh n) = glued_parent frs n.
Proof. exact parent_of_glue. Qed.
Print Assumptions parent_across_fragments.

(* 2. hence whole ancestor chains (parent, layer, search(below=...)) coincide *)
Theorem ancestors_across_fragments : forall frs gp, (forall h, parent_of frs h = gp h) ->
  forall fuel h, ancestors_fuel fuel frs h = glued_ancestors_fuel fuel gp h.
Proof. exact ancestors_glue. Qed.
Print Assumptions ancestors_across_fragments.

(* 3. lookups and type searches are layout independent: they equal scans of the node lists,
      wherever the nodes live (C03's theorems, restated for a forest) *)
Theorem search_layout_independent : forall frs xts h, FragsOK frs -> (In h (search frs xts) <-> In h (scan_xt frs xts)).
Proof. exact search_exact. Qed.
Print Assumptions search_layout_independent.
Theorem lookup_layout_independent : forall frs u h, FragsOK frs -> (In h (matches frs u) <-> In h (scan_uuid frs u)).
Proof. exact matches_exact. Qed.
Print Assumptions lookup_layout_independent.

(* 4. the uniqueness hypothesis is needed: if a fragment consulted earlier (the .aird, whose
      diagram elements reference the same id) also knows the id, the index-based search returns
      that element instead of the placeholder — the reason the loader must look at semantic
      fragments first *)
Definition aird_first : list frag :=
  let ph := mkNode 2 (Some 1) (Some 100) [] [] (Some 42) in      (* placeholder under element 1 *)
  let visual_ref := mkNode 9 (Some 8) None [] [] (Some 42) in    (* diagram element referencing id 42 *)
  let rootn := mkNode 3 None (Some 100) [42] [42] None in        (* fragment root with id 42 *)
  let mk k ns := match rebuild true ns with ROk ix => mkFrag k Semantic ns ix | RErr _ => mkFrag k Semantic [] empty_index end in
  [mk 0 [mkNode 8 None None [] [] None; visual_ref]; mk 1 [mkNode 1 None None [11] [11] None; ph]; mk 2 [rootn]].
Example placeholder_uniqueness_needed : parent_of aird_first 3 = Some 8 /\ parent_of (tl aird_first) 3 = Some 1.
Proof. split; reflexivity. Qed.
