(* C02 — A saved model reloads to exactly what was in memory.
   Property theorems only.  save = update_namespaces ; write (Model/SerNs.v, Model/SerExs.v),
   reload = the reference reader (Model/XmlRead.v).  Tables (NS_PLUGINS, escape classes, ...) are
   re-extracted from /repo on every run (Gen/ExsConsts.v). *)
From Coq Require Import ZArith NArith List Bool Permutation Sorted.
Import ListNotations.
From V Require Import Model.Val Model.XmlTree Gen.ExsConsts Model.SerExs Model.XmlRead Model.SerNs
                      Proofs.SerExsP Proofs.XmlReadP Proofs.SerNsP.
Open Scope N_scope.

(* ---- 1. what is written reloads to what was in memory ------------------------------------ *)
(* 1a. every attribute value — any code point string — is read back unchanged *)
Theorem attribute_value_reloads : forall nsmap kv n w, unmap_attr nsmap kv = ROk (n, w) -> dec_val w = snd kv.
Proof. exact unmap_attr_value. Qed.
Print Assumptions attribute_value_reloads.
(* hypothesis satisfiable: attribute {http://x}id with value a, LT, QUOT, AMP, b; prefix p is bound to http://x;
   the written name is p:id and the written value differs from the value in memory (it is escaped) *)
Definition ex_nsmap : list (str * str) := [([112], [104;116;116;112;58;47;47;120])].
Definition ex_kv : qname * str := (QN [104;116;116;112;58;47;47;120] [105;100], [97;60;34;38;98]).
Example attribute_value_reloads_hyps_sat :
  exists n w, unmap_attr ex_nsmap ex_kv = ROk (n, w) /\ n = [112;58;105;100] /\ w <> snd ex_kv.
Proof. eexists. eexists. split; [reflexivity|split; [reflexivity|discriminate]]. Qed.

(* 1b. stage A (attribute-only subtrees: everything except specification bodies/languages):
       reading the written element gives back the element — same tag, attributes in written order
       with decoded values, same children in the same order.  Full statement (all documents incl.
       text, tails, comments): design 4/C02.1; not proved, covered by the differential run. *)
Theorem save_reload_partial : forall cfg ll root ind pos r rest, stageA r ->
  read_elem (fst (lay_elem cfg ll root ind pos r) ++ rest) = Some (decode_tree r, rest).
Proof. intros. now apply read_lay_elem. Qed.
Print Assumptions save_reload_partial.
(* hypothesis satisfiable: element a:b with attributes id (written value x&amp;y) and n, and two children: c with one
   attribute, d without *)
Ltac name_ok_tac := split; [discriminate|repeat constructor].
Ltac attr_ok_tac := split; [name_ok_tac|split; [cbn; intuition discriminate|vm_compute; discriminate]].
Definition ex_relem : relem :=
  RElem [97;58;98] [([105;100], [120;38;97;109;112;59;121]); ([110], [49])] true None
    [RElem [99] [([107], [118])] false None [] None; RElem [100] [] false None [] None] None.
Example save_reload_partial_hyps_sat : stageA ex_relem.
Proof.
  constructor; [name_ok_tac|repeat (apply Forall_cons; [attr_ok_tac|]); apply Forall_nil|].
  apply Forall_cons; [constructor; [name_ok_tac|repeat (apply Forall_cons; [attr_ok_tac|]); apply Forall_nil|apply Forall_nil]|].
  apply Forall_cons; [constructor; [name_ok_tac|apply Forall_nil|apply Forall_nil]|apply Forall_nil].
Qed.

(* 1c. the statement fails on the unrepaired writer for two kinds of text (replayed on the
       implementation by harness/c02.py; proposed_fixes/C02-*.diff):
       - "]]>" inside element text is written verbatim, which no XML parser accepts; *)
Theorem save_reload_refuted_cdata_end : forall cfg, fix_cdata cfg = false ->
  has_cdata_end (fst (ser_text cfg TEXT_CLASS true (Some [97; 93; 93; 62; 98]) 0)) = true.
Proof. exact cdata_end_written. Qed.
Print Assumptions save_reload_refuted_cdata_end.
Theorem cdata_end_repaired : forall cfg, fix_cdata cfg = true ->
  fst (ser_text cfg TEXT_CLASS true (Some [97; 93; 93; 62; 98]) 0) = [97; 93; 93; 38; 103; 116; 59; 98].
Proof. exact cdata_end_fixed_example. Qed.
Print Assumptions cdata_end_repaired.
(*     - whitespace-only text of a leaf element (a specification body " ") is not written at all *)
Theorem save_reload_refuted_blank_text : forall cfg, fix_blank_leaf cfg = false ->
  text_written cfg true (Some [32]) = false.
Proof. exact blank_leaf_dropped. Qed.
Print Assumptions save_reload_refuted_blank_text.
Theorem blank_text_repaired : forall cfg t, fix_blank_leaf cfg = true -> t <> [] -> text_written cfg true (Some t) = true.
Proof. exact blank_leaf_kept. Qed.
Print Assumptions blank_text_repaired.
Example cfg_unrepaired_exists : fix_cdata (SCfg false false) = false /\ fix_blank_leaf (SCfg false false) = false.
Proof. split; reflexivity. Qed.
Example cfg_repaired_exists : fix_cdata (SCfg true true) = true /\ fix_blank_leaf (SCfg true true) = true.
Proof. split; reflexivity. Qed.
Example blank_text_repaired_hyps_sat : fix_blank_leaf (SCfg true true) = true /\ [32; 10] <> @nil N.
Proof. split; [reflexivity|discriminate]. Qed.

(* ---- 2. namespaces ------------------------------------------------------------------------ *)
(* 2a. update_ns_closes: after a successful recomputation every prefix used by an element type is
       bound: to the plugin's URI — with the activated viewpoint's version rounded by _round_version
       for versioned plugins — or, for an unknown prefix, to the URI the element has in scope; the
       seed prefixes xmi / xsi are bound *)
Theorem update_ns_closes : forall vps xs m, compute_nsmap vps xs = ROk m ->
  (forall x uri, In x xs -> wanted vps x uri -> assoc_str (before_colon (fst x)) m = Some uri)
  /\ extends seed_map m.
Proof. exact compute_nsmap_closes. Qed.
Print Assumptions update_ns_closes.
(* hypotheses (outer and inner) satisfiable together: viewpoint version 5.2.0, three typed elements: two of the
   versioned plugin "libraries", one of an unknown prefix "myext" bound in scope to http://e; the recomputation
   succeeds, and both elements have a wanted URI *)
Definition ex_vps : list (str * str) :=
  [([111;114;103;46;112;111;108;97;114;115;121;115;46;99;97;112;101;108;108;97;46;99;111;114;101;46;118;105;101;119;112;111;105;110;116], [53;46;50;46;48])].
Definition ex_xs : list (str * option str) :=
  [([108;105;98;114;97;114;105;101;115;58;88], None);
   ([109;121;101;120;116;58;84], Some [104;116;116;112;58;47;47;101]);
   ([108;105;98;114;97;114;105;101;115;58;89], None)].
Example update_ns_closes_hyps_sat :
  (exists m, compute_nsmap ex_vps ex_xs = ROk m) /\
  In ([109;121;101;120;116;58;84], Some [104;116;116;112;58;47;47;101]) ex_xs /\
  wanted ex_vps ([109;121;101;120;116;58;84], Some [104;116;116;112;58;47;47;101]) [104;116;116;112;58;47;47;101] /\
  (exists uri, wanted ex_vps ([108;105;98;114;97;114;105;101;115;58;88], None) uri).
Proof.
  split; [eexists; vm_compute; reflexivity|]. split; [right; now left|]. split; [reflexivity|].
  eexists. unfold wanted. vm_compute. reflexivity.
Qed.

(* 2b. the root is replaced only when the map changed; the new root's map has the same bindings,
       sorted by prefix *)
Theorem update_ns_root : forall old vps xs out, update_namespaces old vps xs = ROk out ->
  exists m, compute_nsmap vps xs = ROk m /\
    match out with
    | None => dict_eqb old m = true
    | Some m' => dict_eqb old m = false /\ Permutation m' m /\ Sorted p_le m'
    end.
Proof. exact update_namespaces_spec. Qed.
Print Assumptions update_ns_root.
(* hypothesis satisfiable in both branches: against an empty old map the root is replaced; against a reordered copy
   of the computed map it is kept *)
Example update_ns_root_hyps_sat :
  (exists m', update_namespaces [] ex_vps ex_xs = ROk (Some m')) /\
  (exists m, compute_nsmap ex_vps ex_xs = ROk m /\ update_namespaces (rev m) ex_vps ex_xs = ROk None).
Proof. split; [eexists; vm_compute; reflexivity|]. eexists. split; vm_compute; reflexivity. Qed.

(* 2c. _round_version keeps the number of parts; either returns the string unchanged (fewer than
       prec dots) or keeps the first prec dot-terminated parts and turns every later part into "0" *)
Theorem round_version_keeps_parts : forall v prec r, round_version v prec = ROk r ->
  count_dots r = count_dots v /\
  (r = v \/ exists pre rest, v = pre ++ rest /\ r = pre ++ zero_parts rest false
                             /\ (count_dots pre <= N.to_nat prec)%nat /\ (rest <> [] -> count_dots pre = N.to_nat prec)
                             /\ Forall (fun c => c = 48 \/ c = DOT) (zero_parts rest false)).
Proof. exact round_version_spec. Qed.
Print Assumptions round_version_keeps_parts.
Example round_version_keeps_parts_hyps_sat : exists r, round_version [53;46;50;46;51] 1 = ROk r /\ r <> [53;46;50;46;51].
Proof. eexists. split; [reflexivity|discriminate]. Qed.
Example round_version_example : round_version [53;46;50;46;51] 1 = ROk [53;46;48;46;48].
Proof. reflexivity. Qed.
Example compute_example :
  compute_nsmap [([111;114;103;46;112;111;108;97;114;115;121;115;46;99;97;112;101;108;108;97;46;99;111;114;101;46;118;105;101;119;112;111;105;110;116], [53;46;50;46;48])]
                [([108;105;98;114;97;114;105;101;115;58;88], None)]
  <> RErr E_Corrupt.
Proof. vm_compute. discriminate. Qed.
