(* C05 — References written by the library resolve back and use Capella's link format. *)
From Coq Require Import ZArith NArith List Bool.
Import ListNotations.
From V Require Import Model.Val Model.Paths Model.PyPrims Model.Quote Model.LinkRe Model.Links
  Proofs.PathsP Proofs.QuoteP Proofs.LinksP Proofs.Ties Proofs.LinksGenP Gen.Fn_helpers.

(* 1. The relative path written for a cross-fragment link, resolved against the directory of the
      source fragment, is the target fragment — any depth, any number of '..' climbs.
      Guard: [from] is not a prefix of [to] (two distinct *files* never are). *)
Theorem relpath_resolves : forall from to,
  from <> [] -> is_prefix from to = false -> has_dotdot from = false -> has_dotdot to = false ->
  normalize_parts (removelast from ++ relpath to from) = to.
Proof. exact relpath_normalize. Qed.
Print Assumptions relpath_resolves.
(* hypotheses satisfiable together, with a climb: from "a/b/m.capella" to "a/lib/x y.fragment" the link is
   "../lib/x y.fragment" *)
Definition ex_from : list part := [[97]; [98]; [109;46;99;97;112;101;108;108;97]]%N.
Definition ex_to : list part := [[97]; [108;105;98]; [120;32;121;46;102;114;97;103;109;101;110;116]]%N.
Definition ex_uuid : str := [98;45;49]%N.
Definition ex_type : str := [116;58;88]%N.
Example relpath_resolves_hyps_sat :
  ex_from <> [] /\ is_prefix ex_from ex_to = false /\ has_dotdot ex_from = false /\ has_dotdot ex_to = false /\
  relpath ex_to ex_from = [dotdot; [108;105;98]; [120;32;121;46;102;114;97;103;109;101;110;116]]%N.
Proof. repeat split; try reflexivity; discriminate. Qed.

(* 1'. the function translated from helpers.relpath_pure on this run is the model *)
Theorem translated_relpath_is_model : forall path start,
  relpath_pure path start = py_of_parts (relpath (py_parts path) (py_parts start)).
Proof. exact tie_relpath. Qed.
Print Assumptions translated_relpath_is_model.

(* 2. percent-quoting round trip on all byte strings *)
Theorem quote_unquote : forall safe bs,
  Forall (fun b => (b < 256)%N) bs -> memN PCT safe = false -> unquote (quote safe bs) = bs.
Proof. exact unquote_quote. Qed.
Print Assumptions quote_unquote.
(* hypotheses satisfiable: "a b%/" + UTF-8 e-acute, '/' safe; quoting changes the string *)
Example quote_unquote_hyps_sat :
  Forall (fun b => (b < 256)%N) [97;32;98;37;47;195;169]%N /\ memN PCT [SLASH] = false /\
  quote [SLASH] [97;32;98;37;47;195;169]%N <> [97;32;98;37;47;195;169]%N.
Proof. split; [repeat constructor|split; [reflexivity|vm_compute; discriminate]]. Qed.

(* 3. link syntax: the three forms parse back to their components *)
Theorem link_parse_format_typed : forall xt fr u, wf_tok xt = true -> wf_tok fr = true -> wf_uuid u = true ->
  parse_link (xt ++ [SPACE] ++ fr ++ [HASH] ++ u) = Some (Some xt, Some fr, u).
Proof. exact parse_format_typed. Qed.
Print Assumptions link_parse_format_typed.
Theorem link_parse_format_untyped : forall fr u, wf_tok fr = true -> wf_uuid u = true ->
  parse_link (fr ++ [HASH] ++ u) = Some (None, Some fr, u).
Proof. exact parse_format_untyped. Qed.
Print Assumptions link_parse_format_untyped.
Theorem link_parse_format_local : forall u, wf_uuid u = true -> parse_link (HASH :: u) = Some (None, None, u).
Proof. exact parse_format_local. Qed.
Print Assumptions link_parse_format_local.
(* hypotheses of the three parse theorems satisfiable together: type "t:X", fragment "f.c", id "b-1" *)
Example link_parse_format_hyps_sat :
  wf_tok ex_type = true /\ wf_tok [102;46;99]%N = true /\ wf_uuid ex_uuid = true.
Proof. repeat split. Qed.

(* 4. create_link: for every pair of fragment paths (all layouts: depth, '..' climbs, any bytes in
      names — spaces, '%', non-ASCII as UTF-8), the text produced parses as a link carrying the
      target's id, and its fragment part resolves to exactly the target fragment. *)
Theorem create_link_resolves_cross : forall from to vis incl ty u,
  wf_frag from -> wf_frag to -> wf_uuid u = true ->
  match ty with Some t => wf_tok t = true | None => True end ->
  parts_eqb from to = false -> is_prefix from to = false ->
  resolve_fragment from (create_link_text from to vis incl ty u) = Some to
  /\ exists xt fr, parse_link (create_link_text from to vis incl ty u) = Some (xt, Some fr, u).
Proof. exact create_resolve_cross. Qed.
Print Assumptions create_link_resolves_cross.
(* all six hypotheses hold together; the text produced is "t:X ../lib/x%20y.fragment#b-1" *)
Example wf_frags : wf_frag ex_from /\ wf_frag ex_to.
Proof. split; (split; [repeat constructor|split; [reflexivity|discriminate]]). Qed.
Example create_link_resolves_cross_hyps_sat :
  wf_frag ex_from /\ wf_frag ex_to /\ wf_uuid ex_uuid = true /\
  match Some ex_type with Some t => wf_tok t = true | None => True end /\
  parts_eqb ex_from ex_to = false /\ is_prefix ex_from ex_to = false /\
  create_link_text ex_from ex_to false None (Some ex_type) ex_uuid =
    [116;58;88;32;46;46;47;108;105;98;47;120;37;50;48;121;46;102;114;97;103;109;101;110;116;35;98;45;49]%N.
Proof. split; [apply wf_frags|split; [apply wf_frags|repeat split]]. Qed.

Theorem create_link_same_fragment : forall from to vis incl ty u,
  wf_frag from -> wf_uuid u = true -> parts_eqb from to = true ->
  create_link_text from to vis incl ty u = HASH :: u /\
  resolve_fragment from (create_link_text from to vis incl ty u) = Some to.
Proof. exact create_resolve_same. Qed.
Print Assumptions create_link_same_fragment.
Example create_link_same_fragment_hyps_sat :
  wf_frag ex_from /\ wf_uuid ex_uuid = true /\ parts_eqb ex_from ex_from = true.
Proof. split; [apply wf_frags|split; reflexivity]. Qed.

(* the form Capella writes: typed iff requested (default: source not visual) and the target has a type *)
(* by definition of create_link_text (its else-branch with the two nested conditionals merged into one match) *)
Theorem create_link_form : forall from to vis incl ty u,
  parts_eqb from to = false ->
  create_link_text from to vis incl ty u =
    match (match incl with Some b => b | None => negb vis end), ty with
    | true, Some t => t ++ [SPACE] ++ quote [SLASH] (path_str (relpath to from)) ++ [HASH] ++ u
    | _, _ => quote [SLASH] (path_str (relpath to from)) ++ [HASH] ++ u
    end.
Proof. exact create_form_cross_free. Qed.
Print Assumptions create_link_form.
Example create_link_form_hyps_sat : parts_eqb ex_from ex_to = false.
Proof. reflexivity. Qed.

(* 5. split_links translated from the source equals the recursive token model *)
Theorem translated_split_links_is_model : forall s, split_links s = split_links_model s.
Proof. exact tie_split_links. Qed.
Print Assumptions translated_split_links_is_model.

(* 6. a space-separated list of links of ANY length (stronger than the bounded length of the property text), mixing
      '#id', 'path#id' and 'type path#id', survives encode + split in order — stated for the function translated from
      helpers.split_links on this run *)
Theorem link_lists_survive_encode_split : forall ls, Forall wf_lnk ls -> Forall ws_free_lnk ls ->
  split_links (join_with SPACE (map render ls)) = Ok (map render ls).
Proof. exact translated_split_links_join. Qed.
Print Assumptions link_lists_survive_encode_split.
Example link_list_hypotheses_satisfiable :
  Forall wf_lnk [LLocal [97]%N; LTyped [116;58;88]%N [102;46;99]%N [98]%N; LUntyped [103]%N [99]%N] /\
  Forall ws_free_lnk [LLocal [97]%N; LTyped [116;58;88]%N [102;46;99]%N [98]%N; LUntyped [103]%N [99]%N].
Proof. split; repeat constructor. Qed.

(* non-vacuity *)
Example wf_example :
  wf_frag [[0]; [76;105;98]; [97;32;98;46;99]]%N /\ wf_uuid [97;45;49]%N = true /\
  is_prefix [[0]; [120]]%N [[0]; [76;105;98]; [97;32;98;46;99]]%N = false.
Proof. repeat split; try reflexivity; repeat constructor; discriminate. Qed.
Example guard_needed : exists from to, is_prefix from to = true /\ normalize_parts (removelast from ++ relpath to from) <> to.
Proof. exists [[97]]%N, [[97]; [98]]%N. split; [reflexivity|vm_compute; discriminate]. Qed.
