(* C15 — A failed save leaves the files on disk exactly as they were.
   Property theorems only; each is closed by [exact] of a lemma proved in Proofs/SaveTxnP.v.

   [save tmp decl fixed flt files idle frags order dry] (Model/SaveTxn.v) mirrors
   MelodyLoader.save + LocalFileHandler.open/write_transaction + exs.write with a fault injected
   at the fault points selected by [flt]; fixed = true is the transaction code with
   proposed_fixes/C15-txn-cleanup.diff applied (the theorems), fixed = false the code as found
   (refuted below).  Hypotheses: the fragment names are distinct, their temporary names are distinct
   and are not fragment names (decided by [tmp_ok] for the concrete _tmpname, see [tmp_ok_sound]),
   [order] (iteration order of the transaction set) enumerates them, and no stale temporary file
   is in the directory.  [fs_eq]: the two directories have the same files with the same bytes. *)
From Coq Require Import ZArith NArith List Bool.
Import ListNotations.
From V Require Import Model.Val Model.PyPrims Model.SaveTxn Proofs.SaveTxnP Gen.SaveTxnConsts.

(* ---- the concrete instance used by the [*_hyps_sat] examples below (each shows that ALL hypotheses of
        one theorem hold together): the real _tmpname constants, a non-empty declaration, a directory
        with three files (two of them fragments, one of those in a sub-directory, one unrelated file),
        a save of two fragments, the transaction set iterated in the opposite order ---- *)
Definition hs_tmp : str -> str := tmpname TMP_PREFIX TMP_SUFFIX TMP_LIMIT.
Definition hs_decl : str := [60;63;120;63;62]%N.                                   (* <?x?> *)
Definition hs_files : list (str * str) :=
  [([97;46;120]%N, [1]%N); ([122]%N, [9]%N); ([100;47;98;46;121]%N, [2]%N)].       (* a.x, z, d/b.y *)
Definition hs_frags : list (str * str) := [([97;46;120]%N, [3]%N); ([100;47;98;46;121]%N, [4]%N)].
Definition hs_order : list str := [[100;47;98;46;121]%N; [97;46;120]%N].
Definition hs_side : Prop :=
  NoDup (map fst hs_frags)
  /\ (forall a b, In a (map fst hs_frags) -> In b (map fst hs_frags) -> hs_tmp a = hs_tmp b -> a = b)
  /\ (forall a b, In a (map fst hs_frags) -> In b (map fst hs_frags) -> hs_tmp a <> b)
  /\ NoDup hs_order /\ incl (map fst hs_frags) hs_order
  /\ (forall n, In n (map fst hs_frags) -> fs_get hs_files (hs_tmp n) = None).
Example hs_side_holds : hs_side.
Proof.
  assert (T : tmp_ok hs_tmp (map fst hs_frags) = true) by (vm_compute; reflexivity).
  destruct (tmp_ok_sound _ _ T) as (A & B & C).
  split; [exact A|]. split; [exact B|]. split; [exact C|].
  split; [apply nodupS_NoDup; vm_compute; reflexivity|].
  split; [intros n [<-|[<-|[]]]; cbn; tauto|].
  intros n [<-|[<-|[]]]; vm_compute; reflexivity.
Qed.

(* 1. a fault at ANY point before the commit (k-th of: open / serialise / write declaration /
      write payload / close, for each fragment), of any kind e, dry run or not: the caller sees
      exactly e, every file is byte-identical, no temporary file remains, the handler is idle *)
Theorem failed_save_restores : forall tmp decl (f frags : list (str * str)) order,
  NoDup (map fst frags) ->
  (forall a b, In a (map fst frags) -> In b (map fst frags) -> tmp a = tmp b -> a = b) ->
  NoDup order -> incl (map fst frags) order ->
  (forall n, In n (map fst frags) -> fs_get f (tmp n) = None) ->
  forall k e dry, (k < 5 * length frags)%nat ->
  exists f2, save tmp decl true (single_fault k e) f true frags order dry = (f2, true, Some e) /\ fs_eq f2 f.
Proof. intros tmp decl f frags order H1 H2 H3 H4 H5 k e dry. refine (failed_save_restores_l tmp decl f frags order H1 H2 H3 H4 H5 k e dry). Qed.
Print Assumptions failed_save_restores.
(* all hypotheses together: fault at the 8th point = f.write(declaration) of the SECOND fragment, real save *)
Example failed_save_restores_hyps_sat :
  NoDup (map fst hs_frags)
  /\ (forall a b, In a (map fst hs_frags) -> In b (map fst hs_frags) -> hs_tmp a = hs_tmp b -> a = b)
  /\ NoDup hs_order /\ incl (map fst hs_frags) hs_order
  /\ (forall n, In n (map fst hs_frags) -> fs_get hs_files (hs_tmp n) = None)
  /\ (7 < 5 * length hs_frags)%nat
  /\ save hs_tmp hs_decl true (single_fault 7 E_OSError) hs_files true hs_frags hs_order false
     = (hs_files, true, Some E_OSError).
Proof.
  destruct hs_side_holds as (A & B & _ & D & E & F).
  repeat (split; [assumption|]). split; [cbn; repeat constructor|vm_compute; reflexivity].
Qed.

(* 1'. ... and the same model can then be saved successfully: the retry commits every fragment *)
Theorem retry_succeeds : forall tmp decl (f frags : list (str * str)) order,
  NoDup (map fst frags) ->
  (forall a b, In a (map fst frags) -> In b (map fst frags) -> tmp a = tmp b -> a = b) ->
  (forall a b, In a (map fst frags) -> In b (map fst frags) -> tmp a <> b) ->
  NoDup order -> incl (map fst frags) order ->
  (forall n, In n (map fst frags) -> fs_get f (tmp n) = None) ->
  forall k e dry, (k < 5 * length frags)%nat ->
  exists f2 f3,
    save tmp decl true (single_fault k e) f true frags order dry = (f2, true, Some e)
    /\ save tmp decl true no_fault f2 true frags order false = (f3, true, None)
    /\ (forall n c, In (n, c) frags -> fs_get f3 n = Some (decl ++ c))
    /\ (forall m, ~ In m (map fst frags) -> fs_get f3 m = fs_get f m).
Proof. exact retry_succeeds_l. Qed.
Print Assumptions retry_succeeds.
(* all hypotheses together: fault at f.close() of the first fragment (point 4), dry run, then the retry *)
Example retry_succeeds_hyps_sat :
  NoDup (map fst hs_frags)
  /\ (forall a b, In a (map fst hs_frags) -> In b (map fst hs_frags) -> hs_tmp a = hs_tmp b -> a = b)
  /\ (forall a b, In a (map fst hs_frags) -> In b (map fst hs_frags) -> hs_tmp a <> b)
  /\ NoDup hs_order /\ incl (map fst hs_frags) hs_order
  /\ (forall n, In n (map fst hs_frags) -> fs_get hs_files (hs_tmp n) = None)
  /\ (4 < 5 * length hs_frags)%nat
  /\ save hs_tmp hs_decl true (single_fault 4 E_KeyboardInterrupt) hs_files true hs_frags hs_order true
     = (hs_files, true, Some E_KeyboardInterrupt).
Proof.
  destruct hs_side_holds as (A & B & C & D & E & F).
  repeat (split; [assumption|]). split; [cbn; repeat constructor|vm_compute; reflexivity].
Qed.

(* 2. a dry-run save changes nothing *)
Theorem dry_run_noop : forall tmp decl (f frags : list (str * str)) order,
  NoDup (map fst frags) ->
  (forall a b, In a (map fst frags) -> In b (map fst frags) -> tmp a = tmp b -> a = b) ->
  NoDup order -> incl (map fst frags) order ->
  (forall n, In n (map fst frags) -> fs_get f (tmp n) = None) ->
  exists f2, save tmp decl true no_fault f true frags order true = (f2, true, None) /\ fs_eq f2 f.
Proof. intros tmp decl f frags order H1 H2 H3 H4 H5. refine (dry_run_noop_l tmp decl f frags order H1 H2 H3 H4 H5). Qed.
Print Assumptions dry_run_noop.
Example dry_run_noop_hyps_sat :
  NoDup (map fst hs_frags)
  /\ (forall a b, In a (map fst hs_frags) -> In b (map fst hs_frags) -> hs_tmp a = hs_tmp b -> a = b)
  /\ NoDup hs_order /\ incl (map fst hs_frags) hs_order
  /\ (forall n, In n (map fst hs_frags) -> fs_get hs_files (hs_tmp n) = None)
  /\ save hs_tmp hs_decl true no_fault hs_files true hs_frags hs_order true = (hs_files, true, None).
Proof.
  destruct hs_side_holds as (A & B & _ & D & E & F).
  repeat (split; [assumption|]). vm_compute; reflexivity.
Qed.

(* 3. a successful save: every fragment holds its complete new content (declaration ++ payload,
      serialised before the first byte is written), nothing else changes, no temporary file remains *)
Theorem commit_complete : forall tmp decl (f frags : list (str * str)) order,
  NoDup (map fst frags) ->
  (forall a b, In a (map fst frags) -> In b (map fst frags) -> tmp a = tmp b -> a = b) ->
  (forall a b, In a (map fst frags) -> In b (map fst frags) -> tmp a <> b) ->
  NoDup order -> incl (map fst frags) order ->
  (forall n, In n (map fst frags) -> fs_get f (tmp n) = None) ->
  exists f2, save tmp decl true no_fault f true frags order false = (f2, true, None)
    /\ (forall n c, In (n, c) frags -> fs_get f2 n = Some (decl ++ c))
    /\ (forall m, ~ In m (map fst frags) -> fs_get f2 m = fs_get f m).
Proof. exact commit_complete_l. Qed.
Print Assumptions commit_complete.
Example commit_complete_hyps_sat :
  NoDup (map fst hs_frags)
  /\ (forall a b, In a (map fst hs_frags) -> In b (map fst hs_frags) -> hs_tmp a = hs_tmp b -> a = b)
  /\ (forall a b, In a (map fst hs_frags) -> In b (map fst hs_frags) -> hs_tmp a <> b)
  /\ NoDup hs_order /\ incl (map fst hs_frags) hs_order
  /\ (forall n, In n (map fst hs_frags) -> fs_get hs_files (hs_tmp n) = None)
  /\ exists f2, save hs_tmp hs_decl true no_fault hs_files true hs_frags hs_order false = (f2, true, None)
       /\ fs_get f2 [100;47;98;46;121]%N = Some (hs_decl ++ [4]%N) /\ fs_get f2 [122]%N = Some [9]%N.
Proof.
  destruct hs_side_holds as (A & B & C & D & E & F).
  repeat (split; [assumption|]). eexists. split; [vm_compute; reflexivity|]. split; vm_compute; reflexivity.
Qed.

(* 3'. under EVERY fault schedule (any number of faults, anywhere, including rename/unlink during
       commit or clean-up) and for dry and real saves: each fragment file is either untouched or holds
       its complete new content — never a prefix —, files that are neither fragments nor their
       temporaries are untouched, and the handler is idle again afterwards *)
(* audit note: the conjunct [idle' = true] (and the [true] in the results of 1, 1', 2, 3) is by definition
   of [save] with fixed = true ([if fixed then true else ...], the `finally` of the proposed fix); what it
   says about the implementation rests on the differential correspondence, not on this proof.  The other
   two conjuncts are proved properties of the model. *)
Theorem never_partial_always_idle : forall tmp decl (f frags : list (str * str)) order,
  (forall a b, In a (map fst frags) -> In b (map fst frags) -> tmp a = tmp b -> a = b) ->
  (forall a b, In a (map fst frags) -> In b (map fst frags) -> tmp a <> b) ->
  NoDup order -> incl (map fst frags) order ->
  forall flt dry f2 idle' res,
  save tmp decl true flt f true frags order dry = (f2, idle', res) ->
  idle' = true
  /\ (forall n c, In (n, c) frags -> fs_get f2 n = fs_get f n \/ fs_get f2 n = Some (decl ++ c))
  /\ (forall m, ~ In m (map fst frags) -> ~ In m (map tmp (map fst frags)) -> fs_get f2 m = fs_get f m).
Proof. exact never_partial_l. Qed.
Print Assumptions never_partial_always_idle.
(* all hypotheses together, under a schedule of TWO faults: f.write(payload) of the first fragment fails
   (point 3), then the unlink of its temporary file fails too (point 5): the temporary file stays (with
   the declaration only), every fragment and the unrelated file are untouched, the handler is idle *)
Example never_partial_always_idle_hyps_sat :
  (forall a b, In a (map fst hs_frags) -> In b (map fst hs_frags) -> hs_tmp a = hs_tmp b -> a = b)
  /\ (forall a b, In a (map fst hs_frags) -> In b (map fst hs_frags) -> hs_tmp a <> b)
  /\ NoDup hs_order /\ incl (map fst hs_frags) hs_order
  /\ save hs_tmp hs_decl true (faults [(3, E_OSError); (5, E_Other)]%nat) hs_files true hs_frags hs_order false
     = ((hs_tmp [97;46;120]%N, hs_decl) :: (hs_tmp [97;46;120]%N, []) :: hs_files, true, Some E_Other).
Proof.
  destruct hs_side_holds as (_ & B & C & D & E & _).
  repeat (split; [assumption|]). vm_compute; reflexivity.
Qed.

(* 4. the side conditions on names are decidable for any concrete list of fragment names *)
Theorem side_conditions_decidable : forall tmp names, tmp_ok tmp names = true ->
  NoDup names
  /\ (forall a b, In a names -> In b names -> tmp a = tmp b -> a = b)
  /\ (forall a b, In a names -> In b names -> tmp a <> b).
Proof. exact tmp_ok_sound. Qed.
Print Assumptions side_conditions_decidable.
Example side_conditions_decidable_hyps_sat : tmp_ok hs_tmp (map fst hs_frags) = true.
Proof. vm_compute; reflexivity. Qed.

(* ---- the code as found (fixed = false) violates 1: a failing open of the first temporary file
        is reported as FileNotFoundError and the handler stays locked ---- *)
Definition tmpn := tmpname TMP_PREFIX TMP_SUFFIX TMP_LIMIT.
Definition ex_files : list (str * str) := [([97;46;120]%N, [1]%N); ([100;47;98;46;121]%N, [2]%N)].   (* a.x, d/b.y *)
Definition ex_frags : list (str * str) := [([97;46;120]%N, [3]%N); ([100;47;98;46;121]%N, [4]%N)].
Definition ex_order : list str := [[100;47;98;46;121]%N; [97;46;120]%N].

Theorem failed_save_restores_refuted_before_fix :
  exists k e, (k < 5 * length ex_frags)%nat /\
    save tmpn [] false (single_fault k e) ex_files true ex_frags ex_order false
    = (ex_files, false, Some E_FileNotFound) /\ e <> E_FileNotFound.
Proof. exists 0%nat, E_OSError. split; [cbn; repeat constructor|]. split; [vm_compute; reflexivity|discriminate]. Qed.
Print Assumptions failed_save_restores_refuted_before_fix.

(* ---- non-vacuity: the hypotheses hold for these names with the real _tmpname constants ---- *)
Example ex_side : tmp_ok tmpn (map fst ex_frags) = true.
Proof. vm_compute. reflexivity. Qed.
Example ex_tmp : tmpn [100;47;98;46;121]%N = [100;47;46;98;46;121;46;116;109;112]%N.   (* d/b.y -> d/.b.y.tmp *)
Proof. vm_compute. reflexivity. Qed.
Example ex_fresh : forall n, In n (map fst ex_frags) -> fs_get ex_files (tmpn n) = None.
Proof. intros n [<-|[<-|[]]]; vm_compute; reflexivity. Qed.
Example ex_fixed_run :
  save tmpn [] true (single_fault 0 E_OSError) ex_files true ex_frags ex_order false = (ex_files, true, Some E_OSError).
Proof. vm_compute. reflexivity. Qed.
Example ex_commit_fault :   (* rename of the second file fails: first committed, second old, its temp file left, handler idle *)
  let '(f2, idle', res) := save tmpn [] true (single_fault 11 E_OSError) ex_files true ex_frags ex_order false in
  (fs_get f2 [100;47;98;46;121]%N, fs_get f2 [97;46;120]%N, is_some (fs_get f2 (tmpn [97;46;120]%N)), idle', res)
  = (Some [4]%N, Some [1]%N, true, true, Some E_OSError).
Proof. vm_compute. reflexivity. Qed.
