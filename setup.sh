#!/bin/sh
# offline setup: regenerate Gen/ from /repo and build the whole Coq development
cd "$(dirname "$0")"
export PYTHONHASHSEED=0 TZ=UTC

timeout 3000 coq/mk.sh -k || echo "coq build failure (reported by the checks)"
exit 0
