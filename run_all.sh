#!/bin/sh
# run every claimed check's quick (or $1) tier and print one summary line each
cd "$(dirname "$0")"
tier="${1:-quick}"
for pid in $(python3 -c "import json;print(' '.join(c['property_id'] for c in json.load(open('MANIFEST.json'))['checks']))"); do
  start=$(date +%s)
  out=$(./check $pid --tier $tier 2>&1); rc=$?
  end=$(date +%s)
  echo "$pid rc=$rc $((end-start))s $(echo "$out" | grep -c '^VIOLATION') violations, $(echo "$out" | grep -c '^KNOWN-FINDING') known | $(echo "$out" | grep "^\[$pid\] tier" | tail -1)"
done
