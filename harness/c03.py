"""C03 — UUID and type lookups always agree with the actual model tree."""
from __future__ import annotations

import collections
import pathlib
import shutil
import sys

sys.path.insert(0, str(pathlib.Path(__file__).resolve().parent))
import lib
import corpus
import graph
import histories
from lib import Err


def enc_idc(idc: dict, u):
    if u not in idc:
        return None
    v = idc[u]
    return [] if v is None else v


def copy_model(spec: dict, dst: pathlib.Path) -> dict:
    """copy the model directory (and resources) into scratch so that save() can be exercised"""
    src = pathlib.Path(spec["path"]).parent
    d = dst / "model"
    shutil.copytree(src, d, ignore=shutil.ignore_patterns("*.license"))
    new = dict(spec, path=d / pathlib.Path(spec["path"]).name)
    return new


def xtype_name(A: graph.Abstraction, e) -> str:
    return (A.xtype_of(e) or str(e.tag)).split(":")[-1]


def check_lookups(chk, model, A, ids, label, spec, hist_desc):
    """oracle: loader[u] / by_uuid(u) versus a raw scan of all loaded trees"""
    loader = model._loader
    raw = graph.raw_scan_ids(loader)
    bad = 0
    for u in ids:
        owners = raw.get(u, [])
        if len(owners) > 1:
            continue
        try:
            got = loader[u]
        except KeyError:
            got = None
        except Exception as e:  # noqa: BLE001
            got = e
        chk.note_case((spec["name"], label, u), nontrivial=not owners or True)
        # the public lookup (MelodyModel.by_uuid) must agree with the loader's — at every step, so that anything it remembers from an
        # earlier call is put to the test
        try:
            got_pub = model.by_uuid(u)._element
        except KeyError:
            got_pub = None
        except Exception as e:  # noqa: BLE001
            got_pub = e
        in_semantic = not owners or loader.find_fragment(owners[0]).suffix in graph.SEMANTIC     # by_uuid wraps diagram ids differently, by design
        if in_semantic and got_pub is not got and not (isinstance(got, Exception) and isinstance(got_pub, Exception)):
            what = xtype_name(A, got_pub) if hasattr(got_pub, "tag") else repr(got_pub)
            chk.violation(f"by_uuid-differs-from-loader:{what}", f"model.by_uuid({u}) gives {what}, the loader's lookup gives {got!r} (after: {label})",
                          {"model": spec["name"], "uuid": u, "history": hist_desc, "after": label, "history_index": spec.get("history_index")})
            bad += 1
        if not owners and got is not None:
            what = xtype_name(A, got) if hasattr(got, "tag") else repr(got)
            chk.violation(f"ghost:{what}", f"lookup of {u} returns a {what} element that is in no loaded fragment (after: {label})",
                          {"model": spec["name"], "uuid": u, "history": hist_desc, "after": label, "history_index": spec.get("history_index")})
            bad += 1
        elif owners and got is not owners[0]:
            what = xtype_name(A, owners[0])
            kind = "missing" if got is None else "wrong-element"
            chk.violation(f"{kind}:{what}", f"lookup of {u} ({what}) gives {got!r} instead of the element in the tree (after: {label})",
                          {"model": spec["name"], "uuid": u, "history": hist_desc, "after": label, "history_index": spec.get("history_index")})
            bad += 1
            if getattr(chk, "replay_file", None):
                print("REPLAY:", kind, u, what, "after", label)
    return bad


def check_search(chk, model, A, types, label, spec, hist_desc):
    raw = graph.raw_scan_types(model._loader)
    for xt in types:
        try:
            got = model.search(xt)
        except Exception as e:  # noqa: BLE001
            chk.violation(f"search-raises:{xt.split(':')[-1]}", f"search({xt}) raised {e!r}", {"model": spec["name"], "history": hist_desc})
            continue
        gs = {id(e) for e in got._elements}
        ws = {id(e) for e in raw.get(xt, [])}
        chk.note_case((spec["name"], label, "search", xt, len(ws)))
        if gs != ws:
            extra = len(gs - ws)
            miss = len(ws - gs)
            chk.violation(f"search:{xt.split(':')[-1]}:{'extra' if extra else 'missing'}",
                          f"search({xt}) returns {len(gs)} elements, the tree holds {len(ws)} ({extra} stale, {miss} missing) after: {label}",
                          {"model": spec["name"], "xtype": xt, "history": hist_desc, "after": label})


def run(chk: lib.Check):
    pr = chk.prove()
    quick = chk.tier == "quick"
    rng = chk.rng
    n_hist = 12 if quick else 80
    n_steps = 30 if quick else 60
    wfstats = collections.Counter()
    specs = corpus.model_specs(chk.tier)
    opstats = collections.Counter()
    cases = []
    descs = []
    only = None
    if getattr(chk, "replay_file", None):
        import json
        rp = json.load(open(chk.replay_file))["replay"]
        only = rp.get("history_index")
        print("replaying history", only, "of seed", chk.seed, "(set VERIF_SEED to the seed recorded in the replay file)")
    for hi in range(n_hist):
        if only is not None and hi != only:
            continue
        spec0 = specs[hi % len(specs)]
        import random, uuid
        rng = random.Random(f"{chk.seed}:{hi}")
        uuid.uuid4 = lambda rng=rng: uuid.UUID(int=rng.getrandbits(128), version=4)
        with lib.scratch("c03-") as tmp:
            spec = copy_model(spec0, tmp)
            if "resources" in spec:
                spec = dict(spec)
            elif hi % 3 == 2:
                # every third history runs on a fragmented layout: elements that own link elements (components with allocations,
                # functions, packages) become roots of fragment files of their own
                import fragmenter
                from lxml import etree as _ET
                mdir = pathlib.Path(spec["path"]).parent
                capella_ = next(p_.name for p_ in mdir.glob("*.capella"))
                t_ = _ET.parse(str(mdir / capella_))
                lt_ = graph.link_element_types()
                cands_ = [e for e in t_.getroot().iter() if isinstance(e.tag, str) and e.get("id") and e.get(graph.XSI_TYPE) and e.getparent() is not None
                          and e.getparent().getparent() is not None and len(e) >= 2
                          and e.get(graph.XSI_TYPE) not in lt_ and any(isinstance(c.tag, str) and c.get(graph.XSI_TYPE) in lt_ for c in e)]
                rng.shuffle(cands_)
                chosen_ = sorted(cands_[:3], key=lambda e: len(list(e.iterancestors())))
                picks_ = [(e.get("id"), ("fragments/" if i_ % 2 else "") + f"F{i_} {e.get(graph.XSI_TYPE).split(':')[-1]}.capellafragment") for i_, e in enumerate(chosen_)]
                made_ = fragmenter.fragment_model(mdir, capella_, pathlib.Path(spec["path"]).name, picks_)
                wfstats["histories_on_fragmented_layouts"] += 1
                wfstats["fragment_files"] += len(made_)
            model = corpus.load(spec)
            loader = model._loader
            A = graph.Abstraction()
            fragmented_layout = "resources" not in spec and hi % 3 == 2
            runner = histories.HistoryRunner(model, rng, savedir=tmp,
                                             kinds=histories.HistoryRunner.KINDS + ["save", "viewpoint", "move_role", "move_role", "create_bad", "create_bad"] + (["delete_linked"] * 6 + ["placeholder_ancestor"] * 3 if fragmented_layout else []))
            tracked = [p for p in loader.trees if p.suffix not in graph.VISUAL and p.parts[0] == "\0"]
            before = {p: A.nodes(loader.trees[p]) for p in tracked}
            nodes0 = {p: list(before[p]) for p in tracked}
            for p in tracked:   # the theorems' well-formedness hypothesis, measured on the real state
                ns = before[p]
                ids = [u for n in ns for u in set(n[3])]
                hrefs = [n[5] for n in ns if n[5] is not None]
                wfstats["fragments"] += 1
                wfstats["ids_unique"] += len(ids) == len(set(ids))
                wfstats["handles_unique"] += len({n[0] for n in ns}) == len(ns)
                wfstats["hrefs_unique"] += len(hrefs) == len(set(hrefs))
                wfstats["regular"] += all(set(n[3]) == set(n[4]) for n in ns)
            steps = {p: [] for p in tracked}
            expect = {p: [] for p in tracked}
            raw0 = graph.raw_scan_ids(loader)
            all_ids0 = list(raw0)
            ever_touched: set[str] = set()
            hist_desc: list[str] = []
            types_present = sorted(graph.raw_scan_types(loader))
            spec0 = dict(spec0, history_index=hi)
            check_lookups(chk, model, A, all_ids0, "load", spec0, [])
            check_search(chk, model, A, rng.sample(types_present, min(12, len(types_present))), "load", spec0, [])
            for si in range(n_steps):
                if si % 4 == 3:
                    # the rarely drawn operations take turns at fixed positions, so that every history contains each of them
                    rare_ = ["role_replace", "create_bad", "move_role", "create_bad", "role_replace", "move_role", "use_stale", "create_bad"]
                    all_kinds_, runner.kinds = runner.kinds, [rare_[(si // 4 + hi) % len(rare_)]]
                    st = runner.step()
                    runner.kinds = all_kinds_
                else:
                    st = runner.step()
                opstats[(st.kind, "ok" if st.ok else (st.err or "fail"))] += 1
                hist_desc.append(f"{st.kind}: {st.desc} -> {'ok' if st.ok else st.err}")
                label = hist_desc[-1]
                touched_now: set[str] = set()
                for p in tracked:
                    tree = loader.trees[p]
                    after = A.nodes(tree)
                    det, att = graph.diff_nodes(before[p], after)
                    bmap = {n[0]: n for n in before[p]}
                    t_ids = {u for h in det for u in bmap[h][4]} | {u for n in att for u in n[4]}
                    t_hs = set(det) | {n[0] for n in att}
                    t_hr = {bmap[h][5] for h in det if bmap[h][5] is not None} | {n[5] for n in att if n[5] is not None}
                    idc, xtc, hrs = A.index(tree)
                    # sample of untouched keys + everything touched so far in this history
                    samp_ids = sorted(t_ids | set(rng.sample(sorted(idc), min(15, len(idc)))))
                    samp_hs = sorted(t_hs | set(rng.sample(sorted(xtc), min(15, len(xtc)))))
                    samp_hr = sorted(t_hr | set(hrs))
                    ops = ([[1, det]] if det else []) + ([[0, [graph.node_val(n) for n in att]]] if att else [])
                    steps[p].append([ops, samp_ids, samp_hs, samp_hr])
                    expect[p].append([[enc_idc(idc, u) for u in samp_ids], [xtc.get(h) for h in samp_hs],
                                      [hrs.get(r) for r in samp_hr], len(idc)])
                    before[p] = after
                    touched_now |= {A.S.rev[u] for u in t_ids}
                ever_touched |= touched_now
                ever_touched |= set(getattr(runner, "extra_ids", []))      # ids handed out by operations on stale handles
                ids_to_check = sorted(ever_touched) + rng.sample(all_ids0, min(120, len(all_ids0)))
                check_lookups(chk, model, A, ids_to_check, label, spec0, list(hist_desc))
                if si % 5 == 4 or si == n_steps - 1:
                    check_search(chk, model, A, rng.sample(types_present, min(8, len(types_present))), label, spec0, list(hist_desc))
            # every history ends with a save (namespace update, possible root replacement) before the final comparison
            try:
                model.save()
                hist_desc.append("save: save() -> ok")
            except Exception as ex:  # noqa: BLE001
                hist_desc.append(f"save: save() -> {type(ex).__name__}")
            for p in tracked:
                tree = loader.trees[p]
                after = A.nodes(tree)
                det, att = graph.diff_nodes(before[p], after)
                bmap = {n[0]: n for n in before[p]}
                idc, xtc, hrs = A.index(tree)
                samp_ids = sorted({u for h in det for u in bmap[h][4]} | {u for n in att for u in n[4]} | set(rng.sample(sorted(idc), min(15, len(idc)))))
                samp_hs = sorted(set(det) | {n[0] for n in att} | set(rng.sample(sorted(xtc), min(15, len(xtc)))))
                ops = ([[1, det]] if det else []) + ([[0, [graph.node_val(n) for n in att]]] if att else [])
                steps[p].append([ops, samp_ids, samp_hs, sorted(hrs)])
                expect[p].append([[enc_idc(idc, u) for u in samp_ids], [xtc.get(h) for h in samp_hs], [hrs.get(r) for r in sorted(hrs)], len(idc)])
                before[p] = after
            # final: everything, every fragment
            check_lookups(chk, model, A, sorted(set(all_ids0) | ever_touched), "end of history", spec0, list(hist_desc))
            check_search(chk, model, A, types_present, "end of history", spec0, list(hist_desc))
            for p in tracked:
                cases.append(([graph.kind_of(p), False, [graph.node_val(n) for n in nodes0[p]], steps[p]], expect[p]))
                descs.append({"model": spec0["name"], "fragment": str(p).replace("\0", "<primary>"), "history": hist_desc})
            if hi == 0:
                chk.samples.append({"history": hist_desc[:12]})
            del model, runner
    chk.correspond("From V Require Import Model.Graph.", "w_history", cases, tag="C03_hist", shard=1,
                   describe=lambda i: descs[i], timeout=900)
    chk.coverage.update({
        "histories": n_hist, "steps_per_history": n_steps, "wf_hypothesis_on_real_states": dict(wfstats),
        "operation_mix": {f"{k[0]}:{k[1]}": v for k, v in sorted(opstats.items())},
        "rule": "random API histories (create / create with bad arguments / delete with purging / whole-list delete / move / link add+remove / "
                "list assignment / attribute set / save / viewpoint activation) on scratch copies of corpus models; after every step the real "
                "idcache/xtypecache/hrefsources of each non-visual fragment are compared with the model's paired-operation prediction, and "
                "loader[uuid] / search(type) are compared with a raw lxml scan for all ids ever touched + a sample; at the end for all ids",
    })
    chk.assumptions += ["lxml element identity is abstracted to integer handles by harness/graph.py",
                        "tree diffs (detach/attach sets) are computed by the harness from the real trees before/after each API call"]


if __name__ == "__main__":
    lib.main("C03", run)
