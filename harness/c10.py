"""C10 — Queries return exactly what a brute-force scan of the model would."""
from __future__ import annotations

import collections
import enum
import pathlib
import random
import re
import sys
import uuid as uuidmod

sys.path.insert(0, str(pathlib.Path(__file__).resolve().parent))
import lib
import corpus
import graph
import histories
from lib import Err, err_of

TOKEN = re.compile(r"#([A-Za-z0-9_-]+)")


def link_storing(acc, cls, D) -> bool:
    seen = 0
    while isinstance(acc, (D.TypecastAccessor, D.Alias, D.IndexAccessor)) and seen < 5:
        nxt = getattr(acc, "attr", None) or getattr(acc, "target", None) or getattr(acc, "wrapped", None)
        acc = getattr(cls, nxt, None) if isinstance(nxt, str) else None
        seen += 1
    return isinstance(acc, (D.AttrProxyAccessor, D.LinkAccessor))


LIST_ATTRS = ("allocated_functions", "functions", "components", "ports", "inputs", "outputs", "exchanges", "constraints", "involved_functions",
              "realized_components", "realized_functions", "owned_components", "states", "properties")


def run(chk: lib.Check):
    import capellambse
    from capellambse.model import _descriptors as D, _obj, _xtype
    from capellambse.model import _model as M
    pr = chk.prove()
    quick = chk.tier == "quick"
    stats = collections.Counter()
    fr_cases, fl_cases, bl_cases = [], [], []
    specs = corpus.model_specs(chk.tier)[: (1 if quick else 3)]
    for spec0 in specs:
        for state in ["loaded", "edited", "fragmented"]:
            rng = random.Random(f"{chk.seed}:{spec0['name']}:{state}")
            frag_tmp = None
            if state == "fragmented":
                # the same questions on a layout in which subtrees live in fragment files of their own: references then cross files
                # ("type path#id") and ancestors cross placeholders
                if "resources" in spec0:
                    continue
                import fragmenter, shutil, tempfile
                frag_tmp = pathlib.Path(tempfile.mkdtemp(prefix="c10frag-"))
                src_ = pathlib.Path(spec0["path"]).parent
                shutil.copytree(src_, frag_tmp / "m", ignore=shutil.ignore_patterns("*.license"))
                capella_ = next(p_.name for p_ in src_.glob("*.capella"))
                mono_ = corpus.load(spec0)
                cands_ = []
                for p_, t_ in mono_._loader.trees.items():
                    if p_.suffix == ".capella" and p_.parts[0] == "\0":
                        for e in t_.root.iter():
                            if isinstance(e.tag, str) and e.get("id") and e.get(graph.XSI_TYPE) and len(e) >= 3 and e.getparent() is not None \
                                    and (e.get(graph.XSI_TYPE).endswith("Pkg") or e.get(graph.XSI_TYPE).endswith("Component")):
                                cands_.append(e)
                rng.shuffle(cands_)
                picks_, chosen_ = [], []
                for e in cands_:
                    if len(chosen_) >= 4:
                        break
                    chosen_.append(e)
                chosen_.sort(key=lambda e: len(list(e.iterancestors())))
                for i_, e in enumerate(chosen_):
                    picks_.append((e.get("id"), ("fragments/" if i_ % 2 else "") + f"F{i_} {e.get(graph.XSI_TYPE).split(':')[-1]}.capellafragment"))
                del mono_
                made_ = fragmenter.fragment_model(frag_tmp / "m", capella_, pathlib.Path(spec0["path"]).name, picks_)
                stats["fragment_files_in_fragmented_state"] += len(made_)
                model = capellambse.MelodyModel(str(frag_tmp / "m" / pathlib.Path(spec0["path"]).name))
                # ... and the session goes on after a save() that rewrites the namespace declarations of the fragment roots
                # (the fragmenter declares every namespace on them; save() reduces them to the ones in use)
                roots_before_ = {k_: t_.root for k_, t_ in model._loader.trees.items()}
                try:
                    model.project.description = "c10: saved once"
                    model.save()
                    stats["fragment_roots_replaced_by_save"] += sum(1 for k_, t_ in model._loader.trees.items() if t_.root is not roots_before_[k_])
                except Exception as ex:  # noqa: BLE001
                    chk.violation(f"save-raises-on-fragmented:{type(ex).__name__}", f"save() of the fragmented scratch copy raised {ex!r}", {"model": spec0["name"], "picks": picks_})
            else:
                model = corpus.load(spec0)
            uuidmod.uuid4 = lambda rng=rng: uuidmod.UUID(int=rng.getrandbits(128), version=4)
            hot_holders: list[str] = []
            hot_objs: list[str] = []
            if state == "edited":
                # ask first, edit afterwards, ask again on the SAME model object: whatever a query remembers must not outlive an edit
                primed = 0
                for o_ in histories._objects(model, rng, 150):
                    for an_ in dir(type(o_)):
                        if isinstance(getattr(type(o_), an_, None), D.ReferenceSearchingAccessor):
                            try:
                                getattr(o_, an_)
                                primed += 1
                            except Exception:  # noqa: BLE001
                                pass
                    try:
                        list(model.find_references(o_))
                        model.search(type(o_))
                        if getattr(o_, "parent", None) is not None and hasattr(o_.parent, "_element"):
                            model.search(o_.xtype, below=o_.parent)
                    except Exception:  # noqa: BLE001
                        pass
                stats["queries_evaluated_before_the_edits"] += primed
                r = histories.HistoryRunner(model, rng)
                for _ in range(40):
                    r.step()
                # ... and a few deletions of subtrees whose descendants have other types than their root
                done_del = 0
                for _ in range(200):
                    o_ = r.pick(lambda x: len(x._element) >= 2 and len({c.get(graph.XSI_TYPE) for c in x._element.iter() if isinstance(c.tag, str) and c.get("id")}) >= 2)
                    if o_ is None:
                        break
                    cont = r.container_of(o_)
                    if cont is None:
                        continue
                    try:
                        lst_ = getattr(cont[0], cont[1])
                        lst_.remove(o_)
                        done_del += 1
                    except Exception:  # noqa: BLE001
                        pass
                    if done_del >= 6:
                        break
                stats["subtree_deletions_before_queries"] += done_del
                # ... and deletions that leave a single-valued relation empty which a back-reference reads THROUGH (attrgetter("source.owner"),
                # "target.parent", ...): the candidate then has no such path (AttributeError on None) while its other paths still count
                first_segs = set()
                cand_classes: set = set()
                for cls_ in {type(x) for x in histories._objects(model, rng, 3000)}:
                    for an_ in dir(cls_):
                        acc_ = getattr(cls_, an_, None)
                        if isinstance(acc_, D.ReferenceSearchingAccessor):
                            for g_ in acc_.attrs:
                                for nm_ in g_.__reduce__()[1]:
                                    if "." in nm_:
                                        first_segs.add(nm_.split(".")[0])
                                        cand_classes.update(acc_.target_classes or ())
                ends_ = []
                for x_ in histories._objects(model, rng, 3000):
                    if not isinstance(x_, tuple(cand_classes)):
                        continue
                    for seg_ in sorted(first_segs):
                        try:
                            v_ = getattr(x_, seg_)
                        except Exception:  # noqa: BLE001
                            continue
                        if isinstance(v_, _obj.ModelElement) and not isinstance(v_, type(x_)) and v_._element not in list(x_._element.iterancestors()):
                            ends_.append((x_.uuid, seg_, v_))
                rng.shuffle(ends_)
                cut = 0
                for xu_, seg_, v_ in ends_:
                    if cut >= 5:
                        break
                    if not r._alive(v_):
                        continue
                    cont = r.container_of(v_)
                    if cont is None:
                        continue
                    try:
                        getattr(cont[0], cont[1]).remove(v_)
                    except Exception:  # noqa: BLE001
                        continue
                    cut += 1
                    hot_holders.append(xu_)
                stats["deletions_emptying_a_path_segment"] += cut
                # ... and deletions of objects that back-references REPORT (a holder disappears): what was reported before the edit must
                # not be reported afterwards
                gone_holders = 0
                for x_ in histories._objects(model, rng, 600):
                    if gone_holders >= 4:
                        break
                    if not r._alive(x_):
                        continue
                    for an_ in dir(type(x_)):
                        acc_ = getattr(type(x_), an_, None)
                        if not isinstance(acc_, D.ReferenceSearchingAccessor) or acc_.aslist is None:
                            continue
                        try:
                            reported = list(getattr(x_, an_))
                        except Exception:  # noqa: BLE001
                            continue
                        for h_ in reported[:1]:
                            cont = r.container_of(h_) if r._alive(h_) else None
                            if cont is None:
                                continue
                            try:
                                getattr(cont[0], cont[1]).remove(h_)
                                gone_holders += 1
                                hot_objs.append(x_.uuid)
                            except Exception:  # noqa: BLE001
                                pass
                        if gone_holders >= 4:
                            break
                stats["deletions_of_reported_holders"] += gone_holders
                # ... and members taken out of link-element relations (the link element disappears from the tree: it must disappear from
                # every search as well)
                unlinked = 0
                for x_ in histories._objects(model, rng, 800):
                    if unlinked >= 8:
                        break
                    if not r._alive(x_):
                        continue
                    for n_, a_ in r.rels(x_, ("link",)):
                        try:
                            l_ = getattr(x_, n_)
                            if len(l_):
                                l_.remove(l_[rng.randrange(len(l_))])
                                unlinked += 1
                                break
                        except Exception:  # noqa: BLE001
                            continue
                stats["link_members_removed"] += unlinked
                chk.coverage["path_first_segments"] = sorted(first_segs)
            loader = model._loader
            A = graph.Abstraction()
            # ---------------- all semantic objects and, per object, every link-storing relation evaluated once
            objs = []
            for p, tree in loader.trees.items():
                if p.suffix in graph.SEMANTIC:
                    for e in tree.root.iter():
                        if isinstance(e.tag, str) and e.get("id") and e.get("href") is None:
                            try:
                                objs.append(_obj.ModelElement.from_model(model, e))
                            except Exception:  # noqa: BLE001
                                stats["unwrappable"] += 1
            rel_of: dict = {}                   # handle -> [(attr, [uuids])]
            reverse = collections.defaultdict(list)   # target uuid -> [(holder uuid, attr, first index)]
            shallow_viol = 0
            for o in objs:
                cls = type(o)
                rels = []
                own = set(tk for v in o._element.attrib.values() for tk in TOKEN.findall(v)) if True else set()
                child = set(tk for c in o._element for v in (c.attrib.values() if isinstance(c.tag, str) else []) for tk in TOKEN.findall(v))
                for attr in M._reference_attributes(cls):
                    acc = getattr(cls, attr, None)
                    if not link_storing(acc, cls, D):
                        continue
                    try:
                        v = getattr(o, attr)
                    except Exception:  # noqa: BLE001
                        continue
                    if isinstance(v, _obj.ModelElement):
                        ids = [v.uuid]
                    elif isinstance(v, _obj.ElementList):
                        ids = [getattr(x, "uuid", None) for x in v]
                    else:
                        continue
                    rels.append((attr, ids))
                    seen = set()
                    for i, u in enumerate(ids):
                        if u and u not in seen:
                            seen.add(u)
                            reverse[u].append((o.uuid, attr, i if isinstance(v, _obj.ElementList) else None))
                            if u not in own and u not in child:
                                shallow_viol += 1
                rel_of[o.uuid] = (o, own, child, rels)
            stats["objects"] += len(objs)
            stats["relation_values"] += sum(len(v[3]) for v in rel_of.values())
            stats["stored_deeper_than_child(hypothesis of the theorem violated)"] += shallow_viol
            # ---------------- find_references vs the reverse index
            by_refs = sorted(reverse, key=lambda u: -len(reverse[u]))
            targets = by_refs[: (120 if quick else 400)] + rng.sample([o.uuid for o in objs], min(200 if quick else 600, len(objs)))
            byu = {o.uuid: o for o in objs}
            for u in targets:
                y = byu.get(u)
                if y is None:
                    continue
                try:
                    got = sorted((x.uuid, a, i) for x, a, i in model.find_references(y) if link_storing(getattr(type(x), a, None), type(x), D))
                except Exception as ex:  # noqa: BLE001
                    chk.violation(f"find_references-raises:{type(ex).__name__}", f"find_references({u}) raised {ex!r}", {"model": spec0["name"], "uuid": u})
                    continue
                want = sorted(reverse.get(u, []), key=lambda t: (t[0], t[1], -1 if t[2] is None else t[2]))
                got = sorted(got, key=lambda t: (t[0], t[1], -1 if t[2] is None else t[2]))
                chk.note_case((spec0["name"], state, "refs", u), nontrivial=bool(want))
                stats["find_references_checked"] += 1
                if got != want:
                    miss = [t for t in want if t not in got]
                    extra = [t for t in got if t not in want]
                    kind = "missing" if miss else "extra"
                    ex_t = (miss or extra)[0]
                    chk.violation(f"find_references:{kind}:{type(byu[ex_t[0]]).__name__ if ex_t[0] in byu else '?'}.{ex_t[1]}",
                                  f"find_references({type(y).__name__} {u}): {len(miss)} references a full scan finds are missing, {len(extra)} reported ones the scan does not find; e.g. {ex_t}",
                                  {"model": spec0["name"], "state": state, "uuid": u, "missing": miss[:5], "extra": extra[:5]})
                # model correspondence on the neighbourhood of y
                if len(fr_cases) < (60 if quick else 500) and want:
                    holders = {t[0] for t in want}
                    others = rng.sample(sorted(rel_of), min(25, len(rel_of)))
                    xs = []
                    for hu in sorted(holders | set(others)):
                        o, own, child, rels = rel_of[hu]
                        xs.append([A.H(o._element), sorted(A.S(t) for t in own), sorted(A.S(t) for t in child),
                                   [[A.S(a), [A.S(t) for t in ids if t]] for a, ids in rels]])
                    order = {x[0]: i for i, x in enumerate(xs)}
                    exp = []
                    for x, a, i in model.find_references(y):
                        if link_storing(getattr(type(x), a, None), type(x), D) and (x.uuid in holders or x.uuid in others):
                            exp.append([A.H(x._element), A.S(a), 0 if i is None else i])
                    exp.sort(key=lambda t: (order.get(t[0], 0), [r[0] for r in xs[order[t[0]]][3]].index(t[1]) if t[0] in order else 0))
                    fr_cases.append(([xs, A.S(u)], exp))
            # ---------------- back-reference accessors
            n_back = 0
            # objects reached over the remaining paths of candidates that lost one path segment come first
            hot = []
            for xu_ in hot_holders:
                x_ = byu.get(xu_)
                if x_ is None:
                    continue
                for cls_ in {type(o_) for o_ in objs}:
                    for an_ in dir(cls_):
                        acc_ = getattr(cls_, an_, None)
                        if isinstance(acc_, D.ReferenceSearchingAccessor) and (not acc_.target_classes or isinstance(x_, acc_.target_classes)):
                            for g_ in acc_.attrs:
                                try:
                                    val_ = g_(x_)
                                except Exception:  # noqa: BLE001
                                    continue
                                for y_ in (val_ if isinstance(val_, _obj.ElementList) else [val_]):
                                    if isinstance(y_, cls_) and y_.uuid in byu and y_ not in hot:
                                        hot.append(y_)
            for u_ in hot_objs:
                if u_ in byu and byu[u_] not in hot:
                    hot.insert(0, byu[u_])
            stats["objects_behind_a_candidate_with_an_emptied_path"] += len(hot)
            for o in hot[:60] + rng.sample(objs, min(120 if quick else 800, len(objs))):
                cls = type(o)
                for attr in dir(cls):
                    acc = getattr(cls, attr, None)
                    if not isinstance(acc, D.ReferenceSearchingAccessor):
                        continue
                    try:
                        v = getattr(o, attr)
                    except Exception:  # noqa: BLE001
                        continue
                    got = sorted(x.uuid for x in (v if isinstance(v, _obj.ElementList) else ([v] if v is not None else [])))
                    want = set()
                    attrs = [g.__reduce__()[1][0] if hasattr(g, "__reduce__") else None for g in acc.attrs]
                    for cand in objs:
                        if acc.target_classes and not isinstance(cand, acc.target_classes):
                            continue
                        for g in acc.attrs:
                            try:
                                val = g(cand)
                            except AttributeError:
                                continue
                            vals = val if isinstance(val, _obj.ElementList) else [val]
                            if any(getattr(x, "uuid", None) == o.uuid for x in vals if x is not None):
                                want.add(cand.uuid)
                    n_back += 1
                    # the loop model on the accessor's own candidate order
                    if len(bl_cases) < ((15 if quick else 100) if state == "loaded" else (40 if quick else 300)) and acc.aslist is not None and (want or rng.random() < 0.2):
                        cs_ = []
                        for cand in list(model.search(*acc.target_classes))[:400]:
                            ps_ = []
                            for g in acc.attrs:
                                try:
                                    val = g(cand)
                                except AttributeError:
                                    ps_.append(None)
                                    continue
                                vals = val if isinstance(val, _obj.ElementList) else ([val] if val is not None else [])
                                ps_.append([A.S(x.uuid) for x in vals if getattr(x, "uuid", None)])
                            cs_.append([A.H(cand._element), ps_])
                        if len(cs_) < 400:
                            bl_cases.append(([cs_, A.S(o.uuid)], [A.H(x._element) for x in v]))
                    chk.note_case((spec0["name"], state, "backref", o.uuid, attr), nontrivial=bool(want))
                    if got != sorted(want) and acc.aslist is not None:
                        missing = [u_ for u_ in want if u_ not in got]
                        subclass_only = bool(missing) and not [u_ for u_ in got if u_ not in want] and acc.target_classes and all(
                            type(byu[u_]) not in acc.target_classes for u_ in missing if u_ in byu)
                        chk.violation(f"{'backref-misses-subclass-holder' if subclass_only else 'backref'}:{cls.__name__}.{attr}", f"{cls.__name__}({o.uuid}).{attr} gives {len(got)} objects, a scan of the target classes finds {len(want)}",
                                      {"model": spec0["name"], "uuid": o.uuid, "attr": attr, "got": got[:6], "want": sorted(want)[:6]})
                if n_back > (150 if quick else 1500):
                    break
            stats["backrefs_checked"] += n_back
            # ---------------- search: classes, full type strings, short names, below anchors
            raw = {xt_: [e for e in els_ if e.get("href") is None] for xt_, els_ in graph.raw_scan_types(loader).items()}
            raw = {xt_: els_ for xt_, els_ in raw.items() if els_}
            # ancestors in the glued tree, by scanning: a fragment root continues at the parent of the element that carries an href to its id
            placeholder_of = {}
            for p_, t_ in loader.trees.items():
                if p_.suffix in graph.SEMANTIC:
                    for e in t_.root.iter():
                        if isinstance(e.tag, str) and e.get("href"):
                            placeholder_of[e.get("href").split("#")[-1]] = e

            def glued_ancestors(e):
                while True:
                    par = e.getparent()
                    if par is None:
                        ph = placeholder_of.get(e.get("id") or "")
                        if ph is None:
                            return
                        par = ph.getparent()
                        if par is None:
                            return
                    yield par
                    e = par
            handlers = _xtype.XTYPE_HANDLERS[None]
            shorts = collections.defaultdict(list)
            for xt in handlers:
                shorts[xt.split(":")[-1]].append(xt)
            anchors = [o for o in objs if len(o._element) > 5]
            rng.shuffle(anchors)
            anchors = anchors[: (4 if quick else 10)]
            if state == "fragmented":
                # anchors above a placeholder: what lies below them is partly in other files
                above = []
                for ph in placeholder_of.values():
                    for anc in [ph.getparent(), *glued_ancestors(ph.getparent())] if ph.getparent() is not None else []:
                        if anc.get("id") and anc.get("id") in byu and byu[anc.get("id")] not in above:
                            above.append(byu[anc.get("id")])
                rng.shuffle(above)
                anchors = above[: (6 if quick else 14)] + anchors[:2]
            xts = sorted(raw)
            # untyped searches: everything that has an xsi:type (nothing else), model-wide and below every anchor
            all_typed = {id(e) for els_ in raw.values() for e in els_}
            try:
                got_all = model.search()
                # diagrams are reported as well (representation descriptors of the .aird): the comparison is about the semantic elements
                g_ = [id(e) for e in got_all._elements if loader.find_fragment(e).suffix in graph.SEMANTIC]
                stats["untyped_search_checked"] += 1
                if set(g_) != all_typed or len(g_) != len(set(g_)):
                    chk.violation("search:untyped", f"search() without a type returns {len(g_)} elements ({len(set(g_))} distinct), a scan finds {len(all_typed)} typed elements",
                                  {"model": spec0["name"], "state": state})
            except Exception as ex:  # noqa: BLE001
                chk.violation(f"search-raises:untyped:{type(ex).__name__}", f"search() raised {ex!r}", {"model": spec0["name"], "state": state})
            for a in anchors:
                try:
                    got_b = model.search(below=a)
                except Exception as ex:  # noqa: BLE001
                    chk.violation(f"search-below-raises:untyped:{type(ex).__name__}", f"search(below={a.uuid}) raised {ex!r}", {"model": spec0["name"], "state": state})
                    continue
                w_ = {id(e) for els_ in raw.values() for e in els_ if any(anc is a._element for anc in glued_ancestors(e))}
                g_ = [id(e) for e in got_b._elements if loader.find_fragment(e).suffix in graph.SEMANTIC]
                stats["untyped_search_below_checked"] += 1
                if set(g_) != w_ or len(g_) != len(set(g_)):
                    chk.violation("search-below:untyped", f"search(below={type(a).__name__} {a.uuid}) returns {len(g_)} elements ({len(set(g_))} distinct), a scan finds {len(w_)}",
                                  {"model": spec0["name"], "state": state, "anchor": a.uuid, "extra": len(set(g_) - w_), "missing": len(w_ - set(g_))})
            for xt in (xts if state == "edited" or not quick else rng.sample(xts, min(25, len(xts)))):
                want = {id(e) for e in raw[xt]}
                for form in ("full", "class", "short"):
                    try:
                        if form == "full":
                            got = model.search(xt)
                        elif form == "class":
                            if xt not in handlers:
                                continue
                            got = model.search(handlers[xt])
                        else:
                            sn = xt.split(":")[-1]
                            if sn not in shorts:
                                continue      # no class registered under that short name: search() documents a ValueError
                            got = model.search(sn)
                            want_s = set()
                            for full in shorts.get(sn, []):
                                want_s |= {id(e) for e in raw.get(full, [])}
                    except Exception as ex:  # noqa: BLE001
                        chk.violation(f"search-raises:{form}:{type(ex).__name__}", f"search({xt!r} as {form}) raised {ex!r}", {"model": spec0["name"], "xtype": xt})
                        continue
                    g = {id(e) for e in got._elements}
                    w = want_s if form == "short" else want
                    stats["search_checked"] += 1
                    chk.note_case((spec0["name"], state, "search", form, xt), nontrivial=bool(w))
                    if g != w or len(got._elements) != len(g):
                        chk.violation(f"search:{form}:{xt.split(':')[-1]}", f"search({xt!r} as {form}) returns {len(got._elements)} elements ({len(g)} distinct), a scan finds {len(w)}",
                                      {"model": spec0["name"], "state": state, "xtype": xt, "form": form})
                for a in anchors:
                    try:
                        got = model.search(xt, below=a)
                    except Exception as ex:  # noqa: BLE001
                        chk.violation(f"search-below-raises:{type(ex).__name__}", f"search({xt!r}, below={a.uuid}) raised {ex!r}", {"model": spec0["name"]})
                        continue
                    w = {id(e) for e in raw[xt] if any(anc is a._element for anc in glued_ancestors(e))}
                    stats["search_below_checked"] += 1
                    if {id(e) for e in got._elements} != w:
                        chk.violation(f"search-below:{xt.split(':')[-1]}", f"search({xt!r}, below={type(a).__name__} {a.uuid}) returns {len(got)} elements, a scan finds {len(w)}",
                                      {"model": spec0["name"], "xtype": xt, "anchor": a.uuid})
            # ---------------- list filters on the lists relations return
            nl = 0
            for o in rng.sample(objs, min(200 if quick else 1500, len(objs))):
                for attr in dir(type(o)):
                    acc = getattr(type(o), attr, None)
                    if not isinstance(acc, (D.DirectProxyAccessor, D.LinkAccessor, D.AttrProxyAccessor, D.RoleTagAccessor)):
                        continue
                    try:
                        lst = getattr(o, attr)
                    except Exception:  # noqa: BLE001
                        continue
                    if not isinstance(lst, _obj.ElementList) or len(lst) < 2:
                        continue
                    nl += 1
                    for fpath in (("name",), ("xtype",), ("progress_status",), ("visibility",), ("kind",), ("is_abstract",), ("description",),
                                  ("parent", "name"), ("parent", "uuid"), ("owner", "name"), ("target", "name"), ("layer", "name"), ("source", "name"),
                                  ("parent", "parent", "uuid")):
                        fattr = ".".join(fpath)
                        keys = []
                        for x in lst:
                            try:
                                k = x
                                for seg_ in fpath:
                                    k = getattr(k, seg_)
                                if isinstance(k, enum.Enum):
                                    k = k.name
                                keys.append(k)
                            except AttributeError:
                                keys.append(AttributeError)
                            except Exception:  # noqa: BLE001
                                keys.append(Exception)
                        if all(k is AttributeError for k in keys) or any(k is Exception for k in keys):
                            continue
                        if any(not isinstance(k, (str, bool, int, type)) for k in keys):
                            continue
                        present = [k for k in keys if k is not AttributeError]
                        for v in list(dict.fromkeys(present))[:3] + ["no such value ☃"]:
                            try:
                                fb, fe = getattr(lst, f"by_{fpath[0]}"), getattr(lst, f"exclude_{fpath[0]}s")
                                for seg_ in fpath[1:]:
                                    fb, fe = getattr(fb, seg_), getattr(fe, seg_)
                                by = fb(v, single=False)
                                ex = fe(v)
                            except Exception as exn:  # noqa: BLE001
                                chk.violation(f"filter-raises:{fattr}:{type(exn).__name__}", f"filtering {type(o).__name__}.{attr} by {fattr}={v!r} raised {exn!r}", {"model": spec0["name"]})
                                continue
                            bi = [id(e) for e in by._elements]
                            ei = [id(e) for e in ex._elements]
                            li = [id(e) for e in lst._elements]
                            stats["filters_checked"] += 1
                            has_attr_err = any(k is AttributeError for k in keys)
                            chk.note_case((spec0["name"], "filter", o.uuid, attr, fattr, str(v)), nontrivial=bool(bi) and bool(ei))
                            want_by = [i for i, k in zip(li, keys) if k is not AttributeError and k == v]
                            complementary = sorted(bi + ei) == sorted(li) and not (set(bi) & set(ei))
                            ordered = [i for i in li if i in set(bi)] == bi and [i for i in li if i in set(ei)] == ei
                            if bi != want_by or not complementary or not ordered:
                                chk.violation(f"filter-partition:{'attribute-missing-on-some-members' if has_attr_err else 'total'}:{fattr}",
                                              f"{type(o).__name__}({o.uuid}).{attr}: by_{fattr}({v!r}) has {len(bi)}, exclude_{fattr}s has {len(ei)}, list has {len(li)} "
                                              f"(complementary={complementary}, order-preserving={ordered})",
                                              {"model": spec0["name"], "owner": o.uuid, "relation": attr, "filter": fattr, "value": str(v)})
                            if len(fl_cases) < (150 if quick else 1500):
                                km = {x: (None if k is AttributeError else A.S(str(k))) for x, k in zip(li, keys)}
                                hl = [A.H(e) for e in lst._elements]
                                fl_cases.append(([[[h, km[i]] for h, i in zip(hl, li)], A.S(str(v)), hl],
                                                 [[A.H(e) for e in by._elements], [A.H(e) for e in ex._elements]]))
                    # several values at once, and list-valued attributes (a member matches when its list contains ANY of the values)
                    for fattr in ("name", "xtype"):
                        try:
                            ks_ = [getattr(x, fattr) for x in lst]
                        except Exception:  # noqa: BLE001
                            continue
                        vals_ = list(dict.fromkeys(ks_))[:3]
                        if len(vals_) < 2:
                            continue
                        for vs_ in (vals_[:2], vals_[:3], [vals_[0], "no such value ☃"]):
                            try:
                                by = getattr(lst, f"by_{fattr}")(*vs_, single=False)
                                ex = getattr(lst, f"exclude_{fattr}s")(*vs_)
                            except Exception as exn:  # noqa: BLE001
                                chk.violation(f"filter-raises:{fattr}:multi:{type(exn).__name__}", f"filtering {type(o).__name__}.{attr} by {fattr} in {vs_!r} raised {exn!r}", {"model": spec0["name"]})
                                continue
                            li = [id(e) for e in lst._elements]
                            want_by = [i for i, k in zip(li, ks_) if k in vs_]
                            want_ex = [i for i, k in zip(li, ks_) if k not in vs_]
                            stats["multi_value_filters_checked"] += 1
                            if [id(e) for e in by._elements] != want_by or [id(e) for e in ex._elements] != want_ex:
                                chk.violation(f"filter-partition:multi-value:{fattr}", f"{type(o).__name__}({o.uuid}).{attr}: by_{fattr}{tuple(vs_)!r} has {len(by)}, exclude has {len(ex)}, "
                                              f"a scan gives {len(want_by)} / {len(want_ex)} of {len(li)}", {"model": spec0["name"], "owner": o.uuid, "relation": attr, "filter": fattr, "values": [str(v) for v in vs_]})
                    # single-valued REFERENCE attributes (the key is an object or None): a member without a value belongs to the exclude side
                    for fattr in ("owner", "parent", "source", "target", "layer"):
                        ks_ = []
                        ok_ = True
                        for x in lst:
                            try:
                                k_ = getattr(x, fattr)
                            except AttributeError:
                                k_ = AttributeError
                            except Exception:  # noqa: BLE001
                                ok_ = False
                                break
                            if not (k_ is None or k_ is AttributeError or isinstance(k_, _obj.ModelElement)):
                                ok_ = False
                                break
                            ks_.append(k_)
                        objs_ = [k_ for k_ in ks_ if isinstance(k_, _obj.ModelElement)]
                        if not ok_ or not objs_:
                            continue
                        for v_ in objs_[:2]:
                            try:
                                by = getattr(lst, f"by_{fattr}")(v_, single=False)
                                ex = getattr(lst, f"exclude_{fattr}s")(v_)
                            except Exception as exn:  # noqa: BLE001
                                stats[f"reference-filter-raises:{type(exn).__name__}"] += 1
                                continue
                            li = [id(e) for e in lst._elements]
                            hit = [isinstance(k_, _obj.ModelElement) and k_ == v_ for k_ in ks_]
                            stats["reference_valued_filters_checked"] += 1
                            chk.note_case((spec0["name"], "filter-ref", o.uuid, attr, fattr), nontrivial=any(k_ is None for k_ in ks_))
                            if [id(e) for e in by._elements] != [i for i, h in zip(li, hit) if h] or [id(e) for e in ex._elements] != [i for i, h in zip(li, hit) if not h]:
                                chk.violation(f"filter-partition:reference-valued:{fattr}", f"{type(o).__name__}({o.uuid}).{attr}: by_{fattr}(<object>) has {len(by)}, exclude_{fattr}s has {len(ex)}, "
                                              f"list has {len(li)} ({sum(1 for k_ in ks_ if k_ is None)} members without a value)",
                                              {"model": spec0["name"], "owner": o.uuid, "relation": attr, "filter": fattr, "value": v_.uuid})
                    for fattr in LIST_ATTRS:
                        vals_per = []
                        ok_ = True
                        for x in lst:
                            try:
                                v_ = getattr(x, fattr)
                            except AttributeError:
                                vals_per.append(None)
                                continue
                            except Exception:  # noqa: BLE001
                                ok_ = False
                                break
                            if not isinstance(v_, _obj.ElementList):
                                ok_ = False
                                break
                            vals_per.append(list(v_))
                        if not ok_ or not any(vals_per):
                            continue
                        pool_ = []
                        for vp in vals_per:
                            for y in vp or []:
                                if y not in pool_:
                                    pool_.append(y)
                        for vs_ in ([pool_[0]], pool_[:2], pool_[:3]):
                            if len(vs_) > len(pool_):
                                continue
                            try:
                                by = getattr(lst, f"by_{fattr}")(*vs_, single=False)
                                ex = getattr(lst, f"exclude_{fattr}s")(*vs_)
                            except Exception as exn:  # noqa: BLE001
                                stats[f"list-valued-filter-raises:{type(exn).__name__}"] += 1
                                continue
                            li = [id(e) for e in lst._elements]
                            hit = [vp is not None and any(v in vp for v in vs_) for vp in vals_per]
                            want_by = [i for i, h in zip(li, hit) if h]
                            want_ex = [i for i, h in zip(li, hit) if not h]
                            stats["list_valued_filters_checked"] += 1
                            chk.note_case((spec0["name"], "filter-list", o.uuid, attr, fattr, len(vs_)), nontrivial=bool(want_by) and bool(want_ex))
                            if [id(e) for e in by._elements] != want_by or [id(e) for e in ex._elements] != want_ex:
                                chk.violation(f"filter-partition:list-valued:{len(vs_)}-values", f"{type(o).__name__}({o.uuid}).{attr}: by_{fattr}(<{len(vs_)} objects>) has {len(by)}, "
                                              f"exclude_{fattr}s has {len(ex)}; a scan gives {len(want_by)} / {len(want_ex)} of {len(li)}",
                                              {"model": spec0["name"], "owner": o.uuid, "relation": attr, "filter": fattr, "values": [getattr(v, "uuid", None) for v in vs_]})
                    # single-result lookups
                    names = [getattr(x, "name", None) for x in lst]
                    for nm in list(dict.fromkeys(names))[:2] + ["no such name ☃"]:
                        cnt = names.count(nm)
                        try:
                            r_ = lst.by_name(nm)
                            res = "one"
                        except KeyError:
                            res = "KeyError"
                        except Exception as exn:  # noqa: BLE001
                            res = type(exn).__name__
                        stats["single_checked"] += 1
                        if (cnt == 1) != (res == "one") or (cnt != 1 and res != "KeyError"):
                            chk.violation(f"single-lookup:{res}:{min(cnt, 2)}", f"{type(o).__name__}.{attr}.by_name({nm!r}) with {cnt} matches gives {res}",
                                          {"model": spec0["name"], "owner": o.uuid, "relation": attr, "name": nm, "matches": cnt})
                if nl > (60 if quick else 600):
                    break
            del model
            if frag_tmp is not None:
                import shutil
                shutil.rmtree(frag_tmp, ignore_errors=True)
    chk.correspond("From V Require Import Model.Query.", "w_find_references", fr_cases, tag="C10_refs")
    chk.correspond("From V Require Import Model.Query.", "w_filters", fl_cases, tag="C10_filt")
    chk.correspond("From V Require Import Model.Query.", "w_backrefs_loop", bl_cases, tag="C10_backloop")
    chk.coverage.update({"counts": dict(sorted(stats.items())),
                         "rule": "every link-storing relation (attribute links, link elements and their typecast/alias views) of every semantic object is evaluated once to build the "
                                 "reverse index a full scan yields; find_references is compared with it for the most referenced objects and a random sample, back-reference "
                                 "accessors with a scan of their target classes, search for full type / class / short name and below anchors with an lxml scan, list filters "
                                 "(by/exclude) for values occurring in the list plus an absent one, single lookups; loaded and (thorough) randomly edited states"})
    chk.samples.append(dict(list(stats.items())[:8]))


if __name__ == "__main__":
    lib.main("C10", run)
