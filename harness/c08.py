"""C08 — Model-coupled lists behave like Python lists and write through."""
from __future__ import annotations

import collections
import pathlib
import random
import shutil
import sys
import uuid as uuidmod

sys.path.insert(0, str(pathlib.Path(__file__).resolve().parent))
import lib
import corpus
import graph
import histories
from lib import Err, err_of


def uuids(lst) -> list[str]:
    return [getattr(x, "uuid", None) for x in lst]


def elements_snapshot(model, A: graph.Abstraction) -> dict:
    """every element of every non-visual fragment: handle -> (parent handle, tag, sorted attributes, text)"""
    out = {}
    for p, tree in model._loader.trees.items():
        if p.suffix in graph.VISUAL:
            continue
        for e in tree.root.iter():
            if isinstance(e.tag, str):
                par = e.getparent()
                out[A.H(e)] = (None if par is None else A.H(par), e.tag, tuple(sorted(e.attrib.items())), (e.text or "").strip())
    return out


def child_order(model, A) -> dict:
    out = {}
    for p, tree in model._loader.trees.items():
        if p.suffix in graph.VISUAL:
            continue
        for e in tree.root.iter():
            if isinstance(e.tag, str) and len(e):
                out[A.H(e)] = [A.H(c) for c in e if isinstance(c.tag, str)]
    return out


def run(chk: lib.Check):
    import capellambse
    from capellambse.model import _descriptors as D, _obj
    pr = chk.prove()
    quick = chk.tier == "quick"
    stats = collections.Counter()
    ins_cases, py_cases, del_cases, fixed_cases, slice_cases = [], [], [], [], []

    import tempfile
    for spec0 in corpus.model_specs(chk.tier)[: (1 if quick else 3)]:
        # work on a scratch copy so that the final state can be saved with model.save() and reloaded
        scratch_dir = pathlib.Path(tempfile.mkdtemp(prefix="c08-"))
        shutil.copytree(pathlib.Path(spec0["path"]).parent, scratch_dir / "m", ignore=shutil.ignore_patterns("*.license"))
        spec_s = dict(spec0, path=scratch_dir / "m" / pathlib.Path(spec0["path"]).name)
        rng = random.Random(f"{chk.seed}:{spec0['name']}")
        # EMF writes the children of an element grouped by feature; the accessors' position arithmetic has to hold for ANY interleaving
        # (the theorem's quantifier): shuffle the children of a sample of owners that have children of several kinds, in the scratch copy
        from lxml import etree as _ET
        shuffled = 0
        for f_ in sorted((scratch_dir / "m").glob("*.capella")):
            t_ = _ET.parse(str(f_), _ET.XMLParser(remove_blank_text=False, huge_tree=True))
            owners_ = [e for e in t_.getroot().iter() if isinstance(e.tag, str) and len(e) >= 3
                       and len({(c.tag, c.get("{http://www.w3.org/2001/XMLSchema-instance}type")) for c in e if isinstance(c.tag, str)}) >= 2]
            rng.shuffle(owners_)
            for e in owners_[:60]:
                kids_ = [c for c in e if isinstance(c.tag, str)]
                tails_ = [c.tail for c in kids_]
                for c in kids_:
                    e.remove(c)
                rng.shuffle(kids_)
                for c, tl_ in zip(kids_, tails_):
                    c.tail = tl_
                    e.append(c)
                shuffled += 1
            f_.write_bytes(_ET.tostring(t_, xml_declaration=True, encoding="UTF-8"))
        stats["owners-with-shuffled-children"] += shuffled
        model = corpus.load(spec_s)
        uuidmod.uuid4 = lambda rng=rng: uuidmod.UUID(int=rng.getrandbits(128), version=4)
        A = graph.Abstraction()
        runner = histories.HistoryRunner(model, rng)
        objs = histories._objects(model, rng, 5000)
        # every (class, relation) once per accessor kind, preferring owners whose list is non-empty and whose parent has
        # children of other kinds interleaved
        by_rel: dict = {}
        for o in objs:
            if model._loader.find_fragment(o._element).parts[0] != "\0":
                continue    # library resources are not saved with the model: edit the primary resource only
            for name, acc in graph.list_relations(o):
                k = (type(o).__name__, name)
                kind = graph.acc_kind(acc)
                try:
                    n = len(getattr(o, name))
                except Exception:  # noqa: BLE001
                    continue
                inter = 0
                if kind in ("direct", "role") and n >= 2:
                    try:
                        mem = {id(e) for e in getattr(o, name)._elements}
                        flags = [id(c) in mem for c in o._element if isinstance(c.tag, str)]
                        first, last = flags.index(True), len(flags) - 1 - flags[::-1].index(True)
                        inter = sum(1 for f in flags[first:last + 1] if not f)     # other kinds between members
                    except Exception:  # noqa: BLE001
                        inter = 0
                if kind == "link" and n >= 1:
                    # link elements of another relation sharing the XML tag (e.g. involved_functions / involved_links of a chain)
                    XSI0 = "{http://www.w3.org/2001/XMLSchema-instance}type"
                    inter = sum(1 for c in o._element if isinstance(c.tag, str) and c.tag == acc.tag and c.get(XSI0) not in acc.xtypes)
                cur = by_rel.get(k)
                score = (min(inter, 1) + (2 if getattr(acc, "list_extra_args", {}).get("fixed_length") else 0), min(n, 3))
                if cur is None or score > cur[4]:
                    by_rel[k] = (o, acc, n, kind, score)
        per_kind = collections.defaultdict(list)
        for k, v in by_rel.items():
            per_kind[v[3]].append((k, v))
        targets = []
        for kind, lst in sorted(per_kind.items()):
            rng.shuffle(lst)
            lst.sort(key=lambda kv: tuple(-x for x in kv[1][4]))
            targets += lst[: (15 if quick else 80)]
        for (clsname, name), (o, acc, n0, kind, _score) in targets:
            cls = getattr(acc, "class_", None)
            seq_len = (8 if quick else 14) * (4 if getattr(acc, "list_extra_args", {}).get("fixed_length") else 2 if (kind in ("direct", "role") and _score[0] >= 1) else 3 if kind in ("RequirementsRelationAccessor", "ElementRelationAccessor") else 1)
            try:
                lst = getattr(o, name)
            except Exception:  # noqa: BLE001
                continue
            ref = uuids(lst)          # the plain Python list driven by the same operations
            fixed = getattr(lst, "fixed_length", 0)
            for si in range(seq_len):
                if not runner._alive(o):
                    break     # the owner was deleted/moved away by an earlier sequence: stale object, out of scope
                n = len(ref)
                if kind in ("RequirementsRelationAccessor", "ElementRelationAccessor"):
                    # relation objects are found by a model-wide search for source/target; inserting an unrelated existing relation
                    # object is not a list operation these accessors define — exercised through create / del / item assignment only
                    opk = rng.choice(["create_rel", "del", "del", "del", "setitem", "foreign"])
                else:
                    opk = rng.choice(["insert", "insert", "append", "del", "create", "setitem", "insert_dup", "foreign", "clear", "two_handles",
                                      "slice_set", "slice_del", "assign", "delete_all"])
                if kind in ("direct", "role") and not fixed and _score[0] >= 1 and rng.random() < 0.6:
                    opk = "insert"      # members interleaved with children of other kinds: where the position arithmetic matters
                if fixed and rng.random() < 0.5:
                    opk = rng.choice(["slice_set", "slice_set", "slice_del", "setitem", "assign"])     # length-changing forms of assignment
                before_all = elements_snapshot(model, A)
                before_order = child_order(model, A)
                desc = f"{clsname}({o.uuid}).{name}[{kind}]"
                expected = list(ref)
                outcome = "ok"
                fop = None       # encoding of the operation for the fixed-length model (Model/Lists.v fixed_step)
                allowed_new: set[int] = set()
                try:
                    if opk in ("insert", "append", "insert_dup"):
                        if opk == "insert_dup" and ref and kind in ("attr", "link", "typecast"):
                            donor = model.by_uuid(rng.choice(ref))
                        else:
                            xts = set(getattr(acc, "xtypes", []) or [])
                            donor = runner.pick(lambda x: (cls is None or isinstance(x, cls)) and x.uuid not in ref and x._element is not o._element
                                                and model._loader.find_fragment(x._element).parts[0] == "\0"
                                                and o._element not in list(x._element.iterdescendants())
                                                and (kind not in ("direct", "role") or x._element not in list(o._element.iterancestors()))
                                                and (kind != "direct" or not xts or x.xtype in xts)
                                                and (kind != "role" or x._element.tag == getattr(acc, "role_tag", None)))
                        if donor is None:
                            continue
                        idx = n if opk == "append" else rng.choice(list(range(-n - 2, n + 3)))
                        desc += f".insert({idx}, {donor.uuid})" if opk != "append" else f".append({donor.uuid})"
                        expected.insert(idx, donor.uuid)
                        if opk != "insert_dup":
                            fop = [4, idx, donor.uuid]
                        if opk == "append":
                            lst.append(donor)
                        else:
                            lst.insert(idx, donor)
                    elif opk == "del":
                        if not n:
                            continue
                        idx = rng.choice(list(range(-n, n)))
                        desc += f": del [{idx}]"
                        del expected[idx]
                        fop = [3, idx]
                        del lst[idx]
                    elif opk == "two_handles":
                        if kind not in ("link", "typecast"):
                            continue     # only uniqueness-enforcing relations make a promise about a second, stale list object
                        donor = runner.pick(lambda x: (cls is None or isinstance(x, cls)) and x.uuid not in ref and x._element is not o._element
                                            and model._loader.find_fragment(x._element).parts[0] == "\0")
                        if donor is None:
                            continue
                        l1, l2 = getattr(o, name), getattr(o, name)
                        desc += f": two list objects of the relation, both .append({donor.uuid})"
                        l1.append(donor)
                        expected.append(donor.uuid)
                        unique = True
                        try:
                            l2.append(donor)
                        except Exception:  # noqa: BLE001  rejected as duplicate: what a uniqueness-enforcing relation should do
                            pass
                        lst = l1
                        if uuids(getattr(o, name)).count(donor.uuid) > 1 and unique:
                            chk.violation(f"duplicate-through-second-handle:{kind}", f"{desc}: the uniqueness-enforcing relation now holds the object twice",
                                          {"model": spec0["name"], "op": desc})
                            ref = uuids(getattr(o, name)); lst = getattr(o, name)
                            continue
                    elif opk == "create":
                        if kind not in ("direct", "role", "typecast"):
                            continue
                        hints = sorted(getattr(acc, "xtypes", []) or [])
                        hint = rng.choice(hints) if hints else None
                        desc += f".create({hint})"
                        new = lst.create(hint, name="c08") if hint else lst.create(name="c08")
                        expected.append(new.uuid)
                    elif opk == "create_rel":
                        tgt = runner.pick(lambda x: x._element is not o._element)
                        if tgt is None:
                            continue
                        desc += f".create(target={tgt.uuid})"
                        new = lst.create(target=tgt)
                        expected.append(new.uuid)
                    elif opk == "setitem":
                        if not n:
                            continue
                        idx = rng.choice(list(range(-n, n)))
                        donor = runner.pick(lambda x: (cls is None or isinstance(x, cls)) and x.uuid not in ref and x._element is not o._element
                                            and o._element not in list(x._element.iterdescendants())
                                            and x._element not in list(o._element.iterancestors()))
                        if donor is None or kind in ("direct", "role"):
                            continue   # replacing a contained object deletes it: covered by C09
                        desc += f"[{idx}] = {donor.uuid}"
                        expected[idx] = donor.uuid
                        fop = [0, idx, donor.uuid]
                        lst[idx] = donor
                    elif opk in ("slice_set", "slice_del", "assign"):
                        if kind in ("direct", "role") and not (fixed and n == fixed):
                            continue     # replacing contained objects deletes them: covered by C09 (a full fixed-length list must refuse)
                        a_, b_ = sorted((rng.randint(-n - 1, n + 1), rng.randint(-n - 1, n + 1)))
                        if rng.random() < 0.3:
                            a_ = None
                        if rng.random() < 0.3:
                            b_ = None
                        donors = []
                        if opk != "slice_del":
                            for _k in range(rng.choice([0, 1, 1, 2])):
                                d_ = runner.pick(lambda x: (cls is None or isinstance(x, cls)) and x.uuid not in ref and x._element is not o._element
                                                 and all(x.uuid != y.uuid for y in donors)
                                                 and model._loader.find_fragment(x._element).parts[0] == "\0")
                                if d_ is not None:
                                    donors.append(d_)
                        if opk == "slice_set":
                            desc += f"[{a_}:{b_}] = {[d_.uuid for d_ in donors]}"
                            expected[a_:b_] = [d_.uuid for d_ in donors]
                            if kind in ("direct", "role") and len(expected) == n:
                                continue
                            fop = [1, a_, b_, [d_.uuid for d_ in donors]]
                            lst[a_:b_] = donors
                        elif opk == "slice_del":
                            desc += f": del [{a_}:{b_}]"
                            del expected[a_:b_]
                            if kind in ("direct", "role") and len(expected) == n:
                                continue
                            fop = [2, a_, b_]
                            del lst[a_:b_]
                        elif kind in ("direct", "role"):
                            continue
                        else:
                            keep_ = [model.by_uuid(u_) for u_ in ref if rng.random() < 0.6]
                            new_ = keep_ + donors
                            rng.shuffle(new_)
                            desc += f" = {[d_.uuid for d_ in new_]}"
                            expected = [d_.uuid for d_ in new_]
                            fop = [5, [d_.uuid for d_ in new_]]
                            setattr(o, name, new_)
                            lst = getattr(o, name)
                    elif opk == "delete_all":
                        if kind in ("direct", "role") or not n:
                            continue     # deleting contained objects: C09
                        # filters matching none, one, several adjacent and all members
                        mode = rng.choice(["all", "xtype", "name", "uuid", "none"])
                        objs_ = list(lst)
                        if mode == "all":
                            kw_ = {}
                        elif mode == "xtype":
                            kw_ = {"xtype": rng.choice(objs_).xtype}
                        elif mode == "name":
                            kw_ = {"name": getattr(rng.choice(objs_), "name", "")}
                        elif mode == "uuid":
                            kw_ = {"uuid": rng.choice(ref)}
                        else:
                            kw_ = {"uuid": "no-such-uuid"}
                        def matches_(x):
                            try:
                                return all(getattr(x, k_) == v_ for k_, v_ in kw_.items())
                            except Exception:  # noqa: BLE001
                                return None
                        m_ = [matches_(x) for x in objs_]
                        if None in m_:
                            continue
                        desc += f".delete_all({kw_}) [{sum(m_)} of {n} match]"
                        expected = [u_ for u_, hit in zip(ref, m_) if not hit]
                        lst.delete_all(**kw_)
                    elif opk == "foreign":
                        other = getattr(run, "_other", None)
                        if other is None:
                            other = run._other = corpus.load(corpus.model_specs("quick")[1])
                        donor = next(iter(histories._objects(other, rng, 1)), None)
                        if donor is None:
                            continue
                        desc += f".append(<object of another model>)"
                        lst.append(donor)
                        outcome = "accepted-foreign"
                    elif opk == "clear":
                        if rng.random() < 0.7 or kind in ("direct", "role"):
                            continue
                        desc += ".clear()/del all"
                        expected = []
                        del lst[:]
                except Exception as e:  # noqa: BLE001
                    outcome = type(e).__name__
                    import traceback
                    last_tb = traceback.format_exc()[-1500:]
                stats[f"{kind}:{opk}:{outcome}"] += 1
                if __import__("os").environ.get("C08_DEBUG"): print("DBG", desc, outcome)
                chk.note_case((spec0["name"], clsname, name, opk, si), nontrivial=True)
                after_all = elements_snapshot(model, A)
                fresh = uuids(getattr(o, name))
                inhand = uuids(lst)
                if fixed and n == fixed and fop is not None and None not in fresh and None not in ref:
                    num = lambda u_: int(u_.replace("-", ""), 16) % (1 << 60)      # object identity as a number
                    enc = [fop[0]] + [([num(u_) for u_ in f_] if isinstance(f_, list) else (num(f_) if isinstance(f_, str) else f_)) for f_ in fop[1:]]
                    fixed_cases.append(([fixed, [num(u_) for u_ in ref], enc], [outcome == "ok", [num(u_) for u_ in fresh]]))
                if outcome == "accepted-foreign":
                    chk.violation(f"foreign-accepted:{kind}", f"{desc}: an object of a different model was accepted", {"model": spec0["name"], "op": desc})
                    ref = fresh
                    lst = getattr(o, name)
                    continue
                if outcome != "ok":
                    # a rejected operation changes nothing
                    if after_all != before_all or fresh != ref or inhand != ref:
                        changed = [h for h in set(before_all) | set(after_all) if before_all.get(h) != after_all.get(h)]
                        chk.violation(f"rejected-but-changed:{kind}:{opk}:{outcome}",
                                      f"{desc} raised {outcome} but the model changed ({len(changed)} elements; list in hand {inhand != ref}, fresh {fresh != ref})",
                                      {"model": spec0["name"], "op": desc, "error": outcome, "traceback": last_tb})
                        ref = fresh
                        lst = getattr(o, name)
                    elif opk in ("insert", "append", "del", "setitem") and outcome in ("IndexError",) and fixed == 0:
                        # Python's list would have accepted this index (insert clamps) — or raised the same for del/setitem
                        if opk in ("insert", "append"):
                            chk.violation(f"insert-index-rejected:{kind}", f"{desc} raised IndexError; list.insert clamps any index",
                                          {"model": spec0["name"], "op": desc, "len": n})
                    continue
                if fixed and n == fixed and len(fresh) != fixed:
                    chk.violation(f"fixed-length-changed:{kind}:{opk}", f"{desc}: accepted, and the fixed-length relation now has {len(fresh)} members instead of {fixed}",
                                  {"model": spec0["name"], "op": desc, "before": ref, "fresh": fresh})
                    ref = fresh
                    lst = getattr(o, name)
                    continue
                # accepted: in-hand list, fresh list and the plain Python list agree
                if fresh != expected or inhand != expected:
                    dupnote = "still-present" if (kind == "link" and ((opk == "del" and fresh == ref) or (opk in ("clear", "slice_del") and fresh and set(fresh) <= set(ref)))) else "duplicates" if len(set(ref)) != len(ref) else ("rootelem" if getattr(acc, "rootelem", None) else ("neg" if "insert(-" in desc or "[-" in desc else "nonneg"))
                    chk.violation(f"list-mismatch:{kind}:{opk}:{dupnote}",
                                  f"{desc}: python list {expected[-6:]}, in hand {inhand[-6:]}, freshly fetched {fresh[-6:]}",
                                  {"model": spec0["name"], "op": desc, "python": expected, "in_hand": inhand, "fresh": fresh, "before": ref})
                    ref = fresh
                    lst = getattr(o, name)
                    continue
                # nothing else changed: every changed/removed/added element is the owner, a member/link element of this relation,
                # a moved donor, or (for deletions) something C09 covers
                if opk in ("insert", "append", "insert_dup", "create", "setitem") or kind in ("attr", "link", "plends"):
                    own = A.H(o._element)
                    for h in set(before_all) | set(after_all):
                        b, a = before_all.get(h), after_all.get(h)
                        if b == a:
                            continue
                        ok = h == own or (a is not None and a[0] == own) or (b is not None and b[0] == own)
                        XSI = "{http://www.w3.org/2001/XMLSchema-instance}type"
                        if ok and h == own and kind in ("link", "attr", "plends") and a is not None and b is not None:
                            # the owner itself: a link-element relation leaves its attributes alone, an attribute relation changes only its own attribute
                            da, db = dict(a[2]), dict(b[2])
                            diff = {k_ for k_ in set(da) | set(db) if da.get(k_) != db.get(k_)}
                            ok = a[:2] == b[:2] and diff <= ({getattr(acc, "attr", None)} if kind != "link" else set())
                        elif ok and h != own and kind == "link":
                            # a child of the owner: only link elements of THIS relation (its tag and xsi:type) may come and go
                            x_ = a or b
                            ok = (acc.tag is None or x_[1] == acc.tag) and dict(x_[2]).get(XSI) in acc.xtypes and (a is None or b is None or a[:2] == b[:2])
                        elif ok and h != own and kind in ("attr", "plends"):
                            ok = False    # an attribute relation has no business with the owner's children
                        direct_ = h == own or (a is not None and a[0] == own) or (b is not None and b[0] == own)
                        if direct_:
                            pass      # the owner and its children were judged above; the rules below are for deeper descendants
                        elif not ok and a is None and b is not None:
                            # removed together with a removed member/link element of this relation
                            par = b[0]
                            while par is not None and par != own:
                                par = before_all.get(par, (None,))[0]
                            ok = par == own
                        if not direct_ and not ok and a is not None and b is not None:
                            # a moved donor's descendants do not change; an element elsewhere did
                            ok = False
                        if not direct_ and not ok and b is None and a is not None:
                            # new element below a new member (created object's children)
                            par = a[0]
                            while par is not None and par != own:
                                par = after_all.get(par, (None,))[0]
                            ok = par == own
                        if not ok:
                            chk.violation(f"collateral-change:{kind}:{opk}", f"{desc} changed an unrelated element {(b or a)[1]}",
                                          {"model": spec0["name"], "op": desc, "before": str(b)[:300], "after": str(a)[:300]})
                            break
                    # siblings of other kinds keep their relative order
                    ao = child_order(model, A).get(own, [])
                    bo = before_order.get(own, [])
                    keep = [h for h in bo if h in set(ao)]
                    if [h for h in ao if h in set(bo)] != keep:
                        chk.violation(f"sibling-order-changed:{kind}:{opk}", f"{desc} reordered existing children of the owner", {"op": desc})
                    # correspondence of the position arithmetic for containment/role lists
                    if kind in ("direct", "role") and opk in ("insert", "append") and len(ins_cases) < 600:
                        member_ids = set(ref)
                        kids = []
                        donor_h = A.H(donor._element)
                        for c in bo:
                            if c == donor_h:
                                continue
                            ce = A.H.elem(c)
                            kids.append([c, ce.get("id") in member_ids])
                        kids_after = []
                        members_after = set(expected)
                        for c in ao:
                            ce = A.H.elem(c)
                            kids_after.append([c, ce.get("id") in members_after])
                        ins_cases.append(([idx, donor_h, kids], kids_after))
                ref = expected
                lst = getattr(o, name) if inhand != expected else lst
        # every uniqueness-enforcing relation once: the same object appended through two list objects fetched before the edit
        for (clsname, name), (o, acc, n0, kind, _score) in targets:
            if kind not in ("link", "typecast") or not runner._alive(o):
                continue
            cls = getattr(acc, "class_", None)
            try:
                cur = uuids(getattr(o, name))
                donor = runner.pick(lambda x: (cls is None or isinstance(x, cls)) and x.uuid not in cur and x._element is not o._element
                                    and model._loader.find_fragment(x._element).parts[0] == "\0")
                if donor is None:
                    continue
                l1, l2 = getattr(o, name), getattr(o, name)
                l1.append(donor)
            except Exception:  # noqa: BLE001
                continue
            try:
                l2.append(donor)
                second = "accepted"
            except Exception as ex:  # noqa: BLE001
                second = type(ex).__name__
            stats[f"two-handles:{kind}:{second}"] += 1
            try:
                cnt = uuids(getattr(o, name)).count(donor.uuid)
            except Exception:  # noqa: BLE001
                continue
            chk.note_case((spec0["name"], clsname, name, "two-handles"))
            XSI_ = "{http://www.w3.org/2001/XMLSchema-instance}type"
            base_acc = getattr(acc, "wrapped", acc)     # link elements of THIS relation only: its tag, xsi:type and link attribute
            if getattr(base_acc, "follow", None):
                raw = sum(1 for c in o._element if isinstance(c.tag, str) and (base_acc.tag is None or c.tag == base_acc.tag) and c.get(XSI_) in base_acc.xtypes
                          and (c.get(base_acc.follow) or "").endswith("#" + donor.uuid))
            else:
                raw = 1
            if cnt != 1 or raw > 1:
                chk.violation(f"duplicate-through-second-handle:{kind}", f"{clsname}({o.uuid}).{name}: appending {donor.uuid} through two list objects of the relation "
                              f"({second}) leaves it {cnt}x in the list and in {raw} link elements of the model", {"model": spec0["name"], "owner": o.uuid, "relation": name, "donor": donor.uuid})
        # save + reload: the lists come back as written
        try:
            model.save()
            kw = {k: v for k, v in spec_s.items() if k not in ("name", "path")}
            re = capellambse.MelodyModel(str(spec_s["path"]), **kw)
            for (clsname, name), (o, acc, n0, kind, _score) in targets:
                if not runner._alive(o):
                    continue
                try:
                    a = uuids(getattr(o, name))
                    b = uuids(getattr(re.by_uuid(o.uuid), name))
                except Exception:  # noqa: BLE001
                    continue
                stats["reload-compared"] += 1
                if kind in ("RequirementsRelationAccessor", "ElementRelationAccessor"):
                    a, b = sorted(map(str, a)), sorted(map(str, b))   # computed by a model-wide search: index order, not XML order
                if a != b:
                    detail = []
                    try:
                        from lxml import etree as _et
                        for x in getattr(o, name):
                            detail.append(_et.tostring(x._element).decode()[:300])
                            for attr_ in ("source", "target"):
                                tid = (x._element.get(attr_) or "").split("#")[-1]
                                for nm_, mdl_ in (("memory", model), ("reloaded", re)):
                                    try:
                                        t_ = mdl_.by_uuid(tid)
                                        detail.append(f"{attr_} {tid} in {nm_}: {type(t_).__name__} in {mdl_._loader.find_fragment(t_._element)}")
                                    except Exception as exq:  # noqa: BLE001
                                        detail.append(f"{attr_} {tid} in {nm_}: {exq!r}")
                    except Exception as exd:  # noqa: BLE001
                        detail.append(repr(exd))
                    if kind == "RequirementsRelationAccessor":
                        try:
                            from capellambse.extensions.reqif import _capellareq as cr, _requirements as rq
                            o2 = re.by_uuid(o.uuid)
                            for i in re.search(cr.CapellaIncomingRelation, rq.InternalRelation, cr.CapellaOutgoingRelation):
                                try:
                                    s_, t_ = i.source, i.target
                                    detail.append(f"reloaded relation {i.uuid[:8]}: {type(s_).__name__} -> {type(t_).__name__} involves owner: {o2 in (s_, t_)}")
                                except Exception as exr:  # noqa: BLE001
                                    detail.append(f"reloaded relation {i.uuid[:8]}: {exr!r}")
                        except Exception as exr:  # noqa: BLE001
                            detail.append(repr(exr))
                    chk.violation(f"reload-mismatch:{kind}", f"{clsname}({o.uuid}).{name}: {a[-5:]} in memory, {b[-5:]} after save+reload", {"model": spec0["name"], "members_xml": detail})
            del re
        except Exception as e:  # noqa: BLE001
            chk.violation(f"save-reload-fails:{type(e).__name__}", f"save+reload after list edits fails: {e!r}", {"model": spec0["name"]})
        finally:
            shutil.rmtree(scratch_dir, ignore_errors=True)
        del model
    # pure list semantics: model vs CPython
    prng = random.Random(chk.seed)
    for _ in range(400 if quick else 4000):
        n = prng.randint(0, 6)
        l = [prng.randint(0, 9) for _ in range(n)]
        i = prng.randint(-n - 3, n + 3)
        e = list(l); e.insert(i, 77)
        py_cases.append(([i, 77, l], e))
        d = list(l)
        try:
            del d[i]
            out = d
        except IndexError as ex:
            out = err_of(ex)
        del_cases.append(([i, l], out))
        ob = lambda: prng.choice([None, prng.randint(-n - 3, n + 3), prng.randint(-n - 3, n + 3)])
        a_, b_ = ob(), ob()
        xs = [prng.randint(10, 19) for _ in range(prng.randint(0, 3))]
        e = list(l); e[a_:b_] = xs
        d = list(l); del d[a_:b_]
        slice_cases.append(([a_, b_, xs, l], [e, l[a_:b_], d]))
    chk.correspond("From V Require Import Model.Lists.", "w_py_slice_set", slice_cases, tag="C08_pyslice")
    chk.correspond("From V Require Import Model.Lists.", "w_fixed_step", fixed_cases, tag="C08_fixed")
    chk.correspond("From V Require Import Model.Lists.", "w_py_insert", py_cases, tag="C08_pyins")
    chk.correspond("From V Require Import Model.Lists.", "w_py_delitem", del_cases, tag="C08_pydel")
    chk.correspond("From V Require Import Model.Lists.", "w_direct_insert", ins_cases, tag="C08_dins")
    chk.coverage.update({"op_outcomes": dict(sorted(stats.items())),
                         "rule": "for every accessor kind (containment, role, link-element, attribute-link, typecast, fixed-length ends, requirement relations) up to 6 (quick) / 60 "
                                 "(thorough) distinct (class, relation) pairs, operation sequences over every index in [-len-2, len+2]: insert/append/del/create/setitem/duplicate/"
                                 "foreign/clear; after each step the list in hand, a freshly fetched list and a plain Python list are compared, every element of the model is diffed "
                                 "for collateral changes, sibling order is checked; finally save+reload"})
    chk.samples.append(dict(list(stats.items())[:8]))


if __name__ == "__main__":
    lib.main("C08", run)
