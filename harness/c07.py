"""C07 — Attribute values read back as written."""
from __future__ import annotations

import datetime as dtm
import enum as _enum
import html as _html
import importlib
import math
import pathlib
import re
import shutil
import struct
import sys

sys.path.insert(0, str(pathlib.Path(__file__).resolve().parent))
import lib
from lib import Err, err_of

sys.path.insert(0, str(lib.VERIF / "tools"))

import markupsafe

IMPORTS = "From V Require Import Model.Pods."
KINDS = {"StringPOD": 0, "HTMLStringPOD": 1, "BoolPOD": 2, "IntPOD": 3, "FloatPOD": 4,
         "DatetimePOD": 5, "EnumPOD": 6, "PVMTDescriptionProperty": 7}
ILLEGAL = ["\x00", "a\x0bb", "\x1f", "x\ufffe", "\uffff", "\ud800"]


# ------------------------------------------------------------------ encoders (Python value -> val shape)
def enc_float(f) -> list:
    f = float(f)
    if math.isnan(f):
        return [1, ""]
    if f == math.inf:
        return [2, ""]
    if f == -math.inf:
        return [3, ""]
    return [0, repr(f)]


def whole_minute(d: dtm.datetime) -> bool:
    off = d.utcoffset()
    return off is not None and off.microseconds == 0 and off.seconds % 60 == 0 and abs(off) < dtm.timedelta(hours=24)


def enc_dt(d: dtm.datetime) -> list:
    off = d.utcoffset()
    if off is None:
        return [d.year, d.month, d.day, d.hour, d.minute, d.second, d.microsecond, True, False, 0]
    mins = int(off.total_seconds()) // 60
    return [d.year, d.month, d.day, d.hour, d.minute, d.second, d.microsecond, False, mins < 0, abs(mins)]


def dt_fields(d: dtm.datetime):
    """comparison that never subtracts offsets (no OverflowError at year 1 / 9999)"""
    return (d.replace(tzinfo=None), d.utcoffset())


def trunc_ms(d: dtm.datetime) -> dtm.datetime:
    return d.replace(microsecond=d.microsecond // 1000 * 1000)


def rand_float(rng) -> float:
    while True:
        f = struct.unpack("<d", struct.pack("<Q", rng.getrandbits(64)))[0]
        if math.isfinite(f):
            return f


def rand_legal_str(rng, n: int) -> str:
    out = []
    for _ in range(n):
        r = rng.random()
        if r < 0.35:
            out.append(chr(rng.randint(0x20, 0x7e)))
        elif r < 0.5:
            out.append(rng.choice('<>&"\'\t\n\r ;#'))
        elif r < 0.6:
            out.append(chr(rng.randint(0x7f, 0xff)))
        elif r < 0.8:
            out.append(chr(rng.randint(0x100, 0xd7ff)))
        elif r < 0.9:
            out.append(chr(rng.randint(0xe000, 0xfffd)))
        else:
            out.append(chr(rng.randint(0x10000, 0x10ffff)))
    return "".join(out)


DT_OFFSETS = [0, 1, -1, 330, -330, 720, -720, 840, 1439, -1439, 345, -210, 60, -60]


def gen_datetimes(rng, n_random: int):
    out = []
    base = [(1, 1, 1, 0, 0, 0, 0), (999, 12, 31, 23, 59, 59, 999999), (1000, 1, 1, 0, 0, 0, 1), (1970, 1, 1, 0, 0, 0, 999),
            (2024, 2, 29, 23, 59, 59, 999999), (9999, 12, 31, 23, 59, 59, 999500), (2000, 6, 15, 12, 30, 45, 1000),
            (2023, 10, 5, 7, 8, 9, 123456)]
    for i, b in enumerate(base):
        for off in (DT_OFFSETS if i in (4, 7) else [DT_OFFSETS[i % len(DT_OFFSETS)], DT_OFFSETS[(3 * i + 1) % len(DT_OFFSETS)]]):
            out.append(dtm.datetime(*b, tzinfo=dtm.timezone(dtm.timedelta(minutes=off))))
    for _ in range(n_random):
        y = rng.choice([1, 2, 99, 100, 1582, 1969, 2038, 9998, rng.randint(1, 9999)])
        mo = rng.randint(1, 12)
        d = rng.randint(1, 28)
        us = rng.choice([0, 1, 499, 500, 999, 1000, 1001, 999000, 999999, rng.randint(0, 999999)])
        off = rng.choice(DT_OFFSETS + [rng.randint(-1439, 1439)])
        out.append(dtm.datetime(y, mo, d, rng.randint(0, 23), rng.randint(0, 59), rng.randint(0, 59), us,
                                tzinfo=dtm.timezone(dtm.timedelta(minutes=off))))
    return out


def odd_datetimes():
    """aware datetimes whose offset is not a whole minute, and naive ones: implementation oracle only"""
    return [
        dtm.datetime(2024, 2, 29, 23, 59, 59, 999999, tzinfo=dtm.timezone(dtm.timedelta(hours=1, seconds=30))),
        dtm.datetime(2024, 2, 29, 23, 59, 59, 5, tzinfo=dtm.timezone(dtm.timedelta(hours=-3, seconds=-1))),
        dtm.datetime(2001, 1, 1, 0, 0, 0, 0, tzinfo=dtm.timezone(dtm.timedelta(hours=23, minutes=59, microseconds=5))),
        dtm.datetime(2001, 1, 1, 0, 0, 0, 999, tzinfo=dtm.timezone(dtm.timedelta(hours=-11, microseconds=7))),
    ]


def naive_datetimes():
    return [dtm.datetime(2024, 2, 29, 23, 59, 59, 999999), dtm.datetime(2, 1, 1), dtm.datetime(9998, 12, 31, 23, 59, 59, 1),
            dtm.datetime(2010, 7, 4, 1, 2, 3, 4567)]


# ------------------------------------------------------------------ process environments (the written form of a naive datetime depends on TZ)
import os as _os
import time as _time


class TZEnv:
    """a POSIX TZ setting and the harness's own reading of it (no tz database, no libc): std/dst offsets in minutes east of UTC and the
    two M<month>.<week>.<weekday>/<seconds> rules, each given in the local time in force before the switch"""
    def __init__(self, tz, std, dst=None, start=None, end=None):
        self.tz, self.std, self.dst, self.start, self.end = tz, std, dst, start, end

    @staticmethod
    def _rule_day(y, m, w, wd):
        first = dtm.date(y, m, 1)
        day = 1 + (wd - (first.weekday() + 1) % 7) % 7          # POSIX weekday 0 = Sunday
        day += 7 * (w - 1)
        while True:
            try:
                return dtm.date(y, m, day)
            except ValueError:
                day -= 7

    def switches_utc(self, y):
        (m1, w1, d1, s1), (m2, w2, d2, s2) = self.start, self.end
        a = dtm.datetime.combine(self._rule_day(y, m1, w1, d1), dtm.time()) + dtm.timedelta(seconds=s1, minutes=-self.std)
        b = dtm.datetime.combine(self._rule_day(y, m2, w2, d2), dtm.time()) + dtm.timedelta(seconds=s2, minutes=-self.dst)
        return a, b

    def off_at_utc(self, u):
        if self.dst is None:
            return self.std
        a, b = self.switches_utc(u.year)
        in_dst = (a <= u < b) if a < b else (u >= a or u < b)
        return self.dst if in_dst else self.std

    def localize(self, d):
        """naive local wall-clock time (with its fold) -> the aware datetime it denotes (PEP 495 reading, gap times move across the gap)"""
        naive = d.replace(tzinfo=None, fold=0)
        if self.dst is None:
            return naive.replace(tzinfo=dtm.timezone(dtm.timedelta(minutes=self.std)))
        cands = sorted({naive - dtm.timedelta(minutes=o) for o in (self.std, self.dst)})
        valid = [u for u in cands if u + dtm.timedelta(minutes=self.off_at_utc(u)) == naive]
        if len(valid) == 2:
            u = valid[d.fold]                      # ambiguous: fold=0 the first occurrence
        elif valid:
            u = valid[0]
        else:
            u = cands[0] if d.fold else cands[1]   # in the gap
        o = self.off_at_utc(u)
        return (u + dtm.timedelta(minutes=o)).replace(tzinfo=dtm.timezone(dtm.timedelta(minutes=o)))

    def own_rule_applies(self, d):
        # glibc evaluates the M-rules of a POSIX TZ string as of 1970 for every earlier year: before 1971 (and next to the bounds
        # of the type) "local time" is whatever the platform says
        return self.dst is None or 1971 <= d.year <= 9998


class RuleTZ(dtm.tzinfo):
    """an aware-datetime zone with DST (what zoneinfo gives): utcoffset depends on the date"""
    def __init__(self, env):
        self.env = env

    def utcoffset(self, d):
        if d is None:
            return None
        return self.env.localize(d.replace(tzinfo=None)).utcoffset()

    def dst(self, d):
        return None if d is None else self.utcoffset(d) - dtm.timedelta(minutes=self.env.std)

    def tzname(self, d):
        return "RULE"


H = 3600
ENVS = [
    TZEnv("UTC", 0),
    TZEnv("<+0530>-5:30", 330),
    TZEnv("<-03>3", -180),
    TZEnv("CET-1CEST,M3.5.0,M10.5.0/3", 60, 120, (3, 5, 0, 2 * H), (10, 5, 0, 3 * H)),
    TZEnv("EST5EDT,M3.2.0,M11.1.0", -300, -240, (3, 2, 0, 2 * H), (11, 1, 0, 2 * H)),
    TZEnv("AEST-10AEDT,M10.1.0,M4.1.0/3", 600, 660, (10, 1, 0, 2 * H), (4, 1, 0, 3 * H)),
    TZEnv("<+1030>-10:30<+11>-11,M10.1.0,M4.1.0", 630, 660, (10, 1, 0, 2 * H), (4, 1, 0, 2 * H)),
]
CUR_ENV = [ENVS[0]]


class use_env:
    """run a block under another TZ (the harness itself runs under TZ=UTC) and restore the previous one afterwards"""
    def __init__(self, env):
        self.env = env

    def __enter__(self):
        self.old_tz, self.old_env = _os.environ.get("TZ"), CUR_ENV[0]
        _os.environ["TZ"] = self.env.tz
        _time.tzset()
        CUR_ENV[0] = self.env
        return self.env

    def __exit__(self, *a):
        if self.old_tz is None:
            _os.environ.pop("TZ", None)
        else:
            _os.environ["TZ"] = self.old_tz
        _time.tzset()
        CUR_ENV[0] = self.old_env


def expected_aware(v: dtm.datetime) -> dtm.datetime:
    """the aware datetime a valid datetime value denotes in the current environment"""
    if v.tzinfo is not None and v.utcoffset() is not None:
        return v
    env = CUR_ENV[0]
    if env.own_rule_applies(v):
        return env.localize(v)
    return v.astimezone()          # stdlib reading of the platform's local time (no capellambse code)


def env_datetimes(env, rng, n_random: int):
    """naive datetimes for one environment: both seasons, the switch instants (gap and fold, both folds), far past/future, random"""
    out = []
    years = [2, 1000, 1582, 1900, 1969, 1970, 1971, 2000, 2024, 2037, 2038, 2500, 9998]
    for y in years:
        out += [dtm.datetime(y, 1, 15, 12, 0, 0), dtm.datetime(y, 7, 15, 12, 0, 0, 999999), dtm.datetime(y, 12, 31, 23, 59, 59, 999500),
                dtm.datetime(y, 4, 10, 0, 0, 0, 1), dtm.datetime(y, 10, 20, 6, 30)]
        if env.dst is not None and 1971 <= y <= 9998:
            a, b = env.switches_utc(y)
            la, lb = a + dtm.timedelta(minutes=env.std), b + dtm.timedelta(minutes=env.dst)     # local wall clock at the switch
            jump = dtm.timedelta(minutes=env.dst - env.std)
            for base in (la, la + jump, lb, lb - jump):
                for delta in (dtm.timedelta(0), dtm.timedelta(microseconds=-1), dtm.timedelta(milliseconds=-1), dtm.timedelta(microseconds=1),
                              dtm.timedelta(seconds=1), jump / 2, -jump / 2, dtm.timedelta(minutes=1), dtm.timedelta(hours=-1)):
                    d = base + delta
                    out.append(d)
                    out.append(d.replace(fold=1))
    for _ in range(n_random):
        y = rng.choice(years + [rng.randint(2, 9998), rng.randint(1971, 2100)])
        out.append(dtm.datetime(y, rng.randint(1, 12), rng.randint(1, 28), rng.randint(0, 23), rng.randint(0, 59), rng.randint(0, 59),
                                rng.choice([0, 1, 999, 1000, 999999, rng.randint(0, 999999)]), fold=rng.choice([0, 0, 1])))
    return out


def aware_rule_datetimes(rng, n_random: int):
    """aware datetimes in zones with DST (both seasons, around the switches)"""
    out = []
    for env in ENVS:
        if env.dst is None:
            continue
        z = RuleTZ(env)
        for y in (1971, 2024, 9998):
            a, b = env.switches_utc(y)
            la, lb = a + dtm.timedelta(minutes=env.std), b + dtm.timedelta(minutes=env.dst)
            for d in (dtm.datetime(y, 1, 15, 12), dtm.datetime(y, 7, 15, 12, 0, 0, 123456), la - dtm.timedelta(seconds=1), la + dtm.timedelta(hours=1),
                      lb - dtm.timedelta(hours=2), lb + dtm.timedelta(seconds=1)):
                out.append(d.replace(tzinfo=z))
        for _ in range(n_random):
            out.append(dtm.datetime(rng.randint(1971, 9998), rng.randint(1, 12), rng.randint(1, 28), rng.randint(4, 23), rng.randint(0, 59),
                                    rng.randint(0, 59), rng.randint(0, 999999), tzinfo=z))
    return out


HTML_VALUES = ["<p>x</p>", "plain text", "a &amp; b", "<p>unclosed", "<b><i>x</b></i>", "x < y & z", "<a xlink:href='u' href=\"v\">l</a>",
               "<p>a</p><p>b</p>", " lead <b>x</b> tail ", "&nbsp;\u00e9 \U0001f600", "<ul><li>1<li>2</ul>", "<!-- c -->t",
               "<p style=\"color: red\">q'\"</p>", "a\r\nb<br>c", "<table><tr><td>1</table>", "</p>stray", "<p>" + "y" * 5000 + "</p>",
               "<img src=\"data:image/png;base64,AAAA\">", "<span>\u2028\ufffd</span>"]


# ------------------------------------------------------------------ the same value in the other Python types a setter accepts
class StrSub(str):
    """a plain subclass of str (what template engines / ORMs hand around)"""


class IntSub(_enum.IntEnum):
    SEVEN = 7
    NEG = -12
    BIG = 2**63


class DtSub(dtm.datetime):
    """a subclass of datetime (pandas.Timestamp, freezegun, arrow-like wrappers are subclasses)"""


class NoCanon:
    def __repr__(self):
        return "NOCANON"


NOCANON = NoCanon()


def xml_well_formed(fragment: str) -> bool:
    """the harness's own notion of well-formed markup: an XML parser accepts it as element content"""
    from lxml import etree
    try:
        etree.fromstring("<r>" + fragment + "</r>")
        return True
    except etree.XMLSyntaxError:
        return False


def indep_read(kc: int, text: str, desc):
    """what a reader of the saved XML sees: the harness's own reading of an attribute text (no capellambse code).  Returns SKIP when
    the text is outside the layouts the harness reads"""
    if kc in (0, 1, 7):
        return text
    if kc == 2:
        return text == "true"
    if kc == 3:
        return int(text) if re.fullmatch(r"-?\d{1,4000}", text) else SKIP
    if kc == 4:
        if text == "*":
            return math.inf
        return float(text) if re.fullmatch(r"-?(\d+\.\d+(e[+-]?\d+)?|\d+e[+-]?\d+)", text) else SKIP
    if kc == 5:
        mm = re.fullmatch(r"(\d{4})-(\d\d)-(\d\d)T(\d\d):(\d\d):(\d\d)\.(\d{3})([+-])(\d\d)(\d\d)", text)
        if not mm:
            return SKIP
        y, mo, d, h, mi, sec, ms, sg, oh, om = mm.groups()
        off = (int(oh) * 60 + int(om)) * (-1 if sg == "-" else 1)
        return dtm.datetime(int(y), int(mo), int(d), int(h), int(mi), int(sec), int(ms) * 1000, tzinfo=dtm.timezone(dtm.timedelta(minutes=off)))
    if kc == 6:
        ms_ = [m for m in desc.enumcls.__members__.values() if m.value == text]
        return ms_[0] if ms_ else SKIP
    return SKIP


def indep_same(kc: int, rb, seen) -> bool:
    """value read back through the API == the harness's reading of the XML text"""
    if seen is SKIP:
        return True
    if kc in (0, 1):
        return isinstance(rb, str) and str(rb) == seen
    if kc == 2:
        return rb is seen
    if kc == 3:
        return type(rb) is int and rb == seen
    if kc == 4:
        return type(rb) is float and rb == seen and math.copysign(1, rb) == math.copysign(1, seen)
    if kc == 5:
        return isinstance(rb, dtm.datetime) and rb.tzinfo is not None and dt_fields(rb) == dt_fields(seen)
    if kc == 6:
        return rb is seen
    if kc == 7:
        return hasattr(rb, "raw") and rb.raw == seen
    return True


def run(chk: lib.Check):
    import capellambse
    from capellambse import helpers
    from capellambse.loader import exs
    from capellambse.model import _pods
    from lxml import etree
    import lxml.html
    import gen_pods

    pr = chk.prove()
    quick = chk.tier == "quick"
    rng = chk.rng
    capellambse.load_model_extensions()
    import capellambse.metamodel  # noqa: F401
    from capellambse.extensions.pvmt import _config as pvmt_config

    data = gen_pods.reflect(lib.REPO)      # same rows / enum order as Gen/PodsTab.v
    rows = data["rows"]
    enum_keys = list(data["enums"])

    def resolve(key: str):
        mod, _, qual = key.rpartition(".")
        while True:
            try:
                m = importlib.import_module(mod)
                break
            except ModuleNotFoundError:
                mod, _, rest = mod.rpartition(".")
                qual = rest + "." + qual
        o = m
        for part in qual.split("."):
            o = getattr(o, part)
        return o

    enum_cls = [resolve(k) for k in enum_keys]
    counts: dict[str, int] = {}

    def cnt(k, n=1):
        counts[k] = counts.get(k, 0) + n

    # =================================================================== 1. codecs: model vs implementation
    P_int, P_flt, P_dt = _pods.IntPOD("v"), _pods.FloatPOD("v"), _pods.DatetimePOD("v")
    # ---- int
    ints = [0, 1, -1, 9, 10, -10, 2**63, -2**63, 2**63 - 1, 10**30, -10**30, 2**64, 10**100 + 7, -(10**100)]
    for _ in range(200 if quick else 1500):
        nd = rng.choice([1, 2, 5, 18, 19, 20, 40, 200]) if quick else rng.choice([1, 3, 19, 20, 40, 77, 150, 200])
        ints.append(rng.choice([-1, 1]) * rng.randrange(10 ** (nd - 1), 10 ** nd))
    if not quick:
        ints += [10**600 + 1, -(10**599) - 7]
    # very long integers: implementation only (binary division in Coq is too slow for them)
    for _ in range(20 if quick else 300):
        nd = rng.choice([500, 1000, 4000, 4299])
        z = rng.choice([-1, 1]) * rng.randrange(10 ** (nd - 1), 10 ** nd)
        if P_int._from_xml(P_int._to_xml(z)) != z:
            chk.violation("int:huge", f"IntPOD: a {nd}-digit integer does not read back", {"kind": "int", "digits": nd})
        chk.note_case(("int-long", nd, z % 10**9))
    c_to, c_from = [], []
    for z in ints:
        txt = P_int._to_xml(z)
        c_to.append((z, txt))
        try:
            back = P_int._from_xml(txt)
        except Exception as e:  # noqa: BLE001
            back = err_of(e)
        c_from.append((txt, back))
        chk.note_case(("int", z), nontrivial=abs(z) > 9)
        if back != z or txt != str(z):
            chk.violation(f"int:{z if abs(z) < 10**20 else 'huge'}", f"IntPOD: {z} written as {txt!r} reads back {back!r}", {"kind": "int", "value": str(z), "text": txt})
    for bad in ["", "-", "+", "abc", "1.0", "*", "0x10", "--5", "1e3", "+5", "-0", "007", "5-"]:
        try:
            back = P_int._from_xml(bad)
        except Exception as e:  # noqa: BLE001
            back = err_of(e)
        c_from.append((bad, back))
    chk.correspond(IMPORTS, "w_int_to", c_to, tag="C07_int_to")
    chk.correspond(IMPORTS, "w_int_from", c_from, tag="C07_int_from")
    cnt("int_values", len(ints))

    # ---- datetime
    dts = gen_datetimes(rng, 150 if quick else 4000)
    c_to, c_from = [], []
    for d in dts:
        txt = P_dt._to_xml(d)
        c_to.append((enc_dt(d), txt))
        try:
            back = P_dt._from_xml(txt)
            c_from.append((txt, enc_dt(back)))
        except Exception as e:  # noqa: BLE001
            back = None
            c_from.append((txt, err_of(e)))
        chk.note_case(("dt", txt))
        good = (re.fullmatch(r"\d{4}-\d\d-\d\dT\d\d:\d\d:\d\d\.\d{3}[+-]\d{4}", txt) is not None
                and back is not None and dt_fields(back) == dt_fields(trunc_ms(d)))
        if not good:
            chk.violation(f"datetime:{d.isoformat()}", f"DatetimePOD: {d!r} written as {txt!r} reads back {back!r}",
                          {"kind": "datetime", "value": d.isoformat(), "text": txt})
    for d in odd_datetimes() + naive_datetimes():
        txt = P_dt._to_xml(d)
        try:
            back = P_dt._from_xml(txt)
        except Exception as e:  # noqa: BLE001
            back = None
        want = trunc_ms(d if d.tzinfo else d.replace(tzinfo=dtm.timezone.utc))     # the harness runs with TZ=UTC
        chk.note_case(("dt-odd", txt))
        if back is None or dt_fields(back) != dt_fields(want):
            chk.violation(f"datetime:{d.isoformat()}", f"DatetimePOD: {d!r} written as {txt!r} reads back {back!r}",
                          {"kind": "datetime", "value": d.isoformat(), "text": txt})
        if d.tzinfo is None:
            c_to.append((enc_dt(d), txt))
    chk.correspond(IMPORTS, "w_dt_to", c_to, tag="C07_dt_to")
    chk.correspond(IMPORTS, "w_dt_from", c_from, tag="C07_dt_from")
    cnt("datetimes", len(dts) + 8)
    # the two regular expressions on arbitrary ASCII strings
    alpha = "+-:0123456789T.\nZ "
    rs = [c[1] for c in c_to[:60]] + [d.isoformat("T", "milliseconds") for d in dts[:60]]
    rs += ["+01:00", "-0100", "+01:00\n", "+0100\n", "x+01:00:30", "+01:0", "01:00", "+1:00", "+01:00 ", "", ":", "+01:00:00", "+010000",
           "++01:00", "+01:00+02:00", "+0100+0200", "\n", "+01:00\n\n", "-99:99", "T+05:30"]
    for _ in range(300 if quick else 5000):
        rs.append("".join(rng.choice(alpha) for _ in range(rng.randint(0, 12))))
        tail = rng.choice(["+", "-", "", "T"]) + "".join(rng.choice("0123456789:") for _ in range(rng.randint(3, 6)))
        rs.append("".join(rng.choice(alpha) for _ in range(rng.randint(0, 5))) + tail + rng.choice(["", "", "\n"]))
    rs = list(dict.fromkeys(rs))
    chk.correspond(IMPORTS, "w_re_set", [(s, _pods.DatetimePOD.re_set.sub("", s)) for s in rs], tag="C07_re_set")
    chk.correspond(IMPORTS, "w_re_get", [(s, _pods.DatetimePOD.re_get.sub(":", s)) for s in rs], tag="C07_re_get")
    cnt("regex_strings", len(rs))

    # ---- float: CPython's repr law and the marker (the Section hypotheses of the float theorems), sampled
    floats = [0.0, -0.0, 1.5, -1.5, 5e-324, -5e-324, 2.2250738585072014e-308, 2.225073858507201e-308, 1.7976931348623157e308,
              -1.7976931348623157e308, 1e16, 1e22, 1e23, 0.1, 1 / 3, 123456789.123456789, 1e-7, 9007199254740993.0]
    floats += [rand_float(rng) for _ in range(300 if quick else 20000)]
    for f in floats:
        txt = P_flt._to_xml(f)
        try:
            back = P_flt._from_xml(txt)
        except Exception as e:  # noqa: BLE001
            back = err_of(e)
        chk.note_case(("float", txt))
        if isinstance(back, Err) or back != f or math.copysign(1, back) != math.copysign(1, f) or not txt.isascii() or txt == "*":
            chk.violation(f"float:{txt}", f"FloatPOD: {f!r} written as {txt!r} reads back {back!r}", {"kind": "float", "value": repr(f)})
    try:
        float("*")
        chk.broken.append("assumption: float('*') no longer fails")
    except ValueError:
        pass
    cnt("floats", len(floats))

    # ---- lxml's text check
    cps = list(range(0, 0x300)) + [0xd7ff, 0xd800, 0xdbff, 0xdc00, 0xdfff, 0xe000, 0xfdd0, 0xfffd, 0xfffe, 0xffff, 0x10000, 0x1fffe,
                                   0x1ffff, 0x10fffe, 0x10ffff]
    cps += [rng.randint(0x300, 0x10ffff) for _ in range(200 if quick else 5000)]
    xc = []
    probe = etree.Element("p")
    for cp in cps:
        for s in (chr(cp), "a" + chr(cp) + "b"):
            try:
                probe.set("a", s)
                ok = True
            except ValueError:
                ok = False
            xc.append((s, ok))
    chk.correspond(IMPORTS, "w_xml_ok", xc, tag="C07_xmlok")
    cnt("codepoints", len(cps))

    # ---- exs attribute escaping, and reading it back with the real parser
    estr = ["", "a", "\t\n\r", "a\nb", "\"", "'", "&", "<", ">", "&amp;", "&#xA;", "]]>", "a;b", "\x7f", "\x80\x85\x9f", "\u00a0", "é",
            "\u2028", "\ufffd", "\U0001f600", "x" * 300, " lead", "trail ", "a  b", "<a href=\"u\">&'</a>"]
    estr += [rand_legal_str(rng, rng.randint(1, 30)) for _ in range(300 if quick else 6000)]
    ec, rc = [], []
    for s in estr:
        try:
            t = exs._escape(s)
        except Exception as e:  # noqa: BLE001
            t = err_of(e)
        ec.append((s, t))
        chk.note_case(("esc", s), nontrivial=any(c in s for c in "\t\n\r\"&<"))
        if isinstance(t, Err):
            chk.violation(f"escape:{s[:20]!r}", f"exs._escape({s!r}) raises {t}", {"kind": "escape", "value": s})
            continue
        doc = ('<r a="' + t + '"/>').encode("utf-8")
        try:
            got = etree.fromstring(doc).get("a")
        except etree.XMLSyntaxError as e:
            got = Err("Malformed")
        rc.append((t, got if isinstance(got, str) else None))
        if got != s:
            chk.violation(f"escape:{s[:20]!r}", f"attribute text {s!r} is saved as {t!r} which a parser reads as {got!r}",
                          {"kind": "escape", "value": s, "saved": t, "read": repr(got)})
    for t in ["&#65;", "&#x41;&#x42;", "&apos;&gt;", "a\tb", "a\nb", "&bogus;", "&#xZZ;", "&amp", "a<b"]:
        try:
            got = etree.fromstring(('<r a="' + t + '"/>').encode()).get("a")
        except etree.XMLSyntaxError:
            got = None
        rc.append((t, got))
    chk.correspond(IMPORTS, "w_escape", ec, tag="C07_escape")
    chk.correspond(IMPORTS, "w_attr_read", rc, tag="C07_attr_read")
    cnt("escape_strings", len(estr))

    # ---- every enum class, every member: by object, by name, from value
    et, ef = [], []
    for ei, ecls in enumerate(enum_cls):
        pod = _pods.EnumPOD("v", ecls)
        for mi, (nm, m) in enumerate(ecls.__members__.items()):
            et.append(([ei, mi], pod._to_xml(m)))
            et.append(([ei, nm], pod._to_xml(nm)))
            try:
                back = pod._from_xml(m.value)
            except Exception as e:  # noqa: BLE001
                back = err_of(e)
            ef.append(([ei, m.value], list(ecls.__members__.values()).index(back) if not isinstance(back, Err) else back))
            chk.note_case(("enum", ei, mi))
            if back is not m or pod._from_xml(pod._to_xml(nm)) is not m:
                chk.violation(f"enum:{ecls.__name__}.{nm}", f"EnumPOD({ecls.__name__}): member {nm} reads back {back!r}",
                              {"kind": "enum", "enum": ecls.__name__, "member": nm})
        for badname in ["", "unset", "NOPE"]:
            if badname in ecls.__members__:
                continue
            try:
                r = pod._to_xml(badname)
            except Exception as e:  # noqa: BLE001
                r = err_of(e)
            et.append(([ei, badname], r))
            try:
                r = pod._from_xml(badname + "?")
            except Exception as e:  # noqa: BLE001
                r = err_of(e)
            ef.append(([ei, badname + "?"], r))
    chk.correspond(IMPORTS, "w_enum_to", et, tag="C07_enum_to")
    chk.correspond(IMPORTS, "w_enum_from", ef, tag="C07_enum_from")
    cnt("enum_members", sum(len(e.__members__) for e in enum_cls))

    # ---- html.escape stand-in
    hs = estr[:200]
    chk.correspond(IMPORTS, "w_html_esc", [(s, _html.escape(s)) for s in hs], tag="C07_htmlesc")

    # ---- HTML repair: idempotent on what it produces (lxml behaviour, sampled only)
    hvals = list(HTML_VALUES) + [rand_legal_str(rng, rng.randint(1, 40)) for _ in range(60 if quick else 1500)]
    for _ in range(60 if quick else 1500):
        parts = [rng.choice(["<p>", "</p>", "<b>", "</b>", "<i>", "<br>", "<li>", "<ul>", "</ul>", "x", " y ", "&amp;", "&", "<", ">", "&lt;",
                             "<a href=\"h\">", "</a>", "<td>", "é", "\n", "<span style='a:b'>", "</span>", "<!--", "-->"])
                 for _ in range(rng.randint(1, 9))]
        hvals.append("".join(parts))
    n_rep = 0
    for h in hvals:
        try:
            r1 = str(helpers.repair_html(h))
        except Exception:  # noqa: BLE001
            continue
        try:
            r2 = str(helpers.repair_html(r1))
        except Exception as e:  # noqa: BLE001
            r2 = err_of(e)
        n_rep += 1
        chk.note_case(("html", h))
        if r2 != r1:
            chk.violation(f"html-idem:{h[:30]!r}", f"repair_html is not idempotent on {h!r}: {r1!r} -> {r2!r}", {"kind": "html", "value": h})
    cnt("html_values", n_rep)

    # =================================================================== 2. every descriptor x value classes
    model = capellambse.MelodyModel(str(lib.REPO / "tests/data/melodymodel/5_2/Melody Model Test.aird"))

    def make(cls, el):
        o = cls.__new__(cls)
        object.__setattr__(o, "_model", model)
        object.__setattr__(o, "_element", el)
        return o

    by_kind: dict[str, list] = {}
    for r in rows:
        by_kind.setdefault(r[2], []).append(r)
    sel = []
    for k, rs_ in by_kind.items():
        if k in ("StringPOD", "HTMLStringPOD") and quick:
            reg = [r for r in rs_ if r[7]]
            sel += rng.sample(reg, min(len(reg), 75)) + [r for r in rs_ if not r[7]][:5]
            sel += [r for r in rs_ if not r[4]][:6]          # read-only ones
        else:
            sel += rs_
    seen = set()
    sel = [r for r in sel if not ((r[0], r[1]) in seen or seen.add((r[0], r[1])))]

    long_s = "L" * (20_000 if quick else 100_000)
    str_vals_all = ["", "x", "name with spaces", "<&>\"'", "\t\n\r x  ", "é\u4e2d\U0001f600\ufffd\U0010ffff\ue000", "\x85\x7f",
                    "a\nb", "&amp;", "]]>", "M" * 3000] + ILLEGAL
    pod_cases = []
    desc_cnt = 0
    for r in sel:
        key, name, kind, attr, writable, eidx, dflt, registered = r
        cls = resolve(key)
        desc = getattr(cls, name)
        if not isinstance(desc, _pods.BasePOD) or type(desc).__name__ != kind or desc.attribute != attr:
            chk.broken.append(f"harness: table row {key}.{name} does not match the live class")
            continue
        desc_cnt += 1
        kc = KINDS.get(kind)
        if kc is None:
            chk.broken.append(f"unknown POD kind {kind} at {key}.{name}: not covered by any codec theorem")
            continue
        # ---- values: (python value, encoded value or SKIP, valid?, expected-equal function)
        vals = []
        if kc == 0:
            few = [rng.choice(str_vals_all[1:8])] + [rng.choice(ILLEGAL)] + [rand_legal_str(rng, rng.randint(1, 20))]
            use = str_vals_all + [rand_legal_str(rng, 50)] if (not quick or desc_cnt % 10 == 0 or not writable) else ["", "x"] + few
            if desc_cnt % 50 == 1:
                use = use + [long_s]
            for s in use:
                vals.append((s, s, s not in ILLEGAL))
            # the same text as markupsafe.Markup / as a str subclass: stored and read back as the plain text
            for s in rng.sample(str_vals_all[1:10], 2) + [rng.choice(ILLEGAL)]:
                wrap = rng.choice([markupsafe.Markup, StrSub])
                vals.append((wrap(s), s, s not in ILLEGAL, s))
            vals.append((None, None, True))
            dflt_enc = str(desc.default)
        elif kc == 1:
            use = HTML_VALUES + [""] if (not quick or desc_cnt % 12 == 0) else [rng.choice(HTML_VALUES), "", rng.choice(HTML_VALUES)]
            # every value also as markupsafe.Markup (the type the getter returns, so what `a.description = b.description` and
            # template code pass in) -- well-formed and ill-formed alike -- and as a str subclass
            ill = [h for h in HTML_VALUES if not xml_well_formed(h)]
            well = [h for h in HTML_VALUES if xml_well_formed(h)]
            alt = [(markupsafe.Markup, h) for h in use if h] if (not quick or desc_cnt % 12 == 0) else \
                  [(markupsafe.Markup, rng.choice(ill)), (markupsafe.Markup, rng.choice(well)), (rng.choice([markupsafe.Markup, StrSub]), rng.choice(ill))]
            for h in use:
                try:
                    rep = str(helpers.repair_html(h))
                    vals.append((h, [h, rep], True))
                except Exception:  # noqa: BLE001
                    vals.append((h, SKIP, False))
            for wrap, h in alt:
                try:
                    rep = str(helpers.repair_html(h))
                    vals.append((wrap(h), [h, rep], True, h))
                except Exception:  # noqa: BLE001
                    vals.append((wrap(h), SKIP, False, h))
            vals.append((None, None, True))
            dflt_enc = str(desc.default)
        elif kc == 2:
            vals = [(True, True, True), (False, False, True), (None, None, True), (1, SKIP, False), ("true", SKIP, False)]
            dflt_enc = desc.default
        elif kc == 3:
            for z in [0, 1, -1, 2**63, -2**63, 10**30, -10**30, rng.choice(ints), rng.choice(ints)]:
                vals.append((z, z, True))
            vals += [(None, None, True), (1.5, SKIP, False), ("3", SKIP, False), (10**5000, SKIP, False), (True, SKIP, True, 1),
                     (False, SKIP, True, 0), (5.0, SKIP, False)]
            vals += [(m_, SKIP, True, int(m_)) for m_ in IntSub]          # int subclasses: written as the plain number
            dflt_enc = desc.default
        elif kc == 4:
            for f in [0.0, -0.0, 1.5, 5e-324, 1.7976931348623157e308, -1.7976931348623157e308, 1e22, 0.1, math.inf,
                      rand_float(rng), rand_float(rng)]:
                vals.append((f, enc_float(f), True))
            # the same number as an int (and int subclasses): stored as the float
            for z in [5, -7, 0, 2**53 + 1, rng.randrange(-10**6, 10**6), 10**22]:
                vals.append((z, enc_float(z), True, float(z)))
            vals += [(IntSub.SEVEN, SKIP, True, 7.0), (True, SKIP, True, 1.0), (10**400, SKIP, False)]
            vals += [(math.nan, enc_float(math.nan), False), (-math.inf, enc_float(-math.inf), False), (None, None, True),
                     ("1.0", SKIP, False)]
            dflt_enc = repr(desc.default)
        elif kc == 5:
            for d in rng.sample(dts, 12):
                vals.append((d, enc_dt(d), True))
            # naive (= local time of the environment) vs the aware datetime it denotes; datetime subclasses
            for d in naive_datetimes()[:2] + [rng.choice(naive_datetimes())]:
                vals.append((d, enc_dt(d), True, expected_aware(d)))
            d = rng.choice(dts)
            vals.append((DtSub(d.year, d.month, d.day, d.hour, d.minute, d.second, d.microsecond, tzinfo=d.tzinfo), enc_dt(d), True, d))
            d = rng.choice(dts)
            vals.append((d.astimezone(dtm.timezone(dtm.timedelta(minutes=rng.choice(DT_OFFSETS)))), SKIP, True))
            for d in odd_datetimes()[:2]:
                vals.append((d, SKIP, True))
            vals += [(None, None, True), ("2020-01-01", SKIP, False), (dtm.date(2020, 1, 1), SKIP, False)]
            dflt_enc = None
        elif kc == 6:
            ecls = desc.enumcls
            if ecls is not enum_cls[eidx]:
                chk.broken.append(f"harness: enum table index mismatch at {key}.{name}")
                continue
            for mi, (nm, m) in enumerate(ecls.__members__.items()):
                vals.append((m, mi, True))
                vals.append((nm, nm, True, m))
            nm, m = rng.choice(list(ecls.__members__.items()))
            vals.append((StrSub(nm), nm, True, m))
            vals += [("NO_SUCH_MEMBER", "NO_SUCH_MEMBER", False), (None, None, True)]
            dflt_enc = list(ecls.__members__.values()).index(desc.default)
        else:
            SR = pvmt_config.SelectorRules
            for raw in ["", "[CLASS]x[/CLASS]", "[PROPERTY]a.b<1[/PROPERTY]\n<&>\"", "é"]:
                vals.append((SR(raw), [True, raw], True))
                vals.append((raw, [False, raw], True, SR(raw)))
            vals += [(SR("a\x00"), [True, "a\x00"], False), (None, None, True), (5, SKIP, False)]
            dflt_enc = desc.default.raw

        pre_old = {0: "old", 1: "<p>old</p>", 2: "true", 3: "42", 4: "2.5", 5: "2001-02-03T04:05:06.007+0100", 6: None, 7: "old"}[kc]
        if kc == 6:
            pre_old = list(desc.enumcls.__members__.values())[-1].value
        if kc == 2:
            pre_old = rng.choice(["true", "false", "TRUE", "1", "", "true "])
        for vi, (v, venc, valid, *more) in enumerate(vals):
            canon = more[0] if more else NOCANON
            # the element before: other attributes around, the target attribute present or not
            present = (vi % 2 == 0) if writable else (vi % 3 != 0)
            before = [("id", "u-1")]
            if present and attr != "id":
                before.append((attr, pre_old))
            before += [("zz", "keep <&> me"), ("name", "N")] if attr not in ("zz", "name") else [("zz2", "k")]
            if attr == "id":
                before = ([("id", "u-1")] if present else []) + [("zz", "keep")]
            if rng.random() < 0.3:
                before.reverse()
            el = etree.Element("e")
            for k_, v_ in before:
                el.set(k_, v_)
            obj = make(cls, el)
            b_attrs = list(el.attrib.items())
            try:
                setattr(obj, name, v)
                err = None
            except Exception as e:  # noqa: BLE001
                err = err_of(e)
            a_attrs = list(el.attrib.items())
            try:
                rb = getattr(obj, name)
                rb_err = None
            except Exception as e:  # noqa: BLE001
                rb, rb_err = None, err_of(e)
            tag = f"{kind}:{key.rsplit('.', 1)[1]}.{name}"
            vkey = value_key(v, kc)
            chk.note_case((key, name, vkey, present), nontrivial=v not in (None, "", False, 0))
            cnt("pod_cases:" + kind)
            had = dict(b_attrs).get(attr)
            now = dict(a_attrs).get(attr)
            rep = {"class": key, "attribute": name, "xml_attribute": attr, "value": srepr(v), "attrs_before": b_attrs[:6],
                   "attrs_after": [(k_, v_[:200]) for k_, v_ in a_attrs[:6]], "error": repr(err), "read_back": repr(rb)[:200]}
            # ---------------- independent oracle on the implementation
            if err is not None:
                if a_attrs != b_attrs:
                    chk.violation(f"{vkey}:rejected-but-modified", f"{tag} = {srepr(v):.80} raised {err} but changed the XML", rep)
                if valid and (writable or had is None):
                    chk.violation(f"{vkey}:valid-rejected", f"{tag} = {srepr(v):.80} (a valid value) raised {err}", rep)
            else:
                if not writable and had is not None:
                    chk.violation(f"readonly:{vkey}", f"{tag} is read-only and present, but assigning {srepr(v):.60} did not raise", rep)
                if [kv for kv in a_attrs if kv[0] != attr] != [kv for kv in b_attrs if kv[0] != attr]:
                    chk.violation(f"frame:{vkey}", f"{tag} = {srepr(v):.60} changed another attribute", rep)
                if not valid:
                    chk.violation(f"{vkey}:invalid-accepted", f"{tag} accepted the invalid value {srepr(v):.60}", rep)
                isdef = v is None or is_default(kc, v, desc)
                if isdef:
                    if now is not None:
                        chk.violation(f"default-kept:{vkey}", f"{tag} = {srepr(v):.60} (the default) left {attr}={now!r:.40} in the XML", rep)
                    if rb_err is not None or not same_value(kc, rb, desc.default, desc):
                        chk.violation(f"absent-default:{vkey}", f"{tag}: absent attribute reads {rb!r:.60} / {rb_err}, default is {desc.default!r}", rep)
                elif valid:
                    if now is None:
                        chk.violation(f"{vkey}:not-written", f"{tag} = {srepr(v):.60} wrote nothing", rep)
                    elif rb_err is not None or not same_value(kc, rb, v, desc):
                        chk.violation(f"{vkey}:readback", f"{tag} = {srepr(v):.60} reads back {rb!r:.60} / {rb_err} (XML {now!r:.60})", rep)
                    elif kc == 1:
                        # HTML: what is read back is the stored text, well-formed, and assigning it again changes nothing
                        try:
                            etree.fromstring("<r>" + now + "</r>")
                            wf = True
                        except etree.XMLSyntaxError:
                            wf = False
                        if writable:
                            setattr(obj, name, rb)
                        if str(rb) != now or not wf or el.get(attr) != now:
                            chk.violation(f"html:{vkey}", f"{tag} = {srepr(v):.60}: stored {now!r:.60}, read {rb!r:.60}, well-formed={wf}, after re-assigning {el.get(attr)!r:.60}", rep)
            # ---------------- the same value in another Python type the setter accepts: the XML must not depend on the type
            if canon is not NOCANON:
                el2 = etree.Element("e")
                for k_, v_ in before:
                    el2.set(k_, v_)
                obj2 = make(cls, el2)
                try:
                    setattr(obj2, name, canon)
                    err2 = None
                except Exception as e:  # noqa: BLE001
                    err2 = err_of(e)
                cnt("alt_type_twins:" + type(v).__name__)
                if (err is None) != (err2 is None) or list(el2.attrib.items()) != a_attrs:
                    # one recorded case: the default of a PVMT selector given as str ("") is stored, given as SelectorRules("") it is elided
                    tkey = "pvmt:default-as-str-kept" if kc == 7 and is_default(kc, canon, desc) and err is None and err2 is None \
                        and now == desc.default.raw and el2.get(attr) is None else f"{vkey}:type-dependent"
                    chk.violation(tkey, f"{tag} = {srepr(v):.70} ({type(v).__name__}) stores {now!r:.60} / {err}; the same value as "
                                  f"{type(canon).__name__} ({srepr(canon):.60}) stores {el2.get(attr)!r:.60} / {err2}",
                                  dict(rep, same_value_as=srepr(canon), type=type(v).__name__, canonical_type=type(canon).__name__,
                                       attrs_after_canonical=[(k_, v_[:200]) for k_, v_ in list(el2.attrib.items())[:6]]))
            # ---------------- what a reader of the saved XML sees: written by the real writer, parsed by lxml, read by the harness
            if err is None and valid and now is not None and rb_err is None and len(now) < 5000:
                try:
                    seen_el = etree.fromstring(exs.to_bytes(el))
                    seen_txt = seen_el.get(attr)
                except Exception as e:  # noqa: BLE001
                    seen_el, seen_txt = None, f"<{type(e).__name__}: {e}>"
                cnt("xml_reader_checks")
                if seen_txt != now or not indep_same(kc, rb, indep_read(kc, seen_txt, desc)):
                    chk.violation(f"{vkey}:xml-reader", f"{tag} = {srepr(v):.60} reads back {rb!r:.60}; a reader of the written XML sees "
                                  f"{attr}={seen_txt!r:.80} (in memory {now!r:.60})", dict(rep, xml_text_seen=str(seen_txt)[:300]))
                elif seen_el is not None:
                    try:
                        rb3 = getattr(make(cls, seen_el), name)
                        ok3 = same_value(kc, rb3, rb, desc, exact=True) if kc != 5 else dt_fields(rb3) == dt_fields(rb)
                    except Exception as e:  # noqa: BLE001
                        rb3, ok3 = err_of(e), False
                    if not ok3:
                        chk.violation(f"{vkey}:xml-reader", f"{tag} = {srepr(v):.60} reads back {rb!r:.60}, but {rb3!r:.60} from the written and re-parsed XML",
                                      dict(rep, xml_text_seen=str(seen_txt)[:300]))
            # ---------------- correspondence with the model
            if venc is not SKIP:
                out_rb = rb_err if rb_err is not None else enc_value(kc, rb, desc)
                inp = [kc, bool(writable), attr, dflt_enc, eidx, [[k_, v_] for k_, v_ in b_attrs], venc]
                pod_cases.append((inp, [err, [[k_, v_] for k_, v_ in a_attrs], out_rb]))
        # absent attribute reads as the default (fresh element)
        el = etree.Element("e")
        obj = make(cls, el)
        try:
            rb = getattr(obj, name)
            ok = same_value(kc, rb, desc.default, desc)
        except Exception:  # noqa: BLE001
            ok = False
        if not ok:
            chk.violation(f"absent-default:{kind}", f"{key}.{name}: absent attribute does not read as the default", {"class": key, "attribute": name})
    chk.correspond(IMPORTS, "w_pod", pod_cases, tag="C07_pod", shard=150 if quick else 400,
                   describe=lambda i: {"kind/writable/attr/default/enum/attrs/value": pod_cases[i][0][:5] + [str(pod_cases[i][0][5])[:200], str(pod_cases[i][0][6])[:200]]})
    cnt("descriptors", desc_cnt)
    chk.samples.append({"pod_case": pod_cases[3] if len(pod_cases) > 3 else None})

    # =================================================================== 2b. datetimes under several process environments
    # What _to_xml writes for a naive datetime depends on the process's TZ.  Every environment of ENVS (UTC, fixed offsets east and
    # west, zones with DST on both hemispheres, a 30-minute DST) x naive datetimes in both seasons, at the switch instants (gap and
    # fold, both folds), far past and far future years, and aware datetimes (fixed offsets and zones with DST): codec directly and
    # through every DatetimePOD descriptor on a fresh element.  Expected value: the harness's own reading of the TZ rule.
    dt_rows = [r for r in rows if r[2] == "DatetimePOD" and r[4]]
    aware_pool = rng.sample(dts, 25) + odd_datetimes() + aware_rule_datetimes(rng, 4 if quick else 60)
    env_stats: dict[str, dict] = {}
    ri = 0
    for env in ENVS:
        st = env_stats.setdefault(env.tz, {"naive": 0, "naive_dst_season": 0, "naive_std_season": 0, "gap_or_fold": 0, "aware": 0,
                                           "platform_reference": 0})
        with use_env(env):
            platform_bad = None
            for d in env_datetimes(env, rng, 40 if quick else 1500) + aware_pool:
                naive = d.tzinfo is None
                want = trunc_ms(expected_aware(d))
                if naive and env.own_rule_applies(d):
                    # the platform's local time must follow the same rule (else the harness's reading of TZ is not the environment's)
                    plat = d.astimezone()
                    if dt_fields(plat) != dt_fields(expected_aware(d)) and platform_bad is None:
                        platform_bad = f"{d.isoformat()} fold={d.fold}: platform {plat.isoformat()}, rule {expected_aware(d).isoformat()}"
                    off = want.utcoffset()
                    st["naive_dst_season" if env.dst is not None and off == dtm.timedelta(minutes=env.dst) else "naive_std_season"] += 1
                    if want.replace(tzinfo=None) != trunc_ms(d.replace(fold=0)) or env.localize(d.replace(fold=1 - d.fold)) != env.localize(d):
                        st["gap_or_fold"] += 1
                elif naive:
                    st["platform_reference"] += 1
                st["naive" if naive else "aware"] += 1
                # -- codec
                try:
                    txt = P_dt._to_xml(d)
                    back = P_dt._from_xml(txt)
                except Exception as e:  # noqa: BLE001
                    txt, back = f"<{type(e).__name__}: {e}>", None
                chk.note_case(("dt-env", env.tz, d.isoformat(), d.fold))
                rep = {"kind": "datetime", "TZ": env.tz, "value": d.isoformat(), "fold": d.fold, "naive": naive, "text": txt,
                       "expected": want.isoformat(), "read_back": back.isoformat() if back is not None else None}
                season = ("dst" if env.dst is not None and want.utcoffset() == dtm.timedelta(minutes=env.dst) else "std") if naive else "any"
                vk = f"datetime:{'naive' if naive else 'aware'}:TZ={env.tz}:{season}-season"     # one finding per class; first failing input in the replay
                if (back is None or dt_fields(back) != dt_fields(want)
                        or (whole_minute(want) and re.fullmatch(r"\d{4}-\d\d-\d\dT\d\d:\d\d:\d\d\.\d{3}[+-]\d{4}", txt) is None)):
                    chk.violation(vk, f"TZ={env.tz}: DatetimePOD writes {d!r} as {txt!r}, which reads back "
                                  f"{back.isoformat() if back is not None else None}; expected {want.isoformat()}", rep)
                    continue
                # -- through a descriptor (cycling through all datetime descriptors), attribute absent / present before
                if dt_rows and (naive or ri % 3 == 0):
                    key, name, kind, attr = dt_rows[ri % len(dt_rows)][:4]
                    cls = resolve(key)
                    el = etree.Element("e")
                    if ri % 2:
                        el.set(attr, "2001-02-03T04:05:06.007+0100")
                    obj = make(cls, el)
                    try:
                        setattr(obj, name, d)
                        rb = getattr(obj, name)
                    except Exception as e:  # noqa: BLE001
                        rb = err_of(e)
                    if not isinstance(rb, dtm.datetime) or rb.tzinfo is None or dt_fields(rb) != dt_fields(want) or el.get(attr) != txt:
                        chk.violation(vk, f"TZ={env.tz}: {key.rsplit('.', 1)[1]}.{name} = {d!r} stores "
                                      f"{el.get(attr)!r} and reads back {rb!r}; expected {want.isoformat()}", dict(rep, cls=key, attribute=name))
                ri += 1
            if platform_bad is not None:
                chk.broken.append(f"assumption: under TZ={env.tz} the platform's local time differs from the harness's reading of the rule: {platform_bad}")
    if _os.environ.get("TZ") != "UTC" or _time.tzname[0] != "UTC":
        chk.broken.append("harness: TZ was not restored to UTC after the environment stream")
    chk.coverage["datetime_environments"] = env_stats
    cnt("datetime_env_cases", sum(v["naive"] + v["aware"] for v in env_stats.values()))

    # =================================================================== 2c. extremes: one value above 10,000,000 bytes
    # (libxml2's default limit for a single text run; implementation oracle only, far too long for the Coq side)
    huge_n = 10_000_000 + rng.randrange(1, 600_000)
    for kindname in ("StringPOD", "HTMLStringPOD"):
        cand_rows = [r for r in rows if r[2] == kindname and r[4] and r[7] and r[3] != "id"]
        for r in rng.sample(cand_rows, min(2, len(cand_rows))):
            alpha = rng.choice(["x", "ab c", "é\U0001f600 y"])
            v = (alpha * (huge_n // len(alpha) + 1))[:huge_n]          # no markup-significant character: HTML repair has nothing to do
            cls = resolve(r[0])
            el = etree.Element("e")
            obj = make(cls, el)
            try:
                setattr(obj, r[1], v)
                rb = str(getattr(obj, r[1]))
            except Exception as e:  # noqa: BLE001
                rb = err_of(e)
            chk.note_case(("huge", r[0], r[1], huge_n))
            cnt("values_over_10MB")
            if rb != v:
                chk.violation(f"{kindname}:over-10MB", f"{r[0].rsplit('.', 1)[1]}.{r[1]} = <{huge_n} characters of {alpha!r}> stores "
                              f"{len(el.get(r[3]) or '')} characters and reads back {rb if isinstance(rb, Err) else len(rb)} characters",
                              {"class": r[0], "attribute": r[1], "characters": huge_n, "alphabet": alpha})

    # =================================================================== 3. linked text
    constraints = list(model.search("Constraint"))
    live = [o for o in model.search("LogicalFunction", "LogicalComponent")][:6]
    texts = ["", "plain", "a < b & \"c\" 'd' > e", " lead and trail ", "é\U0001f600", "x" * 2000]
    lt_docs = []      # (lead, [(id, live?, tail)])
    for _ in range(25 if quick else 400):
        lead = rng.choice(texts)
        links = []
        for _ in range(rng.randint(0, 3)):
            if rng.random() < 0.75 and live:
                o = rng.choice(live)
                links.append((o.uuid, True, rng.choice(texts)))
            else:
                links.append(("dead-" + str(rng.randint(0, 99)), False, rng.choice(texts)))
        lt_docs.append((lead, links))
    lt_docs += [("line1\r\nline2", []), ("", [(live[0].uuid, True, " after")]),
                ("before ", [(live[0].uuid, True, ""), (live[1].uuid, True, " end")])]

    def name_html(uuid, loader=None):
        el_ = (loader or model._loader)[uuid]
        n = el_.get("name")
        return _html.escape(n) if n else f"&lt;unnamed element {_html.escape(uuid)}&gt;"

    def user_form(lead, links, *, as_read: bool, loader=None):
        s = _html.escape(lead)
        for uid, alive, tail in links:
            if alive or not as_read:
                s += f'<a href="hlink://{_html.escape(uid)}">{name_html(uid, loader) if alive else "gone"}</a>'
            else:
                s += f"&lt;deleted element {_html.escape(uid)}&gt;"
            s += _html.escape(tail)
        return s

    def stored_form(lead, links):
        return _html.escape(lead) + "".join(f'<a href="{_html.escape(u)}"/>' + _html.escape(t) for u, _, t in links)

    ltc = []
    target = constraints[0] if constraints else None
    for lead, links in lt_docs:
        u = user_form(lead, links, as_read=False)
        frs = lxml.html.fragments_fromstring(u)
        lead_p = frs[0] if frs and isinstance(frs[0], str) else ""
        nodes = []
        for f in (frs[1:] if frs and isinstance(frs[0], str) else frs):
            if f.tag == "a":
                nodes.append([f.get("href"), f.text or "", len(f), f.tail or ""])
            else:
                nodes.append([f.tail or ""])
        try:
            got = str(helpers.escape_linked_text(model._loader, u))
        except Exception as e:  # noqa: BLE001
            got = err_of(e)
        ltc.append(([True, lead_p, nodes], got))
        chk.note_case(("lt", u))
        want = stored_form(lead, links)
        if got != want:
            key_ = "linkedtext:cr" if "\r" in u else "linkedtext:tail" if any(t for _, _, t in links) else "linkedtext:escape"
            chk.violation(key_, f"escape_linked_text({u!r:.120}) = {got!r:.120}, expected {want!r:.120}", {"kind": "linkedtext", "value": u})
        # reading the stored form back (live links by name, dead links rendered as text)
        back = str(helpers.unescape_linked_text(model._loader, want))
        if back != user_form(lead, links, as_read=True):
            chk.violation("linkedtext:cr" if "\r" in want else "linkedtext:unescape", f"unescape_linked_text({want!r:.120}) = {back!r:.120}", {"kind": "linkedtext", "stored": want})
        # through the specification mapping of a live constraint
        if target is not None:
            spec = target.specification
            old_body = spec._body_at("capella:linkedText", 0).text
            spec["LinkedText"] = u
            rb = str(spec["LinkedText"])
            body = spec._body_at("capella:linkedText", 0).text or ""
            spec._body_at("capella:linkedText", 0).text = old_body
            if rb != user_form(lead, links, as_read=True) or body != want:
                key_ = "linkedtext:cr" if "\r" in u else "linkedtext:tail" if any(t for _, _, t in links) else "linkedtext:spec"
                chk.violation(key_, f"specification['LinkedText'] = {u!r:.120} stores {body!r:.120} and reads back {rb!r:.120}",
                              {"kind": "linkedtext", "value": u, "stored": body, "read_back": rb})
    for bad in ["<b>bold</b>", "<a href=\"hlink://x\"><i>n</i></a>", "t<a>no href</a>u", "<a href=\"http://e\">ext</a> z"]:
        frs = lxml.html.fragments_fromstring(bad)
        lead_p = frs[0] if frs and isinstance(frs[0], str) else ""
        nodes = []
        for f in (frs[1:] if frs and isinstance(frs[0], str) else frs):
            nodes.append([f.get("href"), f.text or "", len(f), f.tail or ""] if f.tag == "a" else [f.tail or ""])
        try:
            got = str(helpers.escape_linked_text(model._loader, bad))
        except Exception as e:  # noqa: BLE001
            got = err_of(e)
        ltc.append(([True, lead_p, nodes], got))
    chk.correspond(IMPORTS, "w_lt_escape", ltc, tag="C07_lt")
    cnt("linked_texts", len(lt_docs))

    # =================================================================== 3b. the specification as a MAP language -> text
    # obj.specification is a mutable mapping; the XML holds two parallel lists (<bodies>, <languages>) paired by position.  Reference: a
    # plain Python dict.  Histories of set-existing / set-new-language / delete / re-set / lookups of absent languages over specifications
    # that start with zero, one and several languages (Capella's grouped layout B..B L..L and the interleaved one B L B L); after EVERY
    # step every language reads back its own text through the mapping in hand and through a freshly fetched one, the others are
    # unchanged, and a raw scan of the element pairs the i-th <languages> with the i-th <bodies> holding the stored form.
    XSI_T = "{http://www.w3.org/2001/XMLSchema-instance}type"
    LANG_POOL = ["Python", "OCL", "C++ (x<y)", "é lang", "capella:linkedText2", "Java ", "a&b", "LinkedText2", "python"]
    PLAIN_TEXTS = ["x", "self.level >= 0.8", "a < b & \"c\" > d", "", "line1\nline2", " lead", "trail ", "é\U0001f600", "<b>not markup here</b>", "&amp;",
                   "]]>", "\t", "x" * 700, "<a href=\"hlink://nope\">dead</a>"]
    spec_stats = {"histories": 0, "steps": 0, "by_op": {}, "by_initial_languages": {"zero": 0, "one": 0, "several": 0}, "layouts": {},
                  "set_new_on_nonempty": 0, "max_languages": 0, "markup_typed_values": 0, "live_histories": 0, "reloaded_specifications": 0}
    con_cls = type(constraints[0]) if constraints else None

    def spec_val(r_, lang, live_ids):
        """a value for one language: (kind, payload)"""
        if lang == "capella:linkedText":
            links = [(r_.choice(live_ids), True, r_.choice(["", " tail", " a < b", " é"])) for _ in range(r_.choice([0, 0, 1, 2]))] if live_ids else []
            return ("lt", r_.choice(["", "plain ", "x < 3 & y ", "é "]) + str(r_.randrange(1000)), links)
        t_ = r_.choice(PLAIN_TEXTS) if r_.random() < 0.6 else rand_legal_str(r_, r_.randint(1, 25)).replace("\r", "")
        return ("plain", t_ + ("" if t_ in ("", "\t") else str(r_.randrange(1000))))

    def sv_write(val, loader=None):
        return val[1] if val[0] == "plain" else user_form(val[1], val[2], as_read=False, loader=loader)

    def sv_read(val, loader=None):
        return val[1] if val[0] == "plain" else user_form(val[1], val[2], as_read=True, loader=loader)

    def sv_raw(val):
        return val[1] if val[0] == "plain" else stored_form(val[1], val[2])

    def build_spec(r_, n, layout, live_ids):
        """an <ownedConstraints> element with an opaque expression of n languages, written the raw way"""
        c_el = etree.Element("ownedConstraints")
        c_el.set(XSI_T, "org.polarsys.capella.core.data.capellacore:Constraint")
        c_el.set("id", "c07-spec-%08x" % r_.getrandbits(32))
        sp_el = etree.SubElement(c_el, "ownedSpecification")
        sp_el.set(XSI_T, "org.polarsys.capella.core.data.information.datavalue:OpaqueExpression")
        sp_el.set("id", "c07-oe-%08x" % r_.getrandbits(32))
        exp = fill_spec(r_, sp_el, n, layout, live_ids)
        return c_el, sp_el, exp

    def fill_spec(r_, sp_el, n, layout, live_ids):
        for ch in list(sp_el):
            sp_el.remove(ch)
        langs = (["capella:linkedText"] if n and r_.random() < 0.8 else []) + r_.sample(LANG_POOL, len(LANG_POOL))
        langs = langs[:n]
        r_.shuffle(langs)
        exp = {k: spec_val(r_, k, live_ids) for k in langs}
        bodies, lelems = [], []
        for k in langs:
            b_ = etree.Element("bodies")
            b_.text = sv_raw(exp[k]) or None
            l_ = etree.Element("languages")
            l_.text = k
            bodies.append(b_)
            lelems.append(l_)
        seq = bodies + lelems if layout == "grouped" else [x for pair in zip(bodies, lelems) for x in pair]
        for x in seq:
            sp_el.append(x)
        return exp

    def spec_verify(get_spec, in_hand, sp_el, exp, loader=None):
        """problems of the mapping against the reference dict"""
        out_ = []
        for label, sp in (("in hand", in_hand), ("fresh", get_spec())):
            try:
                got_l = list(sp)
                if got_l != list(exp) or len(sp) != len(exp):
                    out_.append(f"{label}: languages {got_l!r} (len {len(sp)}), expected {list(exp)!r}")
                    continue
                for k, val in exp.items():
                    g = str(sp[k])
                    if g != sv_read(val, loader):
                        out_.append(f"{label}: language {k!r} reads {g!r:.80}, its own text is {sv_read(val, loader)!r:.80}"
                                    + "".join(f" [that is the text of {k2!r}]" for k2, v2 in exp.items() if k2 != k and g == sv_read(v2, loader)))
                    if k == "capella:linkedText" and str(sp["LinkedText"]) != g:
                        out_.append(f"{label}: alias 'LinkedText' reads {str(sp['LinkedText'])!r:.60}, 'capella:linkedText' reads {g!r:.60}")
                for absent in ("No Such Language", "LinkedText" if "capella:linkedText" not in exp else "PYTHON"):
                    if absent in exp:
                        continue
                    try:
                        sp[absent]
                        out_.append(f"{label}: absent language {absent!r} can be read")
                    except KeyError:
                        pass
            except Exception as e:  # noqa: BLE001
                out_.append(f"{label}: {type(e).__name__}: {e}")
        kids = [ch for ch in sp_el if isinstance(ch.tag, str)]
        raw_l = [ch.text or "" for ch in kids if ch.tag == "languages"]
        raw_b = [ch.text or "" for ch in kids if ch.tag == "bodies"]
        if raw_l != list(exp) or raw_b != [sv_raw(v_) for v_ in exp.values()] or len(kids) != 2 * len(exp):
            out_.append(f"XML: languages {raw_l!r:.120} / bodies {raw_b!r:.160}, expected {[(k, sv_raw(v_)[:40]) for k, v_ in exp.items()]!r:.200}")
        return out_

    def spec_history(r_, get_spec, sp_el, exp, n_steps, live_ids, where, loader=None):
        """runs one history; returns the log.  Violations are reported with the step that broke the map"""
        n0 = len(exp)
        bucket = "zero" if n0 == 0 else "one" if n0 == 1 else "several"
        sp = get_spec()
        log_ = [("initial", list(exp))]
        bad = spec_verify(get_spec, sp, sp_el, exp, loader)
        if bad:
            chk.broken.append(f"harness: the specification map does not read its initial state ({where}, {n0} languages): {bad[0][:200]}")
            return False
        for step in range(n_steps):
            nb = len(exp)
            k = None
            ops = ["set-new", "set-new"] + (["set-existing", "set-existing", "delete", "re-set", "del-absent"] if exp else ["del-absent"])
            op = r_.choice(ops)
            try:
                if op == "set-existing":
                    k = r_.choice(list(exp))
                    val = spec_val(r_, k, live_ids)
                    sp["LinkedText" if k == "capella:linkedText" and r_.random() < 0.5 else k] = sv_write(val, loader)
                    exp[k] = val
                elif op == "set-new":
                    free = [x for x in LANG_POOL + ["capella:linkedText"] if x not in exp]
                    if not free:
                        continue
                    k = r_.choice(free)
                    val = spec_val(r_, k, live_ids)
                    w_ = sv_write(val, loader)
                    if val[0] == "plain" and r_.random() < 0.2:
                        w_ = markupsafe.Markup(w_)              # the other str type callers hold
                        spec_stats["markup_typed_values"] += 1
                    sp["LinkedText" if k == "capella:linkedText" and r_.random() < 0.5 else k] = w_
                    exp[k] = val
                    spec_stats["set_new_on_nonempty"] += nb > 0
                elif op == "delete":
                    k = r_.choice(list(exp))
                    del sp["LinkedText" if k == "capella:linkedText" and r_.random() < 0.5 else k]
                    del exp[k]
                elif op == "re-set":
                    k = r_.choice(list(exp))
                    val = spec_val(r_, k, live_ids)
                    del sp[k]
                    del exp[k]
                    sp[k] = sv_write(val, loader)
                    exp[k] = val
                else:
                    k = "No Such Language"
                    try:
                        del sp[k]
                        raise AssertionError("deleting an absent language did not raise KeyError")
                    except KeyError:
                        pass
                err_ = None
            except Exception as e:  # noqa: BLE001
                err_ = f"{type(e).__name__}: {e}"
            log_.append((op, k))
            spec_stats["steps"] += 1
            spec_stats["by_op"][op] = spec_stats["by_op"].get(op, 0) + 1
            spec_stats["max_languages"] = max(spec_stats["max_languages"], len(exp))
            chk.note_case(("specmap", where, op, nb, step, r_.getrandbits(20)), nontrivial=True)
            bad = [err_] if err_ else spec_verify(get_spec, sp if r_.random() < 0.8 else get_spec(), sp_el, exp, loader)
            if bad:
                nbk = "zero" if nb == 0 else "one" if nb == 1 else "several"
                chk.violation(f"specmap:{op}:{nbk}-languages-before", f"specification map ({where}; started with {n0} languages; steps {log_[1:]!r:.300}): after "
                              f"{op} of {k!r} on a specification with {nb} language(s): {bad[0][:300]}",
                              {"where": where, "initial_languages": log_[0][1], "steps": [list(x) for x in log_[1:]], "problems": bad[:6],
                               "expected": [(k_, sv_read(v_, loader)[:80]) for k_, v_ in exp.items()]})
                return False
        spec_stats["histories"] += 1
        spec_stats["by_initial_languages"][bucket] += 1
        return True

    if con_cls is not None:
        import random as _random
        live_ids = [o.uuid for o in live]
        for hi in range(150 if quick else 3000):
            r_ = _random.Random(rng.getrandbits(48))
            n0 = [0, 1, 1, 2, 3, 5][hi % 6]
            layout = "grouped" if hi % 2 == 0 else "interleaved"
            spec_stats["layouts"][layout] = spec_stats["layouts"].get(layout, 0) + 1
            c_el, sp_el, exp = build_spec(r_, n0, layout, live_ids)
            obj = make(con_cls, c_el)
            spec_history(r_, lambda obj=obj: obj.specification, sp_el, exp, r_.randrange(2, 9), live_ids, f"fresh element, {layout} layout")

    # =================================================================== 4. live objects, save and reload
    # the assignments and save() run under a zone with DST, the reload under another environment (what was written carries its offset)
    import contextlib
    env4 = rng.choice([e for e in ENVS if e.dst is not None])
    env4_reload = rng.choice([e for e in ENVS if e is not env4])
    naive4 = [d for d in env_datetimes(env4, rng, 20) if 1971 <= d.year <= 9998] + naive_datetimes()
    chk.coverage["live_environment"] = {"assign_and_save": env4.tz, "reload": env4_reload.tz}
    with lib.scratch("c07-") as tmp, contextlib.ExitStack() as envs:
        envs.enter_context(use_env(env4))
        mdir = tmp / "m"
        shutil.copytree(lib.REPO / "tests/data/melodymodel/5_2", mdir)
        m1 = capellambse.MelodyModel(str(mdir / "Melody Model Test.aird"))
        rows_by_cls: dict[str, list] = {}
        for r in rows:
            rows_by_cls.setdefault(r[0], []).append(r)
        # freshly created elements with the rare kinds (float / int / datetime)
        created = 0
        try:
            comps = list(m1.search("LogicalComponent"))[:3]
            for ci, comp in enumerate(comps):
                comp.property_values.create("FloatPropertyValue", name=f"c07f{ci}", value=rng.choice([1.5, math.inf, 5e-324]))
                comp.property_values.create("IntegerPropertyValue", name=f"c07i{ci}", value=rng.choice([-3, 10**30, 2**63]))
                created += 2
            for req in list(m1.search("Requirement"))[:3]:
                req.attributes.create("date", value=rng.choice(dts))
                req.attributes.create("date", value=dtm.datetime(rng.randint(1971, 2100), 1, rng.randint(1, 28), rng.randint(4, 22), 5, 6, 7000))
                req.attributes.create("date", value=dtm.datetime(rng.randint(1971, 2100), 7, rng.randint(1, 28), rng.randint(4, 22), 5, 6, 7000))
                created += 2
                req.attributes.create("real", value=rng.choice([2.5, math.inf]))
                req.attributes.create("integer", value=-(10**25))
                created += 3
        except Exception as e:  # noqa: BLE001
            chk.violation(f"create:{type(e).__name__}", f"creating property values / requirement attributes with typed values failed: {e!r}",
                          {"phase": "create"})
        cnt("created_elements", created)
        objs = [o for o in m1.search() if o._element.get("id")]
        rng.shuffle(objs)

        def rarity(o):
            key_ = type(o).__module__ + "." + type(o).__qualname__
            ks = {r[2] for r in rows_by_cls.get(key_, [])}
            return 0 if ks & {"FloatPOD", "DatetimePOD", "IntPOD"} else 1
        objs.sort(key=rarity)
        budget = 400 if quick else 6000
        per_kind_vals = {
            0: lambda: rng.choice(["x", "<&>\"'", "\t\n\r x  ", "a\nb\r\nc", "é\u4e2d\U0001f600", "\x85\x7f", "", "&#xA;", "  two  spaces ",
                                   rand_legal_str(rng, 25), "L" * 3000]),
            1: lambda: rng.choice([str, str, markupsafe.Markup, markupsafe.Markup, StrSub])(rng.choice(HTML_VALUES + [""])),
            2: lambda: rng.choice([True, False]),
            3: lambda: rng.choice([0, 1, -1, 2**63, -10**30, rng.choice(ints), True, IntSub.NEG, IntSub.BIG]),
            4: lambda: rng.choice([0.0, -0.0, 1.5, 5e-324, 1.7976931348623157e308, 0.1, math.inf, rand_float(rng), 7, -3, 2**53 + 1, IntSub.SEVEN]),
            5: lambda: rng.choice(naive4) if rng.random() < 0.5 else rng.choice(dts),
        }
        _pk0 = per_kind_vals[0]
        per_kind_vals[0] = lambda: (lambda s_: rng.choice([str, str, str, markupsafe.Markup, StrSub])(s_))(_pk0())
        plan = []      # (uuid, attr name, xml attr, kind code, value, expected read-back, expected xml text)
        used = set()
        kinds_done: dict[int, int] = {}
        for o in objs:
            key = type(o).__module__ + "." + type(o).__qualname__
            rs_ = [r for r in rows_by_cls.get(key, []) if r[4] and r[3] not in ("id",)]
            if not rs_:
                continue
            # prefer rarer kinds
            rs_.sort(key=lambda r: kinds_done.get(KINDS.get(r[2], 9), 0))
            for r in rs_[: (2 if quick else 4)]:
                kc = KINDS.get(r[2], 9)
                if kc in (7, 9) or (o.uuid, r[3]) in used:
                    continue
                desc = getattr(type(o), r[1])
                if kc == 6:
                    m_ = rng.choice(list(desc.enumcls.__members__.values()))
                    v = rng.choice([m_, m_.name])
                else:
                    v = per_kind_vals[kc]()
                try:
                    setattr(o, r[1], v)
                    rb = getattr(o, r[1])
                except Exception as e:  # noqa: BLE001
                    chk.violation(f"live:{value_key(v)}:{r[2]}", f"live {key}.{r[1]} = {srepr(v):.60} raised {err_of(e)}",
                                  {"class": key, "attribute": r[1], "value": repr(v)[:200], "uuid": o.uuid})
                    continue
                if not (v is None or is_default(kc, v, desc)) and not same_value(kc, rb, v, desc):
                    chk.violation(f"{value_key(v)}:readback", f"live {key}.{r[1]} = {srepr(v):.60} reads back {rb!r:.60}",
                                  {"class": key, "attribute": r[1], "value": repr(v)[:200], "uuid": o.uuid})
                if kc == 1 and o._element.get(r[3]) is not None and (not xml_well_formed(o._element.get(r[3])) or str(rb) != o._element.get(r[3])):
                    chk.violation(f"html:{value_key(v)}", f"live {key}.{r[1]} = {srepr(v):.60} ({type(v).__name__}) stores {o._element.get(r[3])!r:.80} "
                                  f"(well-formed={xml_well_formed(o._element.get(r[3]))}) and reads back {str(rb)!r:.60}",
                                  {"class": key, "attribute": r[1], "value": repr(v)[:200], "type": type(v).__name__, "uuid": o.uuid})
                used.add((o.uuid, r[3]))
                kinds_done[kc] = kinds_done.get(kc, 0) + 1
                if type(v) in (markupsafe.Markup, StrSub, IntSub, DtSub) or (kc in (3, 4) and type(v) in (bool, int) and kc == 4) or (kc == 3 and type(v) is bool):
                    cnt("live_alt_type_values:" + type(v).__name__)
                plan.append((o.uuid, r[1], r[3], kc, v, rb, o._element.get(r[3])))
                chk.note_case(("live", o.uuid, r[1]))
            if len(plan) >= budget:
                break
        # linked text on live constraints
        lt_plan = []
        for c_, (lead, links) in zip(list(m1.search("Constraint"))[:6], lt_docs[-6:]):
            links = [(u, a, t) for u, a, t in links if a]
            u_ = user_form(lead, links, as_read=False)
            try:
                c_.specification["LinkedText"] = u_
                lt_plan.append((c_.uuid, str(c_.specification["LinkedText"])))
            except Exception:  # noqa: BLE001
                pass
        # specification maps of live constraints (zero / one / several languages written the raw way, then a history through the API);
        # every language is read again after save + reload, through the reloaded mapping and by a raw scan of the saved file
        spec_live = []
        if con_cls is not None:
            import random as _random
            live_ids4 = []
            for o in live:
                with contextlib.suppress(KeyError):
                    m1._loader[o.uuid]
                    live_ids4.append(o.uuid)
            cons4 = [c_ for c_ in m1.search("Constraint") if next(c_._element.iterchildren("ownedSpecification"), None) is not None][6:]
            for ci, c_ in enumerate(cons4[: (14 if quick else 28)]):
                r_ = _random.Random(rng.getrandbits(48))
                sp_el = next(c_._element.iterchildren("ownedSpecification"))
                layout = "grouped" if ci % 2 == 0 else "interleaved"
                exp = fill_spec(r_, sp_el, [1, 0, 2, 1, 3, 1][ci % 6], layout, live_ids4)
                if spec_history(r_, lambda c_=c_: c_.specification, sp_el, exp, r_.randrange(2, 7), live_ids4, f"live model, {layout} layout", loader=m1._loader):
                    spec_live.append((c_.uuid, exp))
                    spec_stats["live_histories"] += 1
        m1.save()
        envs.close()
        envs.enter_context(use_env(env4_reload))
        m2 = capellambse.MelodyModel(str(mdir / "Melody Model Test.aird"))
        # raw view of what was written, with a plain parser
        raw: dict[str, etree._Element] = {}
        for f in [p_ for p_ in mdir.iterdir() if p_.suffix in (".capella", ".capellafragment")]:
            for el in etree.parse(str(f)).iter():
                i = el.get("id")
                if i:
                    raw[i] = el
        for uuid, name, attr, kc, v, rb, xml_text in plan:
            if uuid not in raw:
                cnt("reload_skipped_not_in_semantic_file")
                continue
            o2 = m2.by_uuid(uuid)
            desc = getattr(type(o2), name)
            try:
                rb2 = getattr(o2, name)
                ok = same_value(kc, rb2, rb, desc, exact=True)
            except Exception as e:  # noqa: BLE001
                rb2, ok = err_of(e), False
            rawtxt = raw[uuid].get(attr) if uuid in raw else "<<element missing>>"
            chk.note_case(("reload", uuid, name))
            cnt("reload_checks")
            if not ok or rawtxt != xml_text:
                chk.violation(f"reload:{value_key(v)}:{KIND_NAMES[kc]}",
                              f"{type(o2).__name__}.{name} = {srepr(v):.60}: before save {rb!r:.60} (XML {xml_text!r:.60}), after reload {rb2!r:.60} (file {rawtxt!r:.60})",
                              {"uuid": uuid, "attribute": name, "value": repr(v)[:200], "before": repr(rb)[:200], "after": repr(rb2)[:200],
                               "xml_before": xml_text, "xml_after": rawtxt})
        for uuid, exp in spec_live:
            sp_raw = next((ch for ch in raw[uuid] if ch.tag == "ownedSpecification"), None) if uuid in raw else None
            try:
                bad = (spec_verify(lambda: m2.by_uuid(uuid).specification, m2.by_uuid(uuid).specification, sp_raw, exp, loader=m2._loader)
                       if sp_raw is not None else ["the constraint / its specification is not in the saved file"])
            except Exception as e:  # noqa: BLE001
                bad = [f"{type(e).__name__}: {e}"]
            spec_stats["reloaded_specifications"] += 1
            if bad:
                chk.violation("specmap:reload", f"specification of {uuid} after save + reload: {bad[0][:300]}",
                              {"uuid": uuid, "problems": bad[:6], "expected": [(k_, sv_read(v_, m2._loader)[:80]) for k_, v_ in exp.items()]})
        chk.coverage["specification_maps"] = spec_stats
        for uuid, txt in lt_plan:
            back = str(m2.by_uuid(uuid).specification["LinkedText"])
            if back != txt:
                chk.violation("reload:linkedtext", f"LinkedText of {uuid}: before save {txt!r:.100}, after reload {back!r:.100}", {"uuid": uuid})
        cnt("live_assignments", len(plan))
        chk.coverage["live_kinds"] = {KIND_NAMES[k]: n for k, n in sorted(kinds_done.items())}

    chk.coverage["counts"] = counts
    chk.coverage["table_rows"] = {"all": len(rows), "registered": sum(1 for r in rows if r[7]), "checked_this_run": desc_cnt,
                                  "registered_classes": data["nclasses"], "enum_tables": len(enum_cls)}
    chk.coverage["rule"] = ("every POD kind x value classes (boundary + seeded random) on fresh elements with the attribute present/absent and "
                            "neighbouring attributes; quick: all Bool/Int/Float/Datetime/Enum/PVMT descriptors + 150 sampled String/HTML "
                            "descriptors, thorough: all rows of the table; every enum member by object and name; live objects of the 5_2 model "
                            "assigned, saved to a scratch copy, reloaded and compared with a raw lxml parse of the files. Environment "
                            "stream: the datetime codec and every DatetimePOD descriptor under %d TZ settings (UTC, fixed offsets east/west, "
                            "DST zones on both hemispheres, a 30-minute DST; os.environ['TZ'] + time.tzset(), restored afterwards) x naive "
                            "datetimes in both seasons, at the switch instants (gap/fold, both folds, +-1us/1ms/1s), years 2..9998, and aware "
                            "datetimes with fixed offsets and with DST zones (coverage.datetime_environments); the live save/reload part "
                            "assigns and saves under a DST zone and reloads under another environment (coverage.live_environment). Alternative "
                            "Python types of the same value (coverage.counts alt_type_twins:*, live_alt_type_values:*): str / markupsafe.Markup / "
                            "str subclass for String and HTML attributes (well-formed and ill-formed markup alike), int / bool / IntEnum for "
                            "Int, float / int / bool / IntEnum for Float, naive / aware / datetime subclass / same instant in another offset for "
                            "Datetime, member / name / str-subclass name for Enum, SelectorRules / str for PVMT: the XML must not depend on the "
                            "type (twin element given the canonical type), and the value read back must equal the harness's own reading of "
                            "the attribute text after the real writer + lxml parser (xml_reader_checks). Specification maps "
                            "(coverage.specification_maps): obj.specification against a plain dict over histories of set-existing / "
                            "set-new-language / delete / re-set / absent lookups on specifications starting with 0, 1 and several languages "
                            "(grouped and interleaved layouts, alias LinkedText, linked text with live links, Markup-typed texts), checked "
                            "after every step through the mapping in hand, a fresh one and a raw scan of the element; live constraints "
                            "again after save + reload" % len(ENVS))
    chk.coverage["exhaustive"] = not quick
    chk.assumptions += [
        "CPython float repr round trip, float('*') failing, html.escape: Section hypotheses / stand-ins, sampled each run",
        "lxml: attribute text check (Model/Pods.v cp_ok), attribute order on assignment, HTML repair (idempotence sampled only), "
        "fragments_fromstring (linked text parsed by the harness)",
        "XML attribute-value reader stand-in (attr_read) compared with lxml's parser each run",
        "datetime.fromisoformat modelled for the one layout _to_xml writes; offsets that are not whole minutes checked on the implementation "
        "only; naive datetimes: the Coq codec is parametric in the localisation function (datetime_naive_roundtrip holds for any), the "
        "correspondence instantiates it with UTC, the other environments are checked on the implementation against the harness's own "
        "evaluation of the POSIX TZ rule (cross-checked with the platform's astimezone() each run)",
        "glibc evaluates the M-rules of a POSIX TZ string as of 1970 for earlier years (no DST before 1970 on the northern hemisphere): for "
        "naive datetimes before 1971 the reference is the platform's local time (stdlib astimezone), not the harness's rule",
        "CPython's 4300-digit int<->str limit is outside the model (assignment then raises ValueError and changes nothing: checked)",
    ]


# ------------------------------------------------------------------ helpers shared by the phases
class _Skip:
    def __repr__(self):
        return "SKIP"


SKIP = _Skip()
KIND_NAMES = {v: k for k, v in KINDS.items()}


def srepr(v) -> str:
    try:
        return repr(v)[:200]
    except ValueError:
        return f"<int with {v.bit_length()} bits>"


def value_key(v, kc: int = -1) -> str:
    if type(v) in (markupsafe.Markup, StrSub, IntSub, DtSub):
        base = str(v) if isinstance(v, str) else int(v) if isinstance(v, int) else dtm.datetime(2000, 1, 1, tzinfo=v.tzinfo)
        return type(v).__name__ + "~" + value_key(base, kc)
    if v is None:
        return "none"
    if isinstance(v, bool):
        return "int:bool" if kc == 3 else f"bool:{v}"
    if isinstance(v, int):
        return "int:bool" if isinstance(v, bool) else ("int:huge" if abs(v) >= 10**4300 else "int:neg" if v < 0 else "int")
    if isinstance(v, float):
        return "float:nan" if math.isnan(v) else "float:+inf" if v == math.inf else "float:-inf" if v == -math.inf else "float:finite"
    if isinstance(v, dtm.datetime):
        return "datetime:naive" if v.tzinfo is None else "datetime:aware"
    if isinstance(v, str):
        if any(c in v for c in ILLEGAL) or any(ord(c) < 32 and c not in "\t\n\r" for c in v):
            return "str:illegal"
        return "str:ws" if any(c in v for c in "\t\n\r") else "str:markup" if any(c in v for c in "<>&\"'") else "str"
    return type(v).__name__


def is_default(kc: int, v, desc) -> bool:
    """harness's own notion of 'the default value was assigned'"""
    d = desc.default
    if kc in (0, 1):
        return isinstance(v, str) and str(v) == str(d)
    if kc == 2:
        return v is d
    if kc == 3:
        return isinstance(v, int) and v == d          # False == 0: the default (bool is an int)
    if kc == 4:
        return isinstance(v, (int, float)) and not isinstance(v, bool) and not math.isnan(v) and float(v) == d
    if kc == 5:
        return False
    if kc == 6:
        return v is d or (isinstance(v, str) and v == d.name)
    if kc == 7:
        return hasattr(v, "raw") and v.raw == d.raw
    return False


def same_value(kc: int, rb, v, desc, exact: bool = False) -> bool:
    """is the value read back equal to the value assigned (by the statement's notion of equal)?"""
    if v is None:
        return rb is None
    if kc == 0:
        return isinstance(rb, str) and rb == v
    if kc == 1:
        return isinstance(rb, str) and (str(rb) == str(v) if exact else True)   # up to repair: checked separately
    if kc == 2:
        return rb is v
    if kc == 3:
        return type(rb) is int and rb == v
    if kc == 4:
        return type(rb) is float and rb == float(v)
    if kc == 5:
        if not isinstance(rb, dtm.datetime) or rb.tzinfo is None:
            return False
        want = trunc_ms(expected_aware(v))       # a naive value means local time in the environment of the assignment
        return dt_fields(rb) == dt_fields(want)
    if kc == 6:
        return rb is (desc.enumcls[v] if isinstance(v, str) else v)
    if kc == 7:
        return hasattr(rb, "raw") and rb.raw == (v.raw if hasattr(v, "raw") else v)
    return False


def enc_value(kc: int, rb, desc):
    if rb is None:
        return None
    if kc in (0, 1):
        return str(rb)
    if kc == 2:
        return bool(rb)
    if kc == 3:
        return int(rb)
    if kc == 4:
        return enc_float(rb)
    if kc == 5:
        return enc_dt(rb)
    if kc == 6:
        return list(desc.enumcls.__members__.values()).index(rb)
    return rb.raw


if __name__ == "__main__":
    lib.main("C07", run)
