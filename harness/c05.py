"""C05 — References written by the library resolve back and use Capella's link format."""
from __future__ import annotations

import collections
import itertools
import os
import pathlib
import posixpath
import re
import sys
import urllib.parse

sys.path.insert(0, str(pathlib.Path(__file__).resolve().parent))
import lib
import corpus
from lib import Err, err_of

VISUAL = {".aird", ".airdfragment"}          # independent of capellambse.loader.core.VISUAL_EXTS on purpose
XSI_TYPE = "{http://www.w3.org/2001/XMLSchema-instance}type"
XMI_TYPE = "{http://www.omg.org/XMI}type"
XMI_ID = "{http://www.omg.org/XMI}id"
LINK_RE = re.compile(r"^(?:(?:(?:([^ #]+) )?([^ #]+))?#)?([A-Za-z0-9_-]+)$")   # independent copy of the documented syntax

NAMES = ["a", "b c", "d%e", "é", "x.capella", "ü ö", "p+q", "m&n", "100%", "~t", "u,v", "(w)", "日本", "t~ilde", "a-b_c.d", "q!r", "s*t", "it's", "k;l=m", "at@x", "c:d"]


def b(s: str) -> bytes:
    return s.encode("utf-8", "surrogateescape")


def elem_id(e):
    for k in ("id", "uid", XMI_ID):
        if k in e.attrib:
            return e.attrib[k]
    return None


def oracle_expected_link(from_frag: pathlib.PurePosixPath, to_frag: pathlib.PurePosixPath, to_el, incl) -> str | None:
    """What Capella's format demands, computed without capellambse code."""
    ids = [to_el.attrib[k] for k in ("id", "uid", XMI_ID) if k in to_el.attrib]
    if not ids:
        return None
    # any of the element's ids is acceptable; return a regex-free template with the first id replaced later
    if from_frag == to_frag:
        return "#{id}"
    rel = posixpath.relpath(str(to_frag), str(from_frag.parent)) if len(from_frag.parts) > 1 else str(to_frag)
    link = urllib.parse.quote(rel)
    typed = incl if incl is not None else (from_frag.suffix not in VISUAL)
    ty = to_el.get(XSI_TYPE) or to_el.get(XMI_TYPE)
    if typed and ty:
        return f"{ty} {link}#{{id}}"
    if typed and not ty:
        return None   # type derived from the tag namespace: not recomputed by the oracle
    return f"{link}#{{id}}"


_name_cycle = [0]


def next_name(rng):
    """every awkward name is used in turn, so each occurs in some layout of every run"""
    _name_cycle[0] += 1
    return NAMES[_name_cycle[0] % len(NAMES)]


def gen_layout(rng, keys: list[pathlib.PurePosixPath]) -> dict:
    """new fragment paths for the loaded trees: depth 0-4, '..'-climb distances 0-4, awkward names; suffix kept"""
    out = {}
    used = set()
    # files of DIFFERENT resources may carry the same name at the same place (project "X.capella" using library "X.capella"):
    # the resource label is part of a fragment's identity
    gen_layout.n = getattr(gen_layout, "n", 0) + 1
    same_name = (gen_layout.n % 3 == 1 or rng.random() < 0.2) and len({k.parts[0] for k in keys}) > 1
    shared: dict = {}
    for k in keys:
        while True:
            depth = rng.randint(0, 4)
            dirs = [(next_name(rng) if rng.random() < 0.5 else rng.choice(["sub", "frag", "a"])) for _ in range(depth)]
            # a visual file may be the entry .aird or an .airdfragment, a semantic one the main file or a fragment: both suffixes of a kind
            # follow the same rules (links FROM visual files are untyped)
            suffix = k.suffix
            if rng.random() < 0.5:
                suffix = {".aird": ".airdfragment", ".capella": ".capellafragment"}.get(suffix, suffix)
            name = next_name(rng) + suffix
            if same_name:
                dirs, name = shared.setdefault(k.suffix, (dirs, name))
                if pathlib.PurePosixPath(k.parts[0], *dirs, name) in used:
                    dirs, name = dirs, next_name(rng) + suffix
            p = pathlib.PurePosixPath(k.parts[0], *dirs, name)
            if p not in used and not any(str(u).startswith(str(p) + "/") or str(p).startswith(str(u) + "/") for u in used):
                used.add(p)
                out[k] = p
                break
    return out


def run(chk: lib.Check):
    from capellambse import helpers
    pr = chk.prove()
    quick = chk.tier == "quick"
    rng = chk.rng
    imports = "From V Require Import Model.Paths Model.Links Model.LinkRe Model.Quote."

    create_cases, resolve_cases = [], []
    stats = collections.Counter()
    verbatim_total = verbatim_bad = 0
    for spec in corpus.model_specs(chk.tier):
        model = corpus.load(spec)
        loader = model._loader
        orig_trees = dict(loader.trees)
        orig_names = {k: t.filename for k, t in orig_trees.items()}
        keys = list(orig_trees)
        # ---------- (1) verbatim reproduction of every link Capella wrote
        for frag, tree in orig_trees.items():
            for e in tree.root.iter():
                if not isinstance(e.tag, str):
                    continue
                for a, v in e.attrib.items():
                    if "#" not in v or a.endswith("}schemaLocation") or a in ("repPath",):
                        continue
                    try:
                        parts = list(helpers.split_links(v))
                    except ValueError:
                        continue
                    if not all(LINK_RE.match(p) for p in parts):
                        continue
                    regen = []
                    ok = True
                    for p in parts:
                        try:
                            tgt = loader.follow_link(e, p)
                        except KeyError:
                            ok = False   # link into a file that is not loaded
                            break
                        incl = False if a == "href" else None
                        regen.append(loader.create_link(e, tgt, include_target_type=incl))
                    if not ok:
                        stats["verbatim_unresolvable"] += 1
                        continue
                    verbatim_total += 1
                    chk.note_case(("verbatim", spec["name"], str(frag), a, v), nontrivial=not v.startswith("#") or " " in v)
                    if " ".join(regen) != v:
                        # ids: an element may carry two ids (uid + xmi:id); Capella may use either
                        verbatim_bad += 1
                        chk.violation(f"verbatim:{spec['name']}:{frag.name}:{a}",
                                      f"link written by Capella is not reproduced: {v!r} vs create_link -> {' '.join(regen)!r}",
                                      {"model": spec["name"], "fragment": str(frag), "attr": a, "original": v, "regenerated": " ".join(regen)})
        # ---------- (2) pairs under the real layout and generated layouts
        by_class = collections.defaultdict(list)
        for frag, tree in orig_trees.items():
            for e in tree.root.iter():
                if isinstance(e.tag, str) and elem_id(e):
                    by_class[(frag, e.get(XSI_TYPE) or e.get(XMI_TYPE) or e.tag)].append(e)
        per = 1 if quick else 3
        sample = []
        for kcls, els in sorted(by_class.items(), key=lambda kv: (str(kv[0][0]), kv[0][1])):
            sample.extend(rng.sample(els, min(per, len(els))))
        cap = 70 if quick else 300
        if len(sample) > cap:
            sample = rng.sample(sample, cap)
        layouts = [None] + [gen_layout(rng, keys) for _ in range(4 if quick else 16)]
        for layout in layouts:
            if layout is not None:
                loader.trees = {layout[k]: t for k, t in orig_trees.items()}
                for k, t in orig_trees.items():      # a ModelFile knows its path inside its resource
                    t.filename = pathlib.PurePosixPath(*layout[k].parts[1:])
            frag_of = {}
            for k, t in loader.trees.items():
                frag_of[id(t.root)] = k
            def fragment(e):
                r = e
                while r.getparent() is not None:
                    r = r.getparent()
                return frag_of[id(r)]
            for a, bb in itertools.product(sample, sample):
                fa, fb = fragment(a), fragment(bb)
                for incl in (None,) if quick else (None, True, False):
                    try:
                        link = loader.create_link(a, bb, include_target_type=incl)
                    except Exception as ex:  # noqa: BLE001
                        chk.violation(f"create_link-raises:{type(ex).__name__}", f"create_link raised {ex!r}",
                                      {"model": spec["name"], "from": elem_id(a), "to": elem_id(bb), "layout": str(layout)})
                        continue
                    stats["pairs"] += 1
                    stats["cross" if fa != fb else "same"] += 1
                    chk.note_case((spec["name"], str(fa), str(fb), elem_id(a), elem_id(bb), incl), nontrivial=fa != fb)
                    # oracle 1: resolves back to exactly the target
                    try:
                        back = loader.follow_link(a, link)
                    except Exception as ex:  # noqa: BLE001
                        back = ex
                    if back is not bb:
                        chk.violation(("afm-target:" if fb.suffix == ".afm" else "follow(create)!=target:") + spec["name"],
                                      f"follow_link(create_link(a,b)) is not b: link={link!r} got {back!r}",
                                      {"model": spec["name"], "from": elem_id(a), "to": elem_id(bb), "link": link, "from_frag": str(fa), "to_frag": str(fb)})
                    # oracle 2: Capella's form
                    m = LINK_RE.match(link)
                    exp = oracle_expected_link(fa, fb, bb, incl)
                    ids = [bb.attrib[k] for k in ("id", "uid", XMI_ID) if k in bb.attrib]
                    if not m or (exp is not None and link not in [exp.format(id=i) for i in ids]):
                        chk.violation(f"form:{spec['name']}:{'cross' if fa != fb else 'same'}",
                                      f"link {link!r} does not have Capella's form (expected {exp!r})",
                                      {"model": spec["name"], "from_frag": str(fa), "to_frag": str(fb), "link": link, "expected": exp})
                    if m and fa != fb and m.group(2):
                        # oracle 3: the fragment part names the target fragment from the source's directory
                        resolved = posixpath.normpath(posixpath.join(str(fa.parent), urllib.parse.unquote(m.group(2))))
                        if pathlib.PurePosixPath(resolved) != fb:
                            chk.violation(f"fragment-path:{spec['name']}", f"fragment part of {link!r} resolves to {resolved!r}, not {fb}",
                                          {"from_frag": str(fa), "to_frag": str(fb), "link": link})
                    # correspondence input
                    if len(create_cases) < (2500 if quick else 20000) and m:
                        ty = helpers.xtype_of(bb)
                        uid = m.group(3)
                        create_cases.append((([b(x) for x in fa.parts], [b(x) for x in fb.parts], fa.suffix in VISUAL,
                                              incl, b(ty) if ty else None, b(uid)), b(link)))
                        resolve_cases.append((([b(x) for x in fa.parts], b(link)), [b(x) for x in fb.parts]))
        loader.trees = orig_trees
        for k, t in orig_trees.items():
            t.filename = orig_names[k]
        # ---------- (3) link lists: encode, split, resolve in order
        sem = [e for e in sample if "id" in e.attrib and fragment(e).suffix != ".afm"]
        for n in range(0, 7 if quick else 13):
            for _ in range(4 if quick else 20):
                if not sem:
                    break
                src = rng.choice(sem)
                tg = [rng.choice(sem) for _ in range(n)]
                text = " ".join(loader.create_link(src, t) for t in tg)
                try:
                    got = loader.follow_links(src, text)
                except Exception as ex:  # noqa: BLE001
                    got = ex
                stats["lists"] += 1
                chk.note_case(("list", spec["name"], text), nontrivial=n > 1)
                if not (isinstance(got, list) and len(got) == n and all(x is y for x, y in zip(got, tg))):
                    chk.violation(f"list:{spec['name']}", f"follow_links(join(create_link...)) differs for {n} links",
                                  {"model": spec["name"], "links": text, "n": n})
        del model

    # ---------- (3b) list-valued reference attributes edited through the model API, on a copy split into fragment files (paths with
    # spaces, non-ASCII names, nested folders): after every insert / append / delete / assignment the attribute text splits into links of
    # Capella's form which resolve, in order, to exactly the members
    import shutil
    import capellambse
    import fragmenter
    import graph
    from capellambse.model import _descriptors as D
    for spec_f in [s_ for s_ in corpus.model_specs(chk.tier) if "path" in s_ and "resources" not in s_][: 1 if quick else 3]:
        with lib.scratch("c05frag-") as td:
            src_ = pathlib.Path(spec_f["path"]).parent
            shutil.copytree(src_, td / "m", ignore=shutil.ignore_patterns("*.license"))
            capella_ = next(p_.name for p_ in src_.glob("*.capella"))
            plan_ = corpus.load(spec_f)
            cands_ = []
            for t_ in plan_._loader.trees.values():
                if t_.fragment_type.name != "SEMANTIC":
                    continue
                for e in t_.root.iter():
                    ty_ = e.get(XSI_TYPE) if isinstance(e.tag, str) else None
                    if ty_ and e.get("id") and len(e) >= 3 and (ty_.endswith("Pkg") or ty_.endswith("Component")) and e.getparent() is not None:
                        cands_.append((len(list(e.iterancestors())), e.get("id")))
            del plan_
            if len(cands_) < 3:
                continue
            chosen_ = [u for _, u in sorted(rng.sample(cands_, min(7, len(cands_))))]
            dirs_ = ["", "fragments/", "sub dir/é ü/", "a/b/c/"]
            picks_ = [(u, dirs_[i_ % len(dirs_)] + f"F {i_} ä.capellafragment") for i_, u in enumerate(chosen_)]
            try:
                fragmenter.fragment_model(td / "m", capella_, pathlib.Path(spec_f["path"]).name, picks_)
                fm = capellambse.MelodyModel(str(td / "m" / pathlib.Path(spec_f["path"]).name))
            except Exception as ex:  # noqa: BLE001
                chk.broken.append(f"harness: fragmented copy of {spec_f['name']} could not be built/loaded: {ex!r}")
                continue
            fl = fm._loader
            frag_of_root = {id(t_.root): k_ for k_, t_ in fl.trees.items()}

            def frag_of(e):
                while e.getparent() is not None:
                    e = e.getparent()
                return frag_of_root[id(e)]
            # holders: objects with a populated list-valued AttrProxy relation; candidates for insertion: members of such lists, by class
            holders = []
            by_cls = collections.defaultdict(list)
            for t_ in fl.trees.values():
                if t_.fragment_type.name != "SEMANTIC":
                    continue
                for e in t_.root.iter():
                    if not isinstance(e.tag, str) or not e.get("id") or not e.get(XSI_TYPE):
                        continue
                    try:
                        o = capellambse.model.ModelElement.from_model(fm, e)
                    except Exception:  # noqa: BLE001
                        continue
                    by_cls[type(o)].append(o)
                    for n_, a_ in graph.list_relations(o):
                        if isinstance(a_, D.AttrProxyAccessor) and getattr(a_, "aslist", None) is not None and e.get(a_.attr):
                            holders.append((o, n_, a_))
            rng.shuffle(holders)
            n_ops = 0
            for o, n_, a_ in holders[: 60 if quick else 400]:
                try:
                    lst = getattr(o, n_)
                    cur = [x.uuid for x in lst]
                except Exception:  # noqa: BLE001
                    continue
                if not cur:
                    continue
                mcls = type(lst[0])
                pool_ = [x for x in by_cls.get(mcls, []) if x.uuid not in cur]
                # prefer candidates stored in another file than the holder
                far_ = [x for x in pool_ if frag_of(x._element) != frag_of(o._element)]
                for _ in range(3):
                    lst = getattr(o, n_)
                    cur = [x.uuid for x in lst]
                    op_ = rng.choice(["insert", "insert", "insert", "append", "delete", "assign"])
                    cand_ = rng.choice(far_) if far_ and rng.random() < 0.8 else (rng.choice(pool_) if pool_ else None)
                    exp = list(cur)
                    try:
                        if op_ == "insert" and cand_ is not None and cand_.uuid not in cur:
                            i_ = rng.randint(0, len(cur))
                            lst.insert(i_, cand_)
                            exp.insert(i_, cand_.uuid)
                        elif op_ == "append" and cand_ is not None and cand_.uuid not in cur:
                            lst.append(cand_)
                            exp.append(cand_.uuid)
                        elif op_ == "delete" and len(cur) > 1:
                            i_ = rng.randrange(len(cur))
                            del lst[i_]
                            del exp[i_]
                        elif op_ == "assign" and cand_ is not None and cand_.uuid not in cur:
                            exp = [cand_.uuid] + list(reversed(cur))
                            setattr(o, n_, [fm.by_uuid(u) for u in exp])
                        else:
                            continue
                    except Exception as ex:  # noqa: BLE001
                        stats[f"api-list-edit-raises:{type(ex).__name__}"] += 1
                        break
                    n_ops += 1
                    stats[f"api-list-edits:{op_}"] += 1
                    text = o._element.get(a_.attr, "")
                    cross_ = sum(1 for u in exp if frag_of(fl[u]) != frag_of(o._element))
                    stats["api-list-members-in-another-file"] += cross_
                    chk.note_case(("api-list", spec_f["name"], o.uuid, n_, op_, n_ops), nontrivial=cross_ > 0 and len(exp) > 1)
                    try:
                        parts_ = list(helpers.split_links(text))
                        got = [x.get("id") for x in fl.follow_links(o._element, text)]
                        api = [x.uuid for x in getattr(o, n_)]
                    except Exception as ex:  # noqa: BLE001
                        parts_, got, api = [], ex, None
                    okform = all(LINK_RE.match(p_) for p_ in parts_) and len(parts_) == len(exp)
                    for p_, u in zip(parts_, exp):
                        m_ = LINK_RE.match(p_)
                        if m_ and bool(m_.group(2)) != (frag_of(fl[u]) != frag_of(o._element)):
                            okform = False
                    if got != exp or api != exp or not okform:
                        chk.violation(f"api-list:{op_}", f"after {op_} on {type(o).__name__}.{n_} the attribute {a_.attr}={text!r} does not hold, in order, links of Capella's "
                                      f"form to {exp} (resolves to {got!r})", {"model": spec_f["name"], "holder": o.uuid, "relation": n_, "op": op_, "expected": exp,
                                                                               "text": text, "layout": picks_})
                        break
            del fm
    chk.correspond(imports, "w_create_link", create_cases, tag="C05_create",
                   describe=lambda i: {"from/to/visual/incl/type/id": create_cases[i][0]})
    chk.correspond(imports, "w_resolve_fragment", resolve_cases, tag="C05_resolve")

    # ---------- (4) pure helpers: relpath_pure, split_links, regex, unquote  (valid + malformed streams)
    rel_cases = []
    comps = ["a", "b", "..", "c d", "é"]
    for n1 in range(0, 4):
        for p in itertools.product(comps[:3] if quick else comps, repeat=n1):
            for n2 in range(0, 4):
                for s in itertools.product(comps[:3] if quick else comps[:4], repeat=n2):
                    pp, ss = pathlib.PurePosixPath(*p), pathlib.PurePosixPath(*s)
                    rel_cases.append((([b(x) for x in pp.parts], [b(x) for x in ss.parts]),
                                      [b(x) for x in helpers.relpath_pure(pp, ss).parts]))
    chk.correspond(imports, "w_relpath", rel_cases, tag="C05_relpath")

    toks = ["#a1", "#_B-2", "t:X f.capella#u1", "f%20g.aird#u2", "t:Y", "g#", "#", "a b#c", "#x#y", "é.capella#z", "u3",
            "t:Z ../d/e.capellafragment#u4", "  ", "\t", "t:A t:B f#u", "f#u v"]
    split_cases, parse_cases = [], []
    for n in range(0, 4 if quick else 5):
        for combo in itertools.product(toks[:9] if quick else toks, repeat=n):
            s = " ".join(combo)
            try:
                out = [b(x) for x in helpers.split_links(s)]
            except ValueError as ex:
                out = err_of(ex)
            split_cases.append((b(s), out))
    if len(split_cases) > (3000 if quick else 40000):
        split_cases = rng.sample(split_cases, 3000 if quick else 40000)
    chk.correspond(imports, "w_split_links", split_cases, tag="C05_split")
    cand = set(toks) | {c[0].decode("utf-8", "replace") for c in split_cases[:400]} | {"", "#", " #a", "a #b", "x y z#w", "a#b#c", "a\n", "#a\n", "ä#b", "x y#z-_9"}
    for c in range(33, 127):
        ch = chr(c)
        cand |= {f"a{ch}b.capella#u1", f"t:X f{ch}g#u2", f"t{ch}Y f.capella#u3", f"{ch}#u4", f"#u{ch}5", f"x{ch}"}
    cand |= {"é.capella#z", "t:X é/ü.capella#z", "dir/(1)/f~1.capella#u", "a\tb#u", "a\u00a0b#u"}
    for s in sorted(cand):
        m = helpers.CROSS_FRAGMENT_LINK.fullmatch(s)
        parse_cases.append((b(s), None if not m else [b(g) if g is not None else None for g in m.groups()]))
    chk.correspond(imports, "w_parse_link", parse_cases, tag="C05_parse")
    uq = []
    for s in ["", "%", "%2", "%zz", "a%20b", "%41%42", "%e9", "100%25", "%%20", "a+b", "%C3%A9x"] + [urllib.parse.quote(n) for n in NAMES]:
        uq.append((b(s), urllib.parse.unquote_to_bytes(s)))
    chk.correspond(imports, "w_unquote", uq, tag="C05_unquote")

    chk.coverage.update({
        "pairs": stats["pairs"], "cross_fragment_pairs": stats["cross"], "same_fragment_pairs": stats["same"],
        "link_lists": stats["lists"], "corpus_links_reproduced_verbatim": verbatim_total - verbatim_bad,
        "corpus_links_total": verbatim_total, "corpus_links_unresolvable(not loaded)": stats["verbatim_unresolvable"],
        "list_attributes_edited_through_the_model_API_on_a_fragmented_copy": {k: v for k, v in sorted(stats.items()) if k.startswith("api-list")},
        "rule": "stratified sample of elements (every fragment x every type present) -> all ordered pairs, under the real "
                "fragment layout and under generated layouts (depth 0-4, awkward names: space, %, non-ASCII); every reference "
                "attribute/href Capella wrote is regenerated and compared verbatim; non-trivial = cross-fragment",
    })
    chk.samples += [{"create_link": [lib.jsonable(create_cases[-1][0]), create_cases[-1][1].decode()]}] if create_cases else []
    chk.assumptions += ["UTF-8 encoding of str and urllib.parse.quote/unquote are stand-ins (Model/Quote.v), sampled here",
                        "re module: the link regex is modelled by Model/LinkRe.v parse_link, compared on valid and malformed strings"]


if __name__ == "__main__":
    lib.main("C05", run)
