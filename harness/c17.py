"""C17 — Parsed diagrams are geometrically sound and independent of absolute position.

Diagram level (oracle on the implementation, raw lxml + plain arithmetic): every corpus diagram parsed and checked for
soundness; the stored layout translated as a whole — by random vectors and by vectors DERIVED from the diagram's own
geometry that put the coordinate origin on / within 1 of / a few pixels beside every kind of feature (parsed and stored
edge ends, bend points, box corners and centres, ports, labels), a feature on one axis only, the diagram 1e6 away, into
the negative quadrant or centred on the origin (origin_offsets: whatever depends on ABSOLUTE coordinates shows there) —;
ONE top-level node moved by a random vector; and ONE top-level node
moved into special relative positions DERIVED from the geometry the diagram has at rest (perturbation_offsets: the two
ends of an attached edge coincide, an end lands on a bend point / on a corner of the other box, corners / sides /
centres of the connected boxes coincide, stored segment vectors, corners of top-level boxes on each other) — the
perturbed layout has to parse, to stay sound, to move the node by exactly the displacement and to leave unrelated
elements alone.  A parse failure is classified by its innermost frame and the geometry of the failing call
(crash_class): only the oblique snap on a ray through / within rounding of a corner is a listed finding.
"""
from __future__ import annotations

import itertools
import logging
import math
import pathlib
import shutil
import sys
from fractions import Fraction as F

sys.path.insert(0, str(pathlib.Path(__file__).resolve().parent))
import lib
from lib import Err, err_of

IMPORTS = "From V Require Import Model.Geom."
EPS = 1e-6
STYLES = ("oblique", "manhattan", "tree")


# ------------------------------------------------------------------ value encoding
def qv(x):
    """exact rational of an implementation number, as the model's input encoding"""
    fr = F(x)
    return int(fr) if fr.denominator == 1 else [fr.numerator, fr.denominator]


def vv(v):
    return [qv(v[0]), qv(v[1])]


def finite(*xs) -> bool:
    return all(isinstance(x, (int, float)) and math.isfinite(x) for x in xs)


def out_vec(r):
    """implementation outcome -> encodable value"""
    if isinstance(r, Err):
        return r
    if not finite(r[0], r[1]):
        return Err("Other")
    return vv(r)


# ------------------------------------------------------------------ independent oracle (plain arithmetic)
def on_outline(pt, pos, size, eps=EPS) -> bool:
    x, y = pt
    x0, y0 = pos
    x1, y1 = x0 + size[0], y0 + size[1]
    inx = x0 - eps <= x <= x1 + eps
    iny = y0 - eps <= y <= y1 + eps
    return (inx and (abs(y - y0) <= eps or abs(y - y1) <= eps)) or (iny and (abs(x - x0) <= eps or abs(x - x1) <= eps))


def rect_touches_outline(rpos, rsize, pos, size, eps=EPS) -> bool:
    """the closed rectangle (rpos, rsize) has a point in common with the outline of (pos, size)"""
    ax0, ay0, ax1, ay1 = rpos[0], rpos[1], rpos[0] + rsize[0], rpos[1] + rsize[1]
    bx0, by0, bx1, by1 = pos[0], pos[1], pos[0] + size[0], pos[1] + size[1]
    # intersects the closed box ...
    if ax1 < bx0 - eps or bx1 < ax0 - eps or ay1 < by0 - eps or by1 < ay0 - eps:
        return False
    # ... but is not strictly inside its interior
    strictly_inside = ax0 > bx0 + eps and ax1 < bx1 - eps and ay0 > by0 + eps and ay1 < by1 - eps
    return not strictly_inside


def oblique_class(pos, size, p, s):
    """exact classification of an oblique snap input (Fractions): which thin set, if any, it lies on"""
    x0, y0, w, h = F(pos[0]), F(pos[1]), max(F(size[0]), 0), max(F(size[1]), 0)
    px, py, sx, sy = F(p[0]), F(p[1]), F(s[0]), F(s[1])
    if w == 0 or h == 0:
        return "degenerate-box"
    if not (x0 <= px <= x0 + w and y0 <= py <= y0 + h):
        px, py = x0 + w / 2, y0 + h / 2
    dx, dy = px - sx, py - sy
    if dx == 0 and dy == 0:
        return "no-direction"
    if dx == 0 or dy == 0:
        return None
    cx = x0 if dx > 0 else x0 + w
    cy = y0 if dy > 0 else y0 + h
    if dx * (cy - sy) - dy * (cx - sx) == 0:
        return "through-corner"
    return None


def near_corner_ray(pos, size, p, s, eps=1e-6) -> bool:
    """float version for crashes inside parsed diagrams: the line s->p' passes within eps of a corner"""
    x0, y0, w, h = pos[0], pos[1], size[0], size[1]
    px, py = p
    if not (x0 <= px <= x0 + w and y0 <= py <= y0 + h):
        px, py = x0 + w / 2, y0 + h / 2
    dx, dy = px - s[0], py - s[1]
    n = math.hypot(dx, dy)
    if n == 0:
        return False
    for cx, cy in ((x0, y0), (x0 + w, y0), (x0, y0 + h), (x0 + w, y0 + h)):
        if abs(dx * (cy - s[1]) - dy * (cx - s[0])) / n <= eps:
            return True
    return False


def snap_expectation(style, port, pos, size, p, s, r, exact=False):
    """None if the outcome r of Box(pos,size,port).vector_snap(p, source=s, style) satisfies the property,
    else (class key, description).  Thin sets with a known defect get their own narrow class key."""
    w, h = max(size[0], 0), max(size[1], 0)
    closest = style == "oblique" and tuple(p) == tuple(s)
    if isinstance(r, Err):
        if style == "oblique" and not closest:
            cls = oblique_class(pos, size, p, s)
            if cls is not None and r.name == "AssertionError":
                return ("snap:oblique-" + cls, f"raises {r.raw}")
            if not exact and r.name == "AssertionError" and near_corner_ray(pos, (w, h), p, s, 1e-9):
                # exact arithmetic has exactly one intersection; the float range test at the border's end loses it
                return ("snap:oblique-corner-rounding", f"raises {r.raw}")
        if closest and (w == 0 or h == 0) and r.name == "ValueError":
            return ("snap:closest-degenerate-box", f"raises {r.raw}")
        return (f"snap:{'closest' if closest else style}:raises-{r.raw}", f"raises {r.raw}")
    if not finite(r[0], r[1]):
        return (f"snap:{style}:non-finite", f"returns {tuple(r)}")
    if style == "tree":
        if tuple(p) == tuple(s):
            if not on_outline(r, pos, (w, h)):
                return ("snap:tree-source-equals-point", f"returns {tuple(r)}, not on the outline")
            return None
        on_line = abs(r[1] - pos[1]) <= EPS or abs(r[1] - (pos[1] + h)) <= EPS
        if port:
            ok = on_line and abs(r[0] - (pos[0] + w / 2)) <= EPS
        else:
            ok = on_line and abs(r[0] - p[0]) <= EPS
        return None if ok else ("snap:tree:off-side", f"returns {tuple(r)}, not on the top or bottom side")
    if not on_outline(r, pos, (w, h)):
        return (f"snap:{'closest' if closest else style}:off-outline", f"returns {tuple(r)}, not on the outline")
    return None


# ------------------------------------------------------------------ part A: snapping
def run_snapping(chk: lib.Check):
    from capellambse import diagram as D
    quick = chk.tier == "quick"
    rng = chk.rng
    RS = {"oblique": D.RoutingStyle.OBLIQUE, "manhattan": D.RoutingStyle.MANHATTAN, "tree": D.RoutingStyle.TREE}

    def impl(style, port, pos, size, p, s):
        try:
            return D.Box(pos, size, port=port).vector_snap(p, source=s, style=RS[style])
        except Exception as e:  # noqa: BLE001
            return err_of(e)

    counts = {"lattice": 0, "degenerate": 0, "dyadic": 0, "random": 0, "translated": 0, "errors": 0, "corr": 0}
    classes: dict[str, int] = {}
    cases: list = []          # computed by the implementation without rounding (lattice, degenerate, dyadic)
    cases_float: list = []    # arbitrary floats

    def one(style, port, pos, size, p, s, stream, corr: bool, into=None):
        r = impl(style, port, pos, size, p, s)
        counts[stream] += 1
        if isinstance(r, Err):
            counts["errors"] += 1
        if style == "tree" and not port and tuple(p) != tuple(s) and not (pos[0] <= p[0] <= pos[0] + max(size[0], 0)):
            # accepted as "on the top or bottom side": on that line, straight above/below the point, beyond the sides
            counts["tree_point_beyond_sides"] = counts.get("tree_point_beyond_sides", 0) + 1
        bad = snap_expectation(style, port, pos, size, p, s, r, exact=stream != "random")
        if bad:
            key, what = bad
            classes[key] = classes.get(key, 0) + 1
            chk.violation(key, f"Box({tuple(pos)},{tuple(size)},port={port}).vector_snap({tuple(p)}, source={tuple(s)}, style={style}) {what}",
                          {"call": "Box.vector_snap", "pos": list(pos), "size": list(size), "port": port,
                           "point": list(p), "source": list(s), "style": style,
                           "outcome": repr(r)})
        if corr:
            (cases if into is None else into).append(([[STYLES.index(style), port, vv(pos), vv(size), vv(p), vv(s)], out_vec(r)], True))
        return r

    # (i) the lattice of the design: corner in {0,1}^2, size in {1..4}^2, point and source in {-2..6}^2
    pts = [(x, y) for x in range(-2, 7) for y in range(-2, 7)]
    boxes = [((x, y), (w, h)) for x in (0, 1) for y in (0, 1) for w in range(1, 5) for h in range(1, 5)]
    full = itertools.product(STYLES, (False, True), boxes, pts, pts)
    total = 3 * 2 * len(boxes) * len(pts) * len(pts)
    stride_oracle = 40 if quick else 1
    want_corr = 9000 if quick else 120000
    p_corr = want_corr / (total / stride_oracle)
    off = rng.randrange(stride_oracle)
    for i, (style, port, (pos, size), p, s) in enumerate(full):
        if (i + off) % stride_oracle:
            continue
        one(style, port, pos, size, p, s, "lattice", rng.random() < p_corr)
        chk.note_case(("snap", style, port, pos, size, p, s), nontrivial=True)
    # every box of the lattice with every point, source = point (the "closest" variant), exhaustively
    for port, (pos, size), p in itertools.product((False, True), boxes, pts):
        one("oblique", port, pos, size, p, p, "lattice", port is False or rng.random() < 0.2)

    # (ii) degenerate sizes (an error stream of its own)
    dpts = [(x, y) for x in range(-1, 4) for y in range(-1, 4)]
    dboxes = [((x, x), (w, h)) for x in (0, 1) for w in range(0, 3) for h in range(0, 3) if w == 0 or h == 0]
    dboxes += [((0, 0), (-1, 2)), ((0, 0), (2, -3))]
    for style, port, (pos, size), p, s in itertools.product(STYLES, (False, True), dboxes, dpts, dpts):
        if quick and rng.random() > 0.15:
            continue
        one(style, port, pos, size, p, s, "degenerate", rng.random() < (0.35 if quick else 0.5))

    # (iii) random real-valued: dyadic rationals (float arithmetic exact) and arbitrary floats
    def dy():
        return rng.randint(-400, 400) / rng.choice((1, 2, 4, 8, 16, 64))
    for k in range(2500 if quick else 40000):
        style = rng.choice(STYLES)
        port = rng.random() < 0.4
        arbitrary = k % 3 == 2
        if arbitrary:
            pos = (rng.uniform(-500, 500), rng.uniform(-500, 500))
            size = (rng.uniform(0.5, 300), rng.uniform(0.5, 300))
            gen = lambda: (rng.uniform(-600, 900), rng.uniform(-600, 900))  # noqa: E731
            fr = lambda: rng.uniform(0.01, 0.99)  # noqa: E731  (boundaries are exercised by the exact streams)
        else:
            pos = (dy(), dy())
            size = (abs(dy()) + 0.25, abs(dy()) + 0.25)
            gen = lambda: (dy(), dy())  # noqa: E731
            fr = lambda: rng.choice((0, 0.25, 0.5, 0.75, 1))  # noqa: E731
        m = rng.random()
        if m < 0.35:   # a point inside the box / on its border
            p = (pos[0] + size[0] * fr(), pos[1] + size[1] * fr())
        else:
            p = gen()
        s = p if rng.random() < 0.08 else gen()
        one(style, port, pos, size, p, s, "random" if arbitrary else "dyadic", True, into=cases_float if arbitrary else cases)

    # (iv) translation of snapping calls on the implementation: same outcome shifted, same crash
    tcount = 0
    sample = [c for c in cases if rng.random() < (0.25 if quick else 0.1)]
    for (inp, out), _ in sample:
        st, port, pos, size, p, s = inp
        fl = lambda v: tuple(float(F(*x)) if isinstance(x, list) else x for x in v)  # noqa: E731
        pos, size, p, s = fl(pos), fl(size), fl(p), fl(s)
        v = (rng.randint(-5000, 5000), rng.randint(-5000, 5000))
        mv = lambda a: (a[0] + v[0], a[1] + v[1])  # noqa: E731
        r0 = impl(STYLES[st], port, pos, size, p, s)
        r1 = impl(STYLES[st], port, mv(pos), size, mv(p), mv(s))
        counts["translated"] += 1
        tcount += 1
        same = (isinstance(r0, Err) and isinstance(r1, Err) and r0 == r1) or (
            not isinstance(r0, Err) and not isinstance(r1, Err)
            and abs(r1[0] - r0[0] - v[0]) <= EPS and abs(r1[1] - r0[1] - v[1]) <= EPS)
        if not same:
            style = STYLES[st]
            cls = oblique_class(pos, size, p, s) if style == "oblique" and tuple(p) != tuple(s) else None
            # float rounding decides which side of a thin set the translated call falls on
            near = style == "oblique" and tuple(p) != tuple(s) and near_corner_ray(pos, (max(size[0], 0), max(size[1], 0)), p, s, 1e-9)
            key = "snap-translate:oblique-through-corner" if (cls == "through-corner" or near) else f"snap-translate:{style}"
            chk.violation(key, f"vector_snap {style} on Box({pos},{size},port={port}) point {p} source {s}: {r0!r}, translated by {v}: {r1!r}",
                          {"call": "Box.vector_snap", "pos": pos, "size": size, "port": port, "point": p, "source": s,
                           "style": style, "translation": v, "outcome": repr(r0), "translated_outcome": repr(r1)})

    chk.samples.append({"vector_snap": cases[5][0] if len(cases) > 5 else None})
    cases = cases + cases_float
    counts["corr"] = len(cases)
    chk.coverage["snap_streams"] = counts
    chk.coverage["snap_failure_classes"] = classes
    chk.correspond(IMPORTS, "w_snap", cases, tag="C17_snap", shard=1500,
                   describe=lambda i: {"[style(0 oblique/closest,1 manhattan,2 tree), port, pos, size, point, source], impl": cases[i][0]})
    return D


# ------------------------------------------------------------------ part B: primitives, ports, viewport
def run_primitives(chk: lib.Check):
    from capellambse import diagram as D
    quick = chk.tier == "quick"
    rng = chk.rng
    cov = {}

    def dy():
        return rng.randint(-200, 200) / rng.choice((1, 2, 4, 8))

    # ---- line_intersect
    grid = [(x, y) for x in range(-2, 3) for y in range(-2, 3)]
    li_cases = []
    n_par = 0
    quads = list(itertools.product(grid, repeat=4))
    rng.shuffle(quads)
    quads = quads[: (3000 if quick else 40000)]
    for _ in range(800 if quick else 8000):
        quads.append(tuple((dy(), dy()) for _ in range(4)))
    for a, b, c, d in quads:
        try:
            r = D.line_intersect((a, b), (c, d))
        except Exception as e:  # noqa: BLE001
            r = err_of(e)
        parallel = (F(a[0]) - F(b[0])) * (F(c[1]) - F(d[1])) - (F(c[0]) - F(d[0])) * (F(a[1]) - F(b[1])) == 0
        n_par += parallel
        key = None
        if parallel != (isinstance(r, Err) and r.name == "ValueError"):
            key = "line_intersect:parallel-detection"
        elif not isinstance(r, Err):
            def off(p, q, x):
                n = math.hypot(q[0] - p[0], q[1] - p[1])
                return abs((q[0] - p[0]) * (x[1] - p[1]) - (q[1] - p[1]) * (x[0] - p[0])) / n
            if not finite(*r) or off(a, b, r) > EPS or off(c, d, r) > EPS:
                key = "line_intersect:not-on-both-lines"
        if key:
            chk.violation(key, f"line_intersect(({a},{b}),({c},{d})) = {r!r}", {"call": "line_intersect", "args": [a, b, c, d], "outcome": repr(r)})
        li_cases.append(([[vv(a), vv(b), vv(c), vv(d)], out_vec(r)], True))
        chk.note_case(("li", a, b, c, d))
    cov["line_intersect"] = {"cases": len(li_cases), "parallel": n_par}
    chk.correspond(IMPORTS, "w_line_intersect", li_cases, tag="C17_li", shard=1500)

    # ---- closestaxis
    ca_cases = []
    ds = [(x, y) for x in range(-3, 4) for y in range(-3, 4)] + [(dy(), dy()) for _ in range(300 if quick else 3000)]
    ds += [(0.0, -0.0), (-0.0, 0.0), (1.5, -1.5), (-2.25, 2.25)]
    for d in ds:
        r = D.Vector2D(*d).closestaxis()
        ok = (abs(r[0]), abs(r[1])) in ((1, 0), (0, 1)) and r[0] * d[0] + r[1] * d[1] == max(abs(d[0]), abs(d[1]))
        if not ok:
            chk.violation("closestaxis", f"Vector2D{d}.closestaxis() = {tuple(r)}", {"call": "closestaxis", "d": d, "outcome": list(r)})
        ca_cases.append(([[vv(d)], vv(r)], True))
        chk.note_case(("ca", d))
    cov["closestaxis"] = len(ca_cases)
    chk.correspond(IMPORTS, "w_closestaxis", ca_cases, tag="C17_ca", shard=1500)

    # ---- snap_to_parent: ports
    port_cases, child_cases = [], []
    classes: dict[str, int] = {}
    psizes = [(w, h) for w in (1, 4, 6, 7, 12, 20, 31) for h in (1, 4, 6, 7, 12, 20, 31)]   # 0 would mean "auto-size from children"
    sizes = [(10, 10), (4, 4), (3, 5)]
    poss = [(x, y) for x in range(-13, 36, 3) for y in range(-13, 36, 3)]
    combos = list(itertools.product(((0, 0), (1, -1)), psizes, sizes, poss))
    rng.shuffle(combos)
    combos = combos[: (5000 if quick else 60000)]
    for _ in range(500 if quick else 5000):
        combos.append(((dy(), dy()), (abs(dy()) + 8, abs(dy()) + 8), (10, 10), (dy(), dy())))
    nontriv = 0
    for ppos, psize, size, pos in combos:
        try:
            parent = D.Box(ppos, psize)
            child = D.Box(pos, size, port=True, parent=parent)
            r = child.pos
        except Exception as e:  # noqa: BLE001
            r = err_of(e)
        mw, mh = psize[0] - size[0] + 4, psize[1] - size[1] + 4     # size of the rectangle the centre is snapped to
        key = None
        if isinstance(r, Err):
            key = "port:closest-degenerate-box" if (mw <= 0 or mh <= 0) and r.name == "ValueError" else f"port:raises-{r.raw}"
        elif not finite(*r):
            key = "port:non-finite"
        elif mw > 0 and mh > 0:
            nontriv += 1
            if not rect_touches_outline(r, size, ppos, psize):
                key = "port:not-on-border"
        # parents smaller than the port (mw <= 0 or mh <= 0) have no well-defined border position; model agreement only
        if key:
            classes[key] = classes.get(key, 0) + 1
            chk.violation(key, f"port Box({pos},{size}) in parent Box({ppos},{psize}) -> {r!r}",
                          {"call": "Box.snap_to_parent(port)", "parent_pos": ppos, "parent_size": psize, "pos": pos, "size": size, "outcome": repr(r)})
        port_cases.append(([[vv(ppos), vv(psize), vv(pos), vv(size)], out_vec(r)], True))
        chk.note_case(("port", ppos, psize, size, pos))
        # the same as a non-port child
        if rng.random() < 0.3:
            try:
                parent = D.Box(ppos, psize)
                child = D.Box(pos, size, parent=parent)
                rc = [vv(child.pos), vv(child._size)]
            except Exception as e:  # noqa: BLE001
                rc = err_of(e)
                chk.violation(f"child:raises-{rc.raw}", f"child Box({pos},{size}) in parent Box({ppos},{psize}) raises {rc.raw}", {"pos": pos, "size": size, "parent_pos": ppos, "parent_size": psize})
            child_cases.append(([[vv(ppos), vv(psize), vv(pos), vv(size)], rc], True))
    cov["ports"] = {"cases": len(port_cases), "parent_larger_than_port": nontriv, "failure_classes": classes}
    cov["children"] = len(child_cases)
    chk.correspond(IMPORTS, "w_snap_port", port_cases, tag="C17_port", shard=1500)
    chk.correspond(IMPORTS, "w_snap_child", child_cases, tag="C17_child", shard=1500)

    # ---- viewport
    vp_cases = []
    for k in range(300 if quick else 3000):
        dg = D.Diagram("t")
        bounds = []
        for j in range(rng.randint(1, 7)):
            hidden = rng.random() < 0.25
            if rng.random() < 0.3:
                pts = [(dy(), dy()) for _ in range(rng.randint(2, 4))]
                dg.add_element(D.Edge(pts, uuid=f"e{j}", hidden=hidden), extend_viewport=bool(k % 2))
                xs, ys = [q[0] for q in pts], [q[1] for q in pts]
                bb = ((min(xs), min(ys)), (max(xs) - min(xs), max(ys) - min(ys)))
            else:
                pos, size = (dy(), dy()), (abs(dy()) + 1, abs(dy()) + 1)
                dg.add_element(D.Box(pos, size, uuid=f"b{j}", hidden=hidden), extend_viewport=bool(k % 2))
                bb = (pos, size)
            if not hidden:
                bounds.append(bb)
        if not bounds:
            continue
        dg.calculate_viewport()
        vp = dg.viewport
        for (bp, bs) in bounds:
            if not (vp.pos.x <= bp[0] + EPS and vp.pos.y <= bp[1] + EPS and bp[0] + bs[0] <= vp.pos.x + vp.size.x + EPS
                    and bp[1] + bs[1] <= vp.pos.y + vp.size.y + EPS):
                chk.violation("viewport:not-enclosing", f"calculate_viewport() = {tuple(vp.pos)},{tuple(vp.size)} misses {bp},{bs}",
                              {"call": "Diagram.calculate_viewport", "bounds": bounds, "viewport": [list(vp.pos), list(vp.size)]})
                break
        vp_cases.append(([[[vv(a), vv(b)] for a, b in bounds], [vv(vp.pos), vv(vp.size)]], True))
        chk.note_case(("vp", k))
    cov["viewport"] = len(vp_cases)
    chk.correspond(IMPORTS, "w_viewport", vp_cases, tag="C17_vp", shard=400)
    chk.coverage["primitives"] = cov


# ------------------------------------------------------------------ part C: whole diagrams (oracle on the implementation)
XMI_TYPE = "{http://www.omg.org/XMI}type"
XMI_ID = "{http://www.omg.org/XMI}id"


def find_models(quick: bool):
    """(aird path, kwargs for MelodyModel, directories to copy)"""
    data = lib.REPO / "tests" / "data"
    out = []
    for aird in sorted(data.rglob("*.aird")):
        kw = {}
        dirs = [aird.parent]
        if aird.parent.name == "Library Project":
            kw = {"resources": {"Library Test": "Library Test"}}
            dirs.append(data / "Library Test")
        out.append((aird, kw, dirs))
    if quick:
        out = [m for m in out if m[0].parent.name == "5_2"]
    return out


def gmf_diagrams(root):
    """raw scan: the notation:Diagram data element of every diagram, in document order"""
    for el in root.iter("data"):
        par = el.getparent()
        if el.get(XMI_TYPE) == "notation:Diagram" and par is not None and par.get("source") == "GMF_DIAGRAMS":
            yield el


def raw_scan(aird: pathlib.Path):
    """Everything the oracle needs from the .aird, read with lxml only."""
    from lxml import etree
    tree = etree.parse(str(aird))
    root = tree.getroot()
    routing = {}
    for el in root.iter():
        uid = el.get("uid")
        if uid is not None:
            for st in el.iterchildren("ownedStyle"):
                routing[uid] = st.get("routingStyle", "straight")
                break
    diagrams = {}
    for data in gmf_diagrams(root):
        holder = data.getparent().getparent()          # the DSemanticDiagram / SequenceDDiagram
        tops = []
        for ch in data.iterchildren("children"):
            lc = next(ch.iterchildren("layoutConstraint"), None)
            if lc is None:
                continue
            ids = set()
            uuids = set()
            for sub in itertools.chain([ch], ch.iterdescendants("children")):
                if sub.get(XMI_ID):
                    ids.add(sub.get(XMI_ID))
                # a parsed element carries either the diagram element's uid or (visual elements,
                # representation links) the notation node's own xmi:id
                uuids.update(x for x in (sub.get("element"), sub.get(XMI_ID)) if x)
            tops.append({"id": ch.get(XMI_ID), "ids": ids, "uuids": uuids,
                         "own": {x for x in (ch.get("element"), ch.get(XMI_ID)) if x}})
        edges = []
        for ed in data.iterchildren("edges"):
            edges.append({"id": ed.get(XMI_ID), "uuids": {x for x in (ed.get("element"), ed.get(XMI_ID)) if x},
                          "ends": {ed.get("source"), ed.get("target")}})
        diagrams[holder.get("uid")] = {"tops": tops, "edges": edges}
    return tree, routing, diagrams


def moved_uuids(dinfo, top_index: int) -> set:
    """uuids of the node, its contents and (transitively) the edges attached to them — from the raw XML"""
    top = dinfo["tops"][top_index]
    ids = set(top["ids"])
    uu = set(top["uuids"])
    changed = True
    while changed:
        changed = False
        for ed in dinfo["edges"]:
            if ed["id"] not in ids and ed["ends"] & ids:
                ids.add(ed["id"])
                uu.update(ed["uuids"])
                changed = True
    return uu


def write_translated(tree, dst: pathlib.Path, vec_for, only_for=None):
    """Translate the stored layout: add vec_for(diagram uid) to x/y of the layoutConstraint of every top-level
    node (or only of node only_for(diagram uid)), and write the file.  The tree is restored afterwards."""
    undo = []
    for data in gmf_diagrams(tree.getroot()):
        duid = data.getparent().getparent().get("uid")
        v = vec_for(duid)
        if v is None:
            continue
        k = -1
        for ch in data.iterchildren("children"):
            lc = next(ch.iterchildren("layoutConstraint"), None)
            if lc is None:
                continue
            k += 1
            if only_for is not None and only_for(duid) != k:
                continue
            undo.append((lc, lc.get("x"), lc.get("y")))
            lc.set("x", str(int(lc.get("x", "0")) + v[0]))
            lc.set("y", str(int(lc.get("y", "0")) + v[1]))
    tree.write(str(dst), xml_declaration=True, encoding="UTF-8")
    for lc, x, y in undo:
        for name, val in (("x", x), ("y", y)):
            if val is None:
                del lc.attrib[name]
            else:
                lc.set(name, val)


def snapshot(D, dg):
    """plain-data picture of a parsed diagram: every element, label and bend point"""
    def box(b):
        return {"k": "B", "uuid": b.uuid, "pos": tuple(b.pos), "size": tuple(b.size), "hidden": bool(b.hidden),
                "labels": [box(x) for x in b.floating_labels], "port": bool(b.port),
                "parent": (tuple(b.parent.pos), tuple(b.parent.size)) if b.parent is not None else None,
                "hidelabel": bool(b.hidelabel) or b.styleoverrides.get("text_transform") is not None}
    out = []
    for e in dg:
        if isinstance(e, D.Box):
            out.append(box(e))
        elif isinstance(e, D.Edge):
            def end(x):
                return (tuple(x.pos), tuple(x.size), bool(x.port)) if isinstance(x, D.Box) else None
            out.append({"k": "E", "uuid": e.uuid, "points": [tuple(q) for q in e], "hidden": bool(e.hidden),
                        "labels": [box(x) for x in e.labels], "src": end(e.source), "tgt": end(e.target),
                        "src_uuid": getattr(e.source, "uuid", None), "tgt_uuid": getattr(e.target, "uuid", None)})
        else:
            out.append({"k": "C", "uuid": e.uuid, "center": tuple(e.center), "radius": e.radius, "hidden": bool(e.hidden)})
    vp = dg.viewport
    return {"elements": out, "viewport": (tuple(vp.pos), tuple(vp.size)) if vp is not None else None}


def numbers(el):
    if el["k"] == "B":
        yield from el["pos"]
        yield from el["size"]
        for x in el["labels"]:
            yield from numbers(x)
    elif el["k"] == "E":
        for q in el["points"]:
            yield from q
        for x in el["labels"]:
            yield from numbers(x)
    else:
        yield from el["center"]
        yield el["radius"]


def rects(el):
    """rectangles that must be inside the viewport when el is visible"""
    if el["k"] == "B":
        yield el["pos"], el["size"]
        if not el["hidelabel"]:
            for x in el["labels"]:
                yield x["pos"], x["size"]
    elif el["k"] == "E":
        for q in el["points"]:
            yield q, (0, 0)
        for x in el["labels"]:
            if not x["hidden"]:
                yield x["pos"], x["size"]
    else:
        r = el["radius"]
        yield (el["center"][0] - r, el["center"][1] - r), (2 * r, 2 * r)


def shifted(a, b, v, eps=EPS) -> bool:
    """element b is element a moved by exactly v (sizes, flags, structure unchanged)"""
    def pt(p, q):
        return abs(q[0] - p[0] - v[0]) <= eps and abs(q[1] - p[1] - v[1]) <= eps

    def sz(p, q):
        return abs(q[0] - p[0]) <= eps and abs(q[1] - p[1]) <= eps

    def bx(x, y):
        return (x["uuid"] == y["uuid"] and pt(x["pos"], y["pos"]) and sz(x["size"], y["size"]) and x["hidden"] == y["hidden"]
                and len(x["labels"]) == len(y["labels"]) and all(bx(l, m) for l, m in zip(x["labels"], y["labels"])))
    if a["k"] != b["k"] or a["uuid"] != b["uuid"] or a["hidden"] != b["hidden"]:
        return False
    if a["k"] == "B":
        return bx(a, b)
    if a["k"] == "E":
        return (len(a["points"]) == len(b["points"]) and all(pt(p, q) for p, q in zip(a["points"], b["points"]))
                and len(a["labels"]) == len(b["labels"]) and all(bx(l, m) for l, m in zip(a["labels"], b["labels"])))
    return pt(a["center"], b["center"]) and a["radius"] == b["radius"]


def soundness(chk, mname, dname, snap, routing, stats, prefix="diagram", context=None, where="", eps=EPS):
    """finite coordinates, edge ends on outlines, ports on borders, viewport encloses; -> number of violations"""
    nviol = [0]

    def viol(kind, what, extra):
        nviol[0] += 1
        chk.violation(f"{prefix}:{kind}:{mname}:{dname}", f"{mname} {dname!r}{where}: {what}",
                      {**extra, "model": mname, "diagram": dname, **(context or {})})
    vp = snap["viewport"]
    for el in snap["elements"]:
        if not all(finite(x) for x in numbers(el)):
            viol("non-finite", f"element {el['uuid']} has a non-finite coordinate", {"element": el})
            continue
        if el["k"] == "E" and not el["hidden"]:
            style = routing.get(el["uuid"], "straight")
            stats["edges_" + style] = stats.get("edges_" + style, 0) + 1
            for endname, pt, bx in (("source", el["points"][0], el["src"]), ("target", el["points"][-1], el["tgt"])):
                if bx is None:
                    stats["ends_not_on_box"] = stats.get("ends_not_on_box", 0) + 1
                    continue
                stats["ends"] = stats.get("ends", 0) + 1
                pos, size, _port = bx
                if style == "tree":
                    ok = (abs(pt[1] - pos[1]) <= eps or abs(pt[1] - (pos[1] + size[1])) <= eps)
                else:
                    ok = on_outline(pt, pos, size, eps)
                if not ok:
                    viol("edge-end-off-outline", f"{style} edge {el['uuid']}: {endname} end {pt} is not on the outline of box {pos},{size}",
                         {"edge": el["uuid"], "end": endname, "point": pt, "box": [pos, size], "routing": style})
        if el["k"] == "B" and el["port"] and el["parent"] is not None:
            stats["ports"] = stats.get("ports", 0) + 1
            ppos, psize = el["parent"]
            if not rect_touches_outline(el["pos"], el["size"], ppos, psize, eps):
                viol("port-off-border", f"port {el['uuid']} at {el['pos']},{el['size']} does not touch the border of its parent {ppos},{psize}",
                     {"port": el["uuid"], "pos": el["pos"], "size": el["size"], "parent": [ppos, psize]})
        if not el["hidden"]:
            if vp is None or not all(finite(*vp[0], *vp[1]) for _ in (0,)):
                viol("viewport", "no finite viewport", {"viewport": vp})
                continue
            for rpos, rsize in rects(el):
                if not (vp[0][0] <= rpos[0] + eps and vp[0][1] <= rpos[1] + eps
                        and rpos[0] + rsize[0] <= vp[0][0] + vp[1][0] + eps and rpos[1] + rsize[1] <= vp[0][1] + vp[1][1] + eps):
                    viol("viewport", f"visible element {el['uuid']} ({rpos},{rsize}) is outside the viewport {vp}",
                         {"element": el["uuid"], "rect": [rpos, rsize], "viewport": vp})
                    break
    return nviol[0]


def crash_class(exc: BaseException) -> str:
    """Narrow classification of a parse failure: is it the oblique snap on a ray through (or within rounding of) a
    corner?  Reads the innermost frame of the traceback; anything else is reported under its own key."""
    tb = exc.__traceback__
    frame = None
    while tb is not None:
        frame = tb.tb_frame
        tb = tb.tb_next
    if (frame is not None and isinstance(exc, AssertionError) and frame.f_code.co_name == "__vector_snap_oblique"):
        loc = frame.f_locals
        box, edge = loc.get("self"), loc.get("edge")
        if box is not None and edge is not None:
            src, pt = edge
            if near_corner_ray(tuple(box.pos), tuple(box.size), tuple(pt), tuple(src), 1e-6):
                return "oblique-corner-rounding"
    return f"{type(exc).__name__}"


def border_rounding_style(D, capellambse, aird, kw, duid):
    """Observe the Box.vector_snap calls made while parsing diagram duid of the model at aird and return the
    routing style of a call whose point misses a border line of its box by a rounding error
    (0 < distance <= 1e-9), or None.  The calls are only observed, not altered."""
    calls = []
    orig = D.Box.vector_snap

    def rec(self, point, *, source=None, style=D.RoutingStyle.OBLIQUE):
        calls.append((tuple(self.pos), tuple(self.size), tuple(point), style.name.lower()))
        return orig(self, point, source=source, style=style)
    D.Box.vector_snap = rec
    try:
        m = capellambse.MelodyModel(str(aird), **kw)
        for d in m.diagrams:
            if d._element.get("repPath", "#")[1:] == duid:
                try:
                    d.render(None)
                except Exception:  # noqa: BLE001
                    pass
    finally:
        D.Box.vector_snap = orig
    for pos, size, pt, style in calls:
        if not finite(*pos, *size, *pt):
            continue
        for dist in (pt[0] - pos[0], pt[0] - (pos[0] + size[0]), pt[1] - pos[1], pt[1] - (pos[1] + size[1])):
            if 0 < abs(dist) <= 1e-9:
                return style
    return None


# ------------------------------------------------------------------ per-element perturbation of stored layouts
def box_corners(pos, size):
    return [(pos[0], pos[1]), (pos[0] + size[0], pos[1]), (pos[0], pos[1] + size[1]), (pos[0] + size[0], pos[1] + size[1])]


def perturbation_offsets(snap, dinfo):
    """Displacements of ONE top-level node that put the stored layout into a special relative position, derived from the
    geometry the diagram has at rest: for every edge that leaves the node (one end below it, the other end elsewhere)
    the vectors that make the two ends coincide (the edge collapses: the connected boxes touch), that put an end on a
    bend point, on a corner of the other box, that make corners / sides / centres of the two boxes coincide (touching,
    overlapping, coinciding boxes), the stored segment vectors (zero-length segments); and for pairs of top-level
    boxes the differences of their corners.  -> list of (top index, (dx, dy), reason), most degenerate first."""
    owner = {}
    for k, top in enumerate(dinfo["tops"]):
        for u in top["uuids"]:
            owner.setdefault(u, k)
    out, seen = [], set()

    def add(k, v, why, prio):
        for vx in {math.floor(v[0]), math.ceil(v[0])}:
            for vy in {math.floor(v[1]), math.ceil(v[1])}:
                if (vx, vy) != (0, 0) and abs(vx) < 100000 and abs(vy) < 100000 and (k, vx, vy) not in seen:
                    seen.add((k, vx, vy))
                    out.append((prio, k, (vx, vy), why))

    def sub(a, b):
        return (a[0] - b[0], a[1] - b[1])

    for el in snap["elements"]:
        if el["k"] != "E" or len(el["points"]) < 2 or not all(finite(*q) for q in el["points"]):
            continue
        ks, kt = owner.get(el["src_uuid"]), owner.get(el["tgt_uuid"])
        if ks == kt:
            continue
        pts = el["points"]
        rel = []        # displacement of the TARGET side relative to the source side
        rel.append((sub(pts[0], pts[-1]), "edge ends coincide", 0))
        for j in range(1, len(pts) - 1):
            rel.append((sub(pts[j], pts[-1]), "target end on a bend point", 1))
            rel.append((sub(pts[0], pts[j]), "source end on a bend point", 1))
        for j in range(len(pts) - 1):
            seg = sub(pts[j + 1], pts[j])
            rel.append((seg, "segment vector", 2))
            rel.append((sub((0, 0), seg), "segment vector", 2))
        if el["src"] is not None and el["tgt"] is not None:
            (sp, ss, _), (tp, ts, _) = el["src"], el["tgt"]
            for cs in box_corners(sp, ss):
                for ct in box_corners(tp, ts):
                    rel.append((sub(cs, ct), "box corners coincide", 1))
            rel.append(((sp[0] + ss[0] - tp[0], 0), "boxes touch side by side", 1))
            rel.append(((sp[0] - tp[0] - ts[0], 0), "boxes touch side by side", 1))
            rel.append(((0, sp[1] + ss[1] - tp[1]), "boxes touch above each other", 1))
            rel.append(((0, sp[1] - tp[1] - ts[1]), "boxes touch above each other", 1))
            rel.append((sub((sp[0] + ss[0] / 2, sp[1] + ss[1] / 2), (tp[0] + ts[0] / 2, tp[1] + ts[1] / 2)), "box centres coincide", 1))
        if el["src"] is not None:
            for cs in box_corners(el["src"][0], el["src"][1]):
                rel.append((sub(cs, pts[-1]), "target end on a corner of the source box", 2))
        if el["tgt"] is not None:
            for ct in box_corners(el["tgt"][0], el["tgt"][1]):
                rel.append((sub(pts[0], ct), "source end on a corner of the target box", 2))
        for v, why, prio in rel:
            if not finite(*v):
                continue
            if kt is not None:
                add(kt, v, f"{why} (edge {el['uuid']}, target side moved)", prio)
            if ks is not None:
                add(ks, (-v[0], -v[1]), f"{why} (edge {el['uuid']}, source side moved)", prio)
    tops = []
    for k, top in enumerate(dinfo["tops"]):
        for el in snap["elements"]:
            if el["k"] == "B" and el["uuid"] in top["own"] and finite(*el["pos"], *el["size"]):
                tops.append((k, el))
                break
    for (k, a), (l, b) in itertools.permutations(tops, 2):
        for ca in box_corners(a["pos"], a["size"]):
            for cb in box_corners(b["pos"], b["size"]):
                add(k, sub(cb, ca), f"corner of top-level node on a corner of top-level node #{l}", 3)
    out.sort(key=lambda c: c[0])
    return [(k, v, why) for _, k, v, why in out]


# ------------------------------------------------------------------ translations that put the ORIGIN on the diagram's features
FEATURE_KINDS = ("edge end", "stored edge end", "bend point", "box corner", "box centre", "port position", "label position")


def observe_snaps(D, fn):
    """Run fn() and return (its result or the exception it raised, the Box.vector_snap calls made meanwhile).
    The calls are only observed, not altered."""
    calls = []
    orig = D.Box.vector_snap

    def rec(self, point, *, source=None, style=D.RoutingStyle.OBLIQUE):
        calls.append({"box": self.uuid, "pos": tuple(self.pos), "size": tuple(self.size), "point": tuple(point),
                      "source": tuple(source) if source is not None else None, "style": style.name.lower()})
        return orig(self, point, source=source, style=style)
    D.Box.vector_snap = rec
    try:
        try:
            res = fn()
        except Exception as e:  # noqa: BLE001
            res = e
    finally:
        D.Box.vector_snap = orig
    return res, calls


def rounding_call_style(calls, box_uuids, scale=1.0):
    """routing style of an observed snap call ON ONE OF THE GIVEN BOXES whose point misses a border line of the box by a
    rounding error (0 < distance <= 1e-9, scaled with the magnitude of the coordinates), or None"""
    for c in calls:
        if c["box"] not in box_uuids or not finite(*c["pos"], *c["size"], *c["point"]):
            continue
        pos, size, pt = c["pos"], c["size"], c["point"]
        for dist in (pt[0] - pos[0], pt[0] - (pos[0] + size[0]), pt[1] - pos[1], pt[1] - (pos[1] + size[1])):
            if 0 < abs(dist) <= 1e-9 * scale:
                return c["style"]
    return None


def diagram_features(snap, calls):
    """kind -> points of the diagram at rest (parsed picture + the points the parser handed to the snapping code)"""
    feats: dict[str, list] = {k: [] for k in FEATURE_KINDS}

    def label(b):
        feats["label position"].append(b["pos"])
        feats["label position"].append((b["pos"][0] + b["size"][0] / 2, b["pos"][1] + b["size"][1] / 2))

    for el in snap["elements"]:
        if not all(finite(x) for x in numbers(el)):
            continue
        if el["k"] == "B":
            feats["box corner"] += box_corners(el["pos"], el["size"])
            centre = (el["pos"][0] + el["size"][0] / 2, el["pos"][1] + el["size"][1] / 2)
            feats["box centre"].append(centre)
            if el["port"]:
                feats["port position"] += [el["pos"], centre]
            for lb in el["labels"]:
                label(lb)
        elif el["k"] == "E":
            pts = el["points"]
            if pts:
                feats["edge end"] += [pts[0], pts[-1]]
                feats["bend point"] += pts[1:-1]
            for lb in el["labels"]:
                label(lb)
        else:
            feats["box centre"].append(el["center"])
    for c in calls:
        if finite(*c["point"]):
            feats["stored edge end"].append(c["point"])
        if c["source"] is not None and finite(*c["source"]) and c["source"] != c["point"]:
            feats["bend point"].append(c["source"])
    return {k: sorted(set(v)) for k, v in feats.items()}


def origin_offsets(feats, viewport, rng, budget, min_edge_ends=16):
    """Integer translation vectors that make the parsed result depend on ABSOLUTE coordinates if anything does:
    offset = -feature + small, so that the coordinate origin lands on / next to (|d| <= 1, i.e. +-1 and the +-0.5 of a
    non-integer feature) / a few pixels beside every kind of feature; offsets that put a feature on ONE axis only;
    very large offsets; sign flips (the whole diagram in the negative quadrant, negative in one coordinate only, centred
    on the origin).  -> list of (vector, reason): the global ones, `min_edge_ends` origin-at-an-edge-end ones, and a
    seeded round-robin sample over (kind, mode) of the rest up to `budget`; each as (vector, mode, feature kind, reason)."""
    out, seen = [], {(0, 0)}

    def take(v, mode, kind=None, f=None):
        v = (int(v[0]), int(v[1]))
        if v in seen:
            return False
        seen.add(v)
        out.append((v, mode, kind, mode if kind is None else f"{mode} {kind} {f}"))
        return True

    # ---- global ones
    big = 1000000
    for v in ((big, big), (-big, -big), (big, -big), (-big, big), (big, 0), (0, -big)):
        take(v, "very large offset")
    if viewport is not None and finite(*viewport[0], *viewport[1]):
        (x0, y0), (w, h) = viewport
        x1, y1 = x0 + w, y0 + h
        m = rng.randint(1, 40)
        take((-math.ceil(x1) - m, -math.ceil(y1) - m), "sign flip: whole diagram in the negative quadrant")
        take((-math.ceil(x1) - m, 0), "sign flip: all x negative")
        take((0, -math.ceil(y1) - m), "sign flip: all y negative")
        take((-math.ceil(x1), -math.ceil(y1)), "sign flip: diagram touches both axes from the negative side")
        take((-math.floor(x0), -math.floor(y0)), "diagram touches both axes from the positive side")
        take((-round(x0 + w / 2), -round(y0 + h / 2)), "sign flip: diagram centred on the origin")
        take((-big - math.ceil(x1), -big - math.ceil(y1)), "sign flip + very large offset")

    # ---- per feature
    def on(f):       # the origin on the feature (within 0.5 in each coordinate for a non-integer one)
        return [(vx, vy) for vx in {math.floor(-f[0]), math.ceil(-f[0])} for vy in {math.floor(-f[1]), math.ceil(-f[1])}]

    def beside(f):   # the origin within +-1 of the feature
        base = (round(-f[0]), round(-f[1]))
        return [(base[0] + dx, base[1] + dy) for dx in (-1, 0, 1) for dy in (-1, 0, 1) if (dx, dy) != (0, 0)]

    def ring(f):     # a few pixels away, all directions
        base = (round(-f[0]), round(-f[1]))
        res = []
        for _ in range(6):
            dx, dy = rng.randint(-7, 7), rng.randint(-7, 7)
            if max(abs(dx), abs(dy)) >= 2:
                res.append((base[0] + dx, base[1] + dy))
        return res

    def axis_x(f):   # the feature on the y axis (x = 0) only
        return [(vx, rng.choice((0, rng.randint(-3000, 3000)))) for vx in {math.floor(-f[0]), math.ceil(-f[0])}]

    def axis_y(f):
        return [(rng.choice((0, rng.randint(-3000, 3000))), vy) for vy in {math.floor(-f[1]), math.ceil(-f[1])}]

    modes = (("origin on", on), ("origin within 1 of", beside), ("origin a few pixels beside", ring),
             ("x = 0 through", axis_x), ("y = 0 through", axis_y))
    # every diagram: the origin on / next to / beside edge ends, parsed and as stored
    ends = [(k, f) for k in ("edge end", "stored edge end") for f in feats.get(k, [])]
    rng.shuffle(ends)
    n_before = len(out)
    for rnd in range(4):
        for k, f in ends:
            if len(out) - n_before >= min_edge_ends:
                break
            name, fn = modes[rnd % 3]
            cands = fn(f)
            rng.shuffle(cands)
            for v in cands[: (1 if rnd else 2)]:
                take(v, name, k, f)
    groups = []
    for kind in FEATURE_KINDS:
        fs = list(feats.get(kind, []))
        if not fs:
            continue
        rng.shuffle(fs)
        for name, fn in modes:
            groups.append((kind, name, fn, fs, [0]))
    rng.shuffle(groups)
    progress = True
    while len(out) < budget and progress:
        progress = False
        for kind, name, fn, fs, pos in groups:
            if len(out) >= budget:
                break
            while pos[0] < len(fs):
                f = fs[pos[0]]
                pos[0] += 1
                cands = fn(f)
                rng.shuffle(cands)
                if any(take(v, name, kind, f) for v in cands[:1]):
                    progress = True
                    break
    return out


def origin_tolerance(v) -> float:
    """1e-6 for every offset up to 5000 (the range of the random translations); for larger ones the tolerance grows
    linearly with the offset (binary floating point has a relative, not an absolute precision: 2e-4 at 1e6)"""
    return EPS * max(1.0, max(abs(v[0]), abs(v[1])) / 5000)


def run_origin_translations(chk, D, m, datas, mname, dinfos, routing, stats):
    """Translate the stored layout of every diagram (in memory) by the vectors of origin_offsets and parse again: the
    parse must succeed exactly when it does at rest, every element, label, bend point and the viewport must be the
    at-rest one shifted by the vector, and the translated picture must be sound."""
    quick = chk.tier == "quick"
    rng = chk.rng
    budget = 4500 if quick else 15000          # per model
    per_diagram = max(40, min(400, budget // max(1, len(dinfos))))
    modes = stats.setdefault("origin_offset_modes", {})
    kinds = stats.setdefault("origin_offset_feature_kinds", {})
    for d in m.diagrams:
        duid = d._element.get("repPath", "#")[1:]
        if duid not in dinfos or duid not in datas or not dinfos[duid]["tops"]:
            continue
        dname = d.name
        d.invalidate_cache()
        res, calls0 = observe_snaps(D, lambda: snapshot(D, d.render(None)))   # noqa: B023
        if isinstance(res, Exception):         # (reported by the at-rest pass)
            continue
        snap = res
        lcs = []
        for ch in datas[duid].iterchildren("children"):
            lc = next(ch.iterchildren("layoutConstraint"), None)
            if lc is not None:
                lcs.append((lc, lc.get("x"), lc.get("y")))

        def parse_at(v, observe=False):
            for lc, x, y in lcs:               # noqa: B023
                lc.set("x", str(int(x or 0) + v[0]))
                lc.set("y", str(int(y or 0) + v[1]))
            d.invalidate_cache()               # noqa: B023
            try:
                if observe:
                    return observe_snaps(D, lambda: snapshot(D, d.render(None)))   # noqa: B023
                try:
                    return snapshot(D, d.render(None)), None                        # noqa: B023
                except Exception as e:  # noqa: BLE001
                    return e, None
            finally:
                for lc, x, y in lcs:           # noqa: B023
                    for name, val in (("x", x), ("y", y)):
                        if val is None:
                            lc.attrib.pop(name, None)
                        else:
                            lc.set(name, val)
                d.invalidate_cache()           # noqa: B023

        feats = diagram_features(snap, calls0)
        todo = origin_offsets(feats, snap["viewport"], rng, per_diagram)
        stats["origin_diagrams"] = stats.get("origin_diagrams", 0) + 1
        n_end = 0
        for v, mode, kind, why in todo:
            nres, _ = parse_at(v)
            stats["origin_translations"] = stats.get("origin_translations", 0) + 1
            mode = mode.split(":")[0]
            modes[mode] = modes.get(mode, 0) + 1
            if kind is not None:
                kinds[kind] = kinds.get(kind, 0) + 1
            n_end += kind in ("edge end", "stored edge end") and mode.startswith("origin")
            chk.note_case(("origin-translate", mname, duid, v))
            replay = {"model": mname, "diagram": dname, "diagram_uid": duid, "translation": v, "derived_from": why}
            if isinstance(nres, Exception):
                cls = crash_class(nres)
                stats["crash_classes"][cls] = stats["crash_classes"].get(cls, 0) + 1
                key = ("diagram-translate:oblique-corner-rounding" if cls == "oblique-corner-rounding"
                       else f"diagram-origin:crash:{cls}:{mname}:{dname}")
                chk.violation(key, f"{mname} {dname!r}: parses at the stored position, but translated by {v} ({why}) it fails "
                                   f"({type(nres).__name__}: {str(nres)[:200]})",
                              dict(replay, error=[type(nres).__name__, cls, str(nres)[:200]]))
                continue
            nsnap = nres
            a, b = snap["elements"], nsnap["elements"]
            if len(a) != len(b):
                chk.violation(f"diagram-origin:elements:{mname}:{dname}", f"{mname} {dname!r}: {len(a)} elements, translated by {v} ({why}): {len(b)}", replay)
                continue
            eps = origin_tolerance(v)
            worst = max((abs(q - p - dv) for x, y in zip(a, b) if x["k"] == "E" and len(x["points"]) == len(y["points"])
                         for pa, pb in zip(x["points"], y["points"]) for p, q, dv in zip(pa, pb, v)), default=0.0)
            if worst <= eps:
                slot = "max_deviation_large_offsets" if eps > EPS else "max_deviation_other_offsets"
                stats[slot] = max(stats.get(slot, 0.0), worst)
            for x, y in zip(a, b):
                if not shifted(x, y, v, eps):
                    # a stored edge end that lies exactly on a border line of the box it is attached to at one position
                    # and a rounding error off it at the other takes a different branch of the snapping code
                    style = None
                    if x["k"] == "E":
                        ends = {x["src_uuid"], x["tgt_uuid"]} - {None}
                        _, calls1 = parse_at(v, observe=True)
                        scale = max(1.0, max(abs(v[0]), abs(v[1])) / 5000)
                        style = rounding_call_style(calls1, ends, scale) or rounding_call_style(calls0, ends)
                    key = (f"diagram-translate:{style}-border-rounding" if style else f"diagram-origin:moved:{mname}:{dname}")
                    stats["crash_classes"][key] = stats["crash_classes"].get(key, 0) + 1
                    chk.violation(key, f"{mname} {dname!r} translated by {v} ({why}): element {x['uuid']} did not move by exactly that vector",
                                  dict(replay, before=x, after=y))
                    break
            va, vb = snap["viewport"], nsnap["viewport"]
            if va is not None and (vb is None or not (abs(vb[0][0] - va[0][0] - v[0]) <= eps and abs(vb[0][1] - va[0][1] - v[1]) <= eps
                                                      and abs(vb[1][0] - va[1][0]) <= eps and abs(vb[1][1] - va[1][1]) <= eps)):
                chk.violation(f"diagram-origin:viewport:{mname}:{dname}", f"{mname} {dname!r} translated by {v} ({why}): viewport {va} -> {vb}", replay)
            soundness(chk, mname, dname, nsnap, routing, {}, prefix="diagram-origin", context=replay, where=f" translated by {v} ({why})", eps=eps)
        if feats["edge end"]:
            stats["origin_diagrams_with_edges"] = stats.get("origin_diagrams_with_edges", 0) + 1
            stats["origin_min_edge_end_offsets_per_diagram"] = min(stats.get("origin_min_edge_end_offsets_per_diagram", n_end), n_end)


def load_in_memory(capellambse, aird, kw):
    """the model at aird and the notation:Diagram element of every diagram in the loader's own trees"""
    m = capellambse.MelodyModel(str(aird), **kw)
    datas = {}
    for tr in m._loader.trees.values():
        for data in gmf_diagrams(tr.root):
            datas[data.getparent().getparent().get("uid")] = data
    return m, datas


def run_perturbed(chk, D, capellambse, mname, m, datas, dinfos, routing, stats):
    """Move single top-level nodes of the stored layout (in memory, on the loaded scratch copy `m`) by the offsets of
    perturbation_offsets and parse again: the parse must succeed, stay geometrically sound, leave unrelated elements
    alone and move the node by exactly the displacement."""
    quick = chk.tier == "quick"
    rng = chk.rng
    budget = 9000 if quick else 15000          # per model
    per_diagram = max(30, budget // max(1, len(dinfos)))
    reasons = stats.setdefault("perturbation_reasons", {})
    for d in m.diagrams:
        duid = d._element.get("repPath", "#")[1:]
        if duid not in dinfos or duid not in datas or not dinfos[duid]["tops"]:
            continue
        dname = d.name
        try:
            snap = snapshot(D, d.render(None))
        except Exception:  # noqa: BLE001  (reported by the at-rest pass)
            continue
        lcs = {}
        for ch in datas[duid].iterchildren("children"):
            lc = next(ch.iterchildren("layoutConstraint"), None)
            if lc is not None:
                lcs[ch.get(XMI_ID)] = lc
        cands = perturbation_offsets(snap, dinfos[duid])
        stats["perturbation_candidates"] = stats.get("perturbation_candidates", 0) + len(cands)
        first = [c for c in cands if c[2].startswith("edge ends coincide")]
        rest = [c for c in cands if not c[2].startswith("edge ends coincide")]
        rng.shuffle(rest)
        todo = first + rest[: max(0, per_diagram - len(first))]
        for k, v, why in todo:
            top = dinfos[duid]["tops"][k]
            lc = lcs.get(top["id"])
            if lc is None:
                continue
            old = (lc.get("x"), lc.get("y"))
            lc.set("x", str(int(old[0] or 0) + v[0]))
            lc.set("y", str(int(old[1] or 0) + v[1]))
            d.invalidate_cache()
            nsnap, nerr = None, None
            try:
                nsnap = snapshot(D, d.render(None))
            except Exception as e:  # noqa: BLE001
                nerr = (type(e).__name__, crash_class(e), str(e)[:200])
            finally:
                for name, val in (("x", old[0]), ("y", old[1])):
                    if val is None:
                        lc.attrib.pop(name, None)
                    else:
                        lc.set(name, val)
                d.invalidate_cache()
            stats["perturbations"] = stats.get("perturbations", 0) + 1
            kind = why.split(" (")[0].split(" #")[0]
            reasons[kind] = reasons.get(kind, 0) + 1
            chk.note_case(("perturb", mname, duid, k, v))
            replay = {"model": mname, "diagram": dname, "diagram_uid": duid, "top_level_node_index": k, "node_id": top["id"],
                      "displacement": v, "derived_from": why}
            if nerr is not None:
                cls = nerr[1]
                stats["crash_classes"][cls] = stats["crash_classes"].get(cls, 0) + 1
                key = ("diagram-perturb:oblique-corner" if cls == "oblique-corner-rounding"
                       else f"diagram-perturb:crash:{cls}:{mname}:{dname}")
                chk.violation(key, f"{mname} {dname!r}: moving top-level node #{k} by {v} ({why}) makes the parse fail ({nerr[0]}: {nerr[2]})",
                              dict(replay, error=nerr))
                continue
            a, b = snap["elements"], nsnap["elements"]
            if len(a) != len(b):
                chk.violation(f"diagram-perturb:elements:{mname}:{dname}", f"{mname} {dname!r}: moving node #{k} by {v} changes the number of elements {len(a)} -> {len(b)}", replay)
                continue
            moved = moved_uuids(dinfos[duid], k)
            for x, y in zip(a, b):
                if x["uuid"] in top["own"] and x["k"] == "B" and x["parent"] is None:
                    if not (abs(y["pos"][0] - x["pos"][0] - v[0]) <= EPS and abs(y["pos"][1] - x["pos"][1] - v[1]) <= EPS):
                        chk.violation(f"diagram-perturb:node-not-moved:{mname}:{dname}",
                                      f"{mname} {dname!r}: top-level node #{k} displaced by {v} ({why}) went from {x['pos']} to {y['pos']}",
                                      dict(replay, before=x, after=y))
                        break
                if x["uuid"] in moved:
                    continue
                if not shifted(x, y, (0, 0)):
                    chk.violation(f"diagram-perturb:other-element-changed:{mname}:{dname}",
                                  f"{mname} {dname!r}: moving top-level node #{k} by {v} ({why}) changed unrelated element {x['uuid']}",
                                  dict(replay, before=x, after=y))
                    break
            soundness(chk, mname, dname, nsnap, routing, {}, prefix="diagram-perturb", context=replay,
                      where=f" with top-level node #{k} moved by {v} ({why})")


def run_diagrams(chk: lib.Check):
    import capellambse
    from capellambse import diagram as D
    quick = chk.tier == "quick"
    rng = chk.rng
    stats: dict = {"models": 0, "diagrams": 0, "parse_errors": 0, "translations": 0, "translated_diagrams": 0,
                   "node_moves": 0, "elements": 0, "crash_classes": {}}

    def render_all(aird, kw):
        m = capellambse.MelodyModel(str(aird), **kw)
        res = {}
        for d in m.diagrams:
            duid = d._element.get("repPath", "#")[1:]
            try:
                res[duid] = (d.name, snapshot(D, d.render(None)), None)
            except Exception as e:  # noqa: BLE001
                res[duid] = (d.name, None, (type(e).__name__, crash_class(e), str(e)[:200]))
        return res

    with lib.scratch("c17-") as tmp:
        for aird, kw, dirs in find_models(quick):
            mname = f"{aird.parent.parent.name}/{aird.parent.name}" if aird.parent.parent.name != "data" else aird.parent.name
            try:
                kw0 = dict(kw)
                if "resources" in kw0:
                    kw0["resources"] = {k: str(aird.parent.parent / v) for k, v in kw0["resources"].items()}
                base = render_all(aird, kw0)
            except Exception as e:  # noqa: BLE001
                chk.broken.append(f"harness: cannot load {aird}: {type(e).__name__}: {e}")
                continue
            tree, routing, dinfos = raw_scan(aird)
            stats["models"] += 1
            for duid, (dname, snap, err) in base.items():
                stats["diagrams"] += 1
                chk.note_case(("diagram", mname, duid), nontrivial=snap is not None and len(snap["elements"]) > 0)
                if err is not None:
                    stats["parse_errors"] += 1
                    chk.violation(f"diagram:parse:{err[1]}:{mname}:{dname}", f"{mname} {dname!r} does not parse: {err[0]}: {err[2]}",
                                  {"model": mname, "diagram": dname, "error": err})
                    continue
                stats["elements"] += len(snap["elements"])
                soundness(chk, mname, dname, snap, routing, stats)
            if not dinfos:
                continue
            # scratch copy of the model (and of the libraries it needs)
            work = tmp / f"m{stats['models']}"
            for d in dirs:
                shutil.copytree(d, work / d.name)
            dst = work / aird.parent.name / aird.name
            kw1 = dict(kw)
            if "resources" in kw1:
                kw1["resources"] = {k: str(work / v) for k, v in kw1["resources"].items()}
            big = len(dinfos) > 10

            # ---- translation of the whole stored layout, one vector per diagram
            rounds = (6 if quick else 60) if big else (2 if quick else 12)
            special = [(100, 0), (-5000, -5000), (5000, 5000), (0, -4999), (-1, -1), (4096, -4096)]
            for rnd in range(rounds):
                vecs = {}
                for duid in dinfos:
                    vecs[duid] = special[rnd] if rnd < len(special) and rng.random() < 0.5 else (rng.randint(-5000, 5000), rng.randint(-5000, 5000))
                write_translated(tree, dst, vecs.get)
                try:
                    new = render_all(dst, kw1)
                except Exception as e:  # noqa: BLE001
                    chk.violation(f"diagram-translate:load:{mname}", f"{mname}: translated model does not load: {type(e).__name__}: {e}",
                                  {"model": mname, "vectors": vecs})
                    continue
                stats["translations"] += 1
                for duid, (dname, snap, err) in base.items():
                    if duid not in vecs or duid not in new:
                        continue
                    v = vecs[duid]
                    stats["translated_diagrams"] += 1
                    chk.note_case(("translate", mname, duid, v))
                    _, nsnap, nerr = new[duid]
                    replay = {"model": mname, "diagram": dname, "diagram_uid": duid, "translation": v}
                    if (err is None) != (nerr is None):
                        cls = (nerr or err)[1]
                        stats["crash_classes"][cls] = stats["crash_classes"].get(cls, 0) + 1
                        key = ("diagram-translate:oblique-corner-rounding" if cls == "oblique-corner-rounding"
                               else f"diagram-translate:crash:{cls}:{mname}:{dname}")
                        chk.violation(key, f"{mname} {dname!r}: parses at the stored position: {err is None}; translated by {v}: {nerr is None} ({(nerr or err)[0]}: {(nerr or err)[2]})",
                                      dict(replay, error=nerr or err))
                        continue
                    if err is not None:
                        continue
                    a, b = snap["elements"], nsnap["elements"]
                    if len(a) != len(b):
                        chk.violation(f"diagram-translate:elements:{mname}:{dname}", f"{mname} {dname!r}: {len(a)} elements, translated by {v}: {len(b)}", replay)
                        continue
                    for x, y in zip(a, b):
                        if not shifted(x, y, v):
                            # a stored edge end that lies exactly on a border line at one position and a rounding
                            # error off it at the other takes a different branch of the snapping code
                            style = (border_rounding_style(D, capellambse, dst, kw1, duid)
                                     or border_rounding_style(D, capellambse, aird, kw0, duid)) if x["k"] == "E" else None
                            key = (f"diagram-translate:{style}-border-rounding" if style
                                   else f"diagram-translate:moved:{mname}:{dname}")
                            stats["crash_classes"][key] = stats["crash_classes"].get(key, 0) + 1
                            chk.violation(key, f"{mname} {dname!r} translated by {v}: element {x['uuid']} did not move by exactly that vector",
                                          dict(replay, before=x, after=y))
                            break
                    va, vb = snap["viewport"], nsnap["viewport"]
                    if va is not None and (vb is None or not (abs(vb[0][0] - va[0][0] - v[0]) <= EPS and abs(vb[0][1] - va[0][1] - v[1]) <= EPS
                                                              and abs(vb[1][0] - va[1][0]) <= EPS and abs(vb[1][1] - va[1][1]) <= EPS)):
                        chk.violation(f"diagram-translate:viewport:{mname}:{dname}", f"{mname} {dname!r} translated by {v}: viewport {va} -> {vb}", replay)

            # ---- moving one top-level node per diagram
            rounds = (4 if quick else 40) if big else (2 if quick else 10)
            for rnd in range(rounds):
                pick, vecs = {}, {}
                for duid, info in dinfos.items():
                    if info["tops"]:
                        pick[duid] = rng.randrange(len(info["tops"]))
                        vecs[duid] = (rng.randint(-300, 300), rng.randint(-300, 300))
                write_translated(tree, dst, vecs.get, pick.get)
                try:
                    new = render_all(dst, kw1)
                except Exception as e:  # noqa: BLE001
                    chk.violation(f"diagram-move:load:{mname}", f"{mname}: model with moved nodes does not load: {type(e).__name__}: {e}", {"model": mname})
                    continue
                for duid, (dname, snap, err) in base.items():
                    if duid not in pick or duid not in new or err is not None:
                        continue
                    stats["node_moves"] += 1
                    v = vecs[duid]
                    chk.note_case(("move", mname, duid, pick[duid], v))
                    _, nsnap, nerr = new[duid]
                    replay = {"model": mname, "diagram": dname, "diagram_uid": duid, "top_level_node_index": pick[duid],
                              "node_id": dinfos[duid]["tops"][pick[duid]]["id"], "displacement": v}
                    if nerr is not None:
                        cls = nerr[1]
                        stats["crash_classes"][cls] = stats["crash_classes"].get(cls, 0) + 1
                        key = ("diagram-translate:oblique-corner-rounding" if cls == "oblique-corner-rounding"
                               else f"diagram-move:crash:{cls}:{mname}:{dname}")
                        chk.violation(key, f"{mname} {dname!r}: moving top-level node #{pick[duid]} by {v} makes the parse fail ({nerr[0]}: {nerr[2]})", dict(replay, error=nerr))
                        continue
                    moved = moved_uuids(dinfos[duid], pick[duid])
                    a, b = snap["elements"], nsnap["elements"]
                    if len(a) != len(b):
                        chk.violation(f"diagram-move:elements:{mname}:{dname}", f"{mname} {dname!r}: moving one node changes the number of elements {len(a)} -> {len(b)}", replay)
                        continue
                    for x, y in zip(a, b):
                        if x["uuid"] in moved:
                            continue
                        if not shifted(x, y, (0, 0)):
                            chk.violation(f"diagram-move:other-element-changed:{mname}:{dname}",
                                          f"{mname} {dname!r}: moving top-level node #{pick[duid]} by {v} changed unrelated element {x['uuid']}",
                                          dict(replay, before=x, after=y))
                            break

            # ---- moving single nodes into special relative positions derived from the stored geometry
            tree.write(str(dst), xml_declaration=True, encoding="UTF-8")      # the layout at rest (the tree is restored after every write)
            try:
                mem, datas = load_in_memory(capellambse, dst, kw1)
            except Exception as e:  # noqa: BLE001
                chk.broken.append(f"harness: cannot load the scratch copy of {mname}: {type(e).__name__}: {e}")
                continue
            # ---- translating the whole layout so that the origin lands on / next to the diagram's own features
            try:
                run_origin_translations(chk, D, mem, datas, mname, dinfos, routing, stats)
            except Exception as e:  # noqa: BLE001
                chk.broken.append(f"harness: origin-translation stream on {mname}: {type(e).__name__}: {e}")
            try:
                run_perturbed(chk, D, capellambse, mname, mem, datas, dinfos, routing, stats)
            except Exception as e:  # noqa: BLE001
                chk.broken.append(f"harness: perturbation stream on {mname}: {type(e).__name__}: {e}")
    chk.coverage["diagrams"] = stats
    chk.samples.append({"diagram_run": {k: stats[k] for k in ("models", "diagrams", "translated_diagrams", "node_moves")}})


# ------------------------------------------------------------------ part D: edge-end snapping and default routes
def run_edge_ends(chk: lib.Check):
    """_edge_factories.snaptarget / route_* on synthetic boxes and polylines: after snapping, the end of
    the edge lies on the outline of the box it is attached to (tree: on its top or bottom side)."""
    from capellambse import diagram as D
    from capellambse.aird import _edge_factories as EF
    quick = chk.tier == "quick"
    rng = chk.rng
    classes: dict[str, int] = {}
    n = {"snaptarget": 0, "routes": 0}
    snap_cases, route_cases = [], []
    IMPORTS_E = "From V Require Import Model.Geom Model.GeomEdge."

    def bval(b):
        return [vv(tuple(b.pos)), vv(tuple(b.size)), bool(b.port)]

    def classify(exc):
        tb, frame = exc.__traceback__, None
        while tb is not None:
            frame, tb = tb.tb_frame, tb.tb_next
        if isinstance(exc, AssertionError) and frame is not None and frame.f_code.co_name == "__vector_snap_oblique":
            loc = frame.f_locals
            box, edge = loc.get("self"), loc.get("edge")
            orig = loc.get("point")
            if box is not None and edge is not None:
                cls = oblique_class(tuple(box.pos), tuple(box.size), tuple(edge[1]), tuple(edge[0]))
                if cls is None and tuple(edge[0]) == tuple(edge[1]):
                    cls = "no-direction"
                if cls is not None:
                    return "snap:oblique-" + cls
                if near_corner_ray(tuple(box.pos), tuple(box.size), tuple(edge[1]), tuple(edge[0]), 1e-9):
                    return "snap:oblique-corner-rounding"
        return None

    def check_end(style, box, pts, idx, what, replay):
        pt = pts[idx]
        pos, size = tuple(box.pos), tuple(box.size)
        if not finite(pt[0], pt[1]):
            key = f"edge-snap:{style}:non-finite"
        elif style == "tree":
            ok = abs(pt[1] - pos[1]) <= EPS or abs(pt[1] - (pos[1] + size[1])) <= EPS
            key = None if ok else ("snap:tree-source-equals-point" if replay.get("zero_direction") else
                                   "edge-snap:tree-end-x-differs" if replay.get("x_differs") else "edge-snap:tree:off-side")
        else:
            key = None if on_outline(pt, pos, size) else f"edge-snap:{style}:off-outline"
        if key:
            classes[key] = classes.get(key, 0) + 1
            chk.violation(key, f"{what}: end {tuple(pt)} is not on the {'top/bottom side' if style == 'tree' else 'outline'} of Box({pos},{size})", replay)

    def coord():
        return rng.randint(-40, 120) / rng.choice((1, 1, 2, 4))

    for k in range(4000 if quick else 60000):
        style = STYLES[k % 3]
        port = rng.random() < 0.4
        pos = (rng.randint(0, 60), rng.randint(0, 60))
        size = (10, 10) if port else (rng.randint(1, 50), rng.randint(1, 50))
        box = D.Box(pos, size, port=port)
        npts = rng.randint(2, 4)
        pts = [D.Vector2D(coord(), coord()) for _ in range(npts)]
        if style != "oblique" and rng.random() < 0.7:     # mostly axis-parallel polylines for these styles
            for j in range(1, npts):
                pts[j] = D.Vector2D(pts[j - 1].x, pts[j].y) if (j + k) % 2 else D.Vector2D(pts[j].x, pts[j - 1].y)
        target_end = rng.random() < 0.5
        i, nxt = (-1, -2) if target_end else (0, 1)
        if rng.random() < 0.5:       # end stored somewhere inside / on the box, as Capella does
            pts[i] = D.Vector2D(pos[0] + size[0] * rng.choice((0, 0.25, 0.5, 1)), pos[1] + size[1] * rng.choice((0, 0.5, 0.75, 1)))
        before = [tuple(q) for q in pts]
        replay = {"call": "_edge_factories.snaptarget", "style": style, "box": [pos, size], "port": port,
                  "points": before, "end": "target" if target_end else "source"}
        n["snaptarget"] += 1
        chk.note_case(("edge-end", style, port, pos, size, tuple(before), target_end))
        try:
            EF.snaptarget(pts, i, nxt, box, routingstyle={"oblique": None, "manhattan": "manhattan", "tree": "tree"}[style])
            if style != "oblique":     # the points that replace the end, from the neighbour's side outwards
                grown = len(pts) - len(before)
                repl = pts[len(before) - 1:] if target_end else list(reversed(pts[: grown + 1]))
                snap_cases.append(([[STYLES.index(style), bval(box), vv(before[i]), vv(before[nxt])], [vv(q) for q in repl]], True))
        except Exception as e:  # noqa: BLE001
            if style != "oblique":
                snap_cases.append(([[STYLES.index(style), bval(box), vv(before[i]), vv(before[nxt])], err_of(e)], True))
            key = classify(e) or f"edge-snap:{style}:raises-{type(e).__name__}"
            classes[key] = classes.get(key, 0) + 1
            chk.violation(key, f"snaptarget({before}, {i}, {nxt}, Box({pos},{size},port={port}), {style}) raises {type(e).__name__}: {str(e)[:120]}", replay)
            continue
        if style == "tree":
            # the stored end's x differs from where the tree snap puts it (only possible for ports)
            replay["x_differs"] = port and abs(before[i][0] - (pos[0] + size[0] / 2)) > 1e-9
            replay["zero_direction"] = before[i] == before[nxt]
        check_end(style, box, pts, -1 if target_end else 0, f"snaptarget({before}, {i}, {nxt}, Box({pos},{size},port={port}), {style})", replay)

    # default routes between two boxes, then both ends snapped as generic_factory does
    routes = {"oblique": EF.route_oblique, "manhattan": EF.route_manhattan, "tree": EF.route_tree}
    for k in range(1500 if quick else 20000):
        style = STYLES[k % 3]
        def mk():
            port = rng.random() < 0.3
            return D.Box((rng.randint(-50, 150), rng.randint(-50, 150)), (10, 10) if port else (rng.randint(2, 60), rng.randint(2, 60)), port=port)
        a, b = mk(), mk()
        replay = {"call": f"_edge_factories.route_{style} + snaptarget", "source": [tuple(a.pos), tuple(a.size), a.port],
                  "target": [tuple(b.pos), tuple(b.size), b.port], "style": style}
        n["routes"] += 1
        chk.note_case(("route", style, replay["source"], replay["target"]))
        rs = {"oblique": None, "manhattan": "manhattan", "tree": "tree"}[style]
        try:
            pts = list(routes[style](a, b))
            if style != "oblique":
                route_cases.append(([[STYLES.index(style) - 1, bval(a), bval(b)], [vv(q) for q in pts]], True))
            EF.snaptarget(pts, -1, -2, b, routingstyle=rs)
            EF.snaptarget(pts, 0, 1, a, routingstyle=rs)
        except Exception as e:  # noqa: BLE001
            key = classify(e) or f"edge-route:{style}:raises-{type(e).__name__}"
            classes[key] = classes.get(key, 0) + 1
            chk.violation(key, f"route_{style} + snaptarget between Box{replay['source']} and Box{replay['target']} raises {type(e).__name__}: {str(e)[:120]}", replay)
            continue
        replay["points"] = [tuple(q) for q in pts]
        check_end(style, b, pts, -1, f"route_{style} {replay['source']} -> {replay['target']} (target end)", dict(replay, x_differs=False))
        check_end(style, a, pts, 0, f"route_{style} {replay['source']} -> {replay['target']} (source end)", dict(replay, x_differs=False))
    chk.coverage["edge_ends"] = dict(n, failure_classes=classes, model_cases={"edge_snap": len(snap_cases), "route": len(route_cases)})
    chk.correspond(IMPORTS_E, "w_edge_snap", snap_cases, tag="C17_esnap", shard=1500,
                   describe=lambda i: {"[style(1 manhattan, 2 tree), box, end point, neighbour], replacement points outwards": snap_cases[i][0]})
    chk.correspond(IMPORTS_E, "w_route", route_cases, tag="C17_route", shard=1500,
                   describe=lambda i: {"[0 route_manhattan / 1 route_tree, source box, target box], points": route_cases[i][0]})


def replay(chk: lib.Check, path: str):
    """re-run one recorded call on the implementation and report it again if it still fails"""
    import json
    from capellambse import diagram as D
    from capellambse.aird import _edge_factories as EF
    rec = json.loads(pathlib.Path(path).read_text())
    rp = rec.get("replay", {})
    call = rp.get("call")
    if call == "Box.vector_snap":
        RS = {"oblique": D.RoutingStyle.OBLIQUE, "manhattan": D.RoutingStyle.MANHATTAN, "tree": D.RoutingStyle.TREE}
        try:
            r = D.Box(rp["pos"], rp["size"], port=rp["port"]).vector_snap(rp["point"], source=rp["source"], style=RS[rp["style"]])
        except Exception as e:  # noqa: BLE001
            r = err_of(e)
        bad = snap_expectation(rp["style"], rp["port"], rp["pos"], rp["size"], rp["point"], rp["source"], r, exact=True)
        print(f"replay: Box({rp['pos']},{rp['size']},port={rp['port']}).vector_snap({rp['point']}, source={rp['source']}, style={rp['style']}) -> {r!r}")
        if bad:
            chk.violation(bad[0], bad[1], rp)
    elif call == "_edge_factories.snaptarget":
        pts = [D.Vector2D(*q) for q in rp["points"]]
        i, nxt = (-1, -2) if rp["end"] == "target" else (0, 1)
        box = D.Box(rp["box"][0], rp["box"][1], port=rp["port"])
        try:
            EF.snaptarget(pts, i, nxt, box, routingstyle={"oblique": None, "manhattan": "manhattan", "tree": "tree"}[rp["style"]])
            print(f"replay: snaptarget -> {[tuple(q) for q in pts]}")
            pt = pts[-1 if rp["end"] == "target" else 0]
            ok = (abs(pt[1] - box.pos.y) <= EPS or abs(pt[1] - (box.pos.y + box.size.y)) <= EPS) if rp["style"] == "tree" else on_outline(pt, tuple(box.pos), tuple(box.size))
            if not ok:
                chk.violation(rec.get("key", "replay"), f"end {tuple(pt)} not on the outline", rp)
        except Exception as e:  # noqa: BLE001
            print(f"replay: snaptarget raises {type(e).__name__}: {e}")
            chk.violation(rec.get("key", "replay"), f"raises {type(e).__name__}", rp)
    else:
        print("replay: this record is re-checked by a full run (diagram / correspondence records carry model, diagram and vector)")


def run(chk: lib.Check):
    logging.disable(logging.CRITICAL)      # the parser warns about every skipped element
    if getattr(chk, "replay_file", None):
        replay(chk, chk.replay_file)
        return
    chk.prove()
    run_snapping(chk)
    run_primitives(chk)
    run_edge_ends(chk)
    run_diagrams(chk)
    quick = chk.tier == "quick"
    chk.coverage["rule"] = (
        "snapping: design lattice (box corner {0,1}^2, size {1..4}^2, point and source {-2..6}^2, 3 styles, port/non-port; "
        + ("1/40 slice" if quick else "exhaustive, 2.5M calls") + " on the implementation oracle, a seeded sample of it through the Coq model), "
        "all lattice boxes x points with source = point exhaustively, a degenerate-size stream, dyadic and arbitrary-float random cases, "
        "translation of exact cases by random integer vectors in [-5000,5000]^2; primitives: line_intersect / closestaxis / snap_to_parent "
        "(port, non-port) / calculate_viewport model vs implementation; edge ends: snaptarget and route_* on synthetic boxes and polylines; "
        "diagrams: every diagram of " + ("the 5_2 test model" if quick else "every model under tests/data") + " parsed, checked for soundness, "
        "re-parsed after translating the stored .aird layout (one random or extreme vector per diagram and round), after translating it by "
        "vectors derived from the diagram's own geometry (offset = -feature + d: the origin on, within 1 of and 2..7 pixels beside parsed and "
        "stored edge ends, bend points, box corners, box centres, port positions, label positions; a feature on x = 0 or y = 0 only; +-1e6; "
        "whole diagram in the negative quadrant / negative in one coordinate / centred on the origin; every diagram gets the global vectors and "
        ">= 16 origin-at-an-edge-end vectors, the rest is a seeded round-robin sample over (feature kind, mode), "
        + ("4500" if quick else "15000") + " parses per model; tolerance 1e-6, growing linearly with offsets beyond 5000), after moving one "
        "top-level node per diagram and round by a random vector, and after moving single top-level nodes by offsets derived from the stored "
        "geometry (every 'edge ends coincide' offset of every edge that leaves a top-level node, a seeded sample of the other classes: end on "
        "bend point / box corner, box corners, sides and centres coinciding, segment vectors, corners of top-level boxes; "
        + ("up to 9000 per model" if quick else "up to 15000 per model") + "); non-trivial = distinct call / diagram / (diagram, vector)")
    chk.coverage["exhaustive"] = not quick
    chk.assumptions += [
        "Model/Geom.v is over exact rationals: implementation floats are converted exactly (fractions.Fraction) and results compared within 1e-6; "
        "math.isclose(x, 0.0) is modelled as x == 0 and the atan2 comparisons of __vector_snap_closest as sign tests (both sampled by the correspondence)",
        "box sizes in the model are those seen through Box.size of a label-less, child-less box (clamped to >= 0); auto-sizing from labels/children "
        "(PIL text extents) is outside the model",
        "whole-diagram claims (soundness of every corpus diagram, translation of the stored layout, moving one node) are decided per instance by "
        "the oracle on the implementation, not proved; _edge_factories.snap_oblique/snap_manhattan/snap_tree and route_* are covered by the oracle only",
        "translations by more than 5000 are compared with the tolerance 1e-6 * |offset| / 5000 (2e-4 at 1e6): the determinant formula of "
        "line_intersect on absolute coordinates loses about 2.5e-5 px there (measured maximum in coverage.diagrams.max_deviation_large_offsets)",
        "the oracle reads the .aird with lxml, classifies crashes by the innermost traceback frame and exact Fraction arithmetic, and shares no code with capellambse",
    ]


if __name__ == "__main__":
    lib.main("C17", run)
