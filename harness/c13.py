"""C13 — Declarative sync is idempotent; instruction documents survive dump and load.

(a) generated sync documents (find by name [+ type hint, + further attributes], set, nested sync) are
    applied twice by the real `decl.apply`; the object tree below the instruction's parent after the first
    and after the second run is compared with `Model/DeclSync.v: w_sync2`; independent oracle: the serialised
    XML of every tree after run 2 equals that after run 1 byte for byte.
(a') sync lists of every length 1..4 in which EACH position in turn holds an entry that has to wait for a promise declared
    later (in a `set` value, in a find key, in nested sync one and two levels down, in nested extend; declared by a later
    instruction, by a later entry of the enclosing list, or - control - earlier), mixed with entries that match existing
    objects and entries that create; oracle on the raw XML: after run 1 every entry's object exists exactly once and the
    waiting one refers to the promised object, run 2 raises nothing and changes nothing (`promise_matrix`).
(b) generated instruction streams / metadata blocks: the node graph of YDMDumper, the constructor of
    YDMLoader on composed nodes (also malformed ones) and the document layout are compared with
    `Model/DeclYaml.v`; oracle: load(dump(x)) == x.
"""
from __future__ import annotations

import copy
import io
import logging
import pathlib
import sys

sys.path.insert(0, str(pathlib.Path(__file__).resolve().parent))
import lib
from lib import Err, err_of
from c12 import canon_tree           # raw-lxml UUID-free canonical form (no capellambse code)

MODELS = {
    "empty52": "tests/data/decl/empty_project_52/empty_project_52.aird",
    "melody52": "tests/data/melodymodel/5_2/Melody Model Test.aird",
    "melody60": "tests/data/melodymodel/6_0/Melody Model Test.aird",
    "melody50": "tests/data/melodymodel/5_0/Melody Model Test.aird",
}
# type -> list attribute -> child type
LISTS = {
    "F": {"functions": "F", "inputs": "IP", "outputs": "OP"},
    "C": {"components": "C"},
    "PK": {"packages": "PK", "classes": "K"},
    "K": {"owned_properties": "PR"},
    "IP": {}, "OP": {}, "PR": {},
}
TYPEHINT = {"F": "LogicalFunction", "IP": "FunctionInputPort", "OP": "FunctionOutputPort",
            "C": "LogicalComponent", "PK": "DataPkg", "K": "Class", "PR": "Property"}
AKEYS = ["name", "description", "summary"]
# reference-valued attributes that can serve as find keys.  The sync model's attribute values are strings; a reference
# is injected as NUL + UUID of its target (no string attribute read from XML can start with NUL), None as ""
RKEYS = {"K": ["super"], "PR": ["type"]}
OKEYS = AKEYS + ["super", "type"]
REFMARK = "\x00"
LKEYS = sorted({a for t in LISTS.values() for a in t})
NASTY = ["plain", "a'b", 'a"b', "a: b", "!x", "- y", "# z", "a\nb", "a\tb", " lead", "trail ", "é", "日本", "\U0001F600",
         "<b>", "a&b", "null", "true", "~", "1", "1.5", "0o7", "2001-01-01", "=", "<<", "\\", "%", "@", "`", "{", "[", "]",
         ",", "?", "|", ">", "*", "&", "x" * 90, "a  b", "yes", "No", "\x7f", " ", "\x85", "é", "﻿"]
PLAIN = ["alpha", "be ta", "gamma 3", "d-e", "x_y", "Q"]


class Base:
    def __init__(self, tag):
        import capellambse
        self.tag = tag
        self.path = str(lib.REPO / MODELS[tag])
        m = capellambse.MelodyModel(self.path)
        self.roots = {"F": m.la.root_function.uuid, "C": m.la.root_component.uuid, "PK": m.la.data_package.uuid}
        self.ids = {el.get("id") for tr in m._loader.trees.values() for el in tr.root.iter()
                    if isinstance(el.tag, str) and el.get("id")}

    def load(self):
        import capellambse
        return capellambse.MelodyModel(self.path)


def extract(obj, typ, depth=8):
    """the part of the model the sync model talks about: string attributes and the schema's child lists"""
    attrs = [[k, str(getattr(obj, k) or "")] for k in AKEYS]
    for k in RKEYS.get(typ, []):
        tgt = getattr(obj, k)
        attrs.append([k, REFMARK + tgt.uuid if tgt is not None else ""])
    kids = []
    if depth:
        for a, ct in LISTS[typ].items():
            kids.append([a, [extract(x, ct, depth - 1) for x in getattr(obj, a)]])
    return [attrs, kids]


def observe(tree):
    attrs = dict((k, v) for k, v in tree[0])
    kids = dict((a, l) for a, l in tree[1])
    return [[attrs.get(k, "") for k in OKEYS], [[observe(x) for x in kids.get(a, [])] for a in LKEYS]]


def tsize(tree):
    return 1 + sum(tsize(x) for _, l in tree[1] for x in l)


def xml_snapshot(model):
    from lxml import etree
    return [(str(k), etree.tostring(tr.root)) for k, tr in sorted(model._loader.trees.items(), key=lambda kv: str(kv[0]))]


# ------------------------------------------------------------------ (a) sync documents
def setup_state(rng, parent, typ, pool, stats):
    """pre-existing content created through the API before the document is applied: siblings that share a name (a find
    key then matches several objects), that differ in description / summary only, children, classes to refer to"""
    names = [rng.choice(pool) + rng.choice(["", str(rng.randint(0, 3))]) for _ in range(2)]
    for a, ct in LISTS[typ].items():
        for _ in range(rng.choice([0, 0, 1, 2, 2, 3])):
            kw = {"name": rng.choice(names)}
            if rng.random() < 0.4:
                kw["description"] = rng.choice(PLAIN)
            if rng.random() < 0.3:
                kw["summary"] = rng.choice(PLAIN)
            o = getattr(parent, a).create(**kw)
            stats["setup_objects"] += 1
            for a2, _ct2 in LISTS[ct].items():
                for _ in range(rng.choice([0, 0, 0, 1, 2])):
                    getattr(o, a2).create(name=rng.choice(names))
                    stats["setup_objects"] += 1
    if typ == "PK" and rng.random() < 0.7:
        for i in range(rng.randint(1, 2)):
            parent.classes.create(name="tgt%d %s" % (i, rng.choice(PLAIN)))
            stats["setup_objects"] += 1


def ref_targets(model):
    """classes a reference-valued find key / set value can point at: (uuid, name, unique by type and name)"""
    ks = list(model.search("Class"))
    names = [k.name for k in ks]
    return [(k.uuid, k.name, bool(k.name) and names.count(k.name) == 1) for k in ks[:8]]


class RefPH:
    """placeholder of a reference value; written as !uuid or !find once the whole document is known"""
    def __init__(self, tgt):
        self.tgt = tgt


def ref_value(rng, tgt, stats):
    """(yaml value, model value) of a reference to a target class"""
    return RefPH(tgt), REFMARK + tgt[0]


def settle_refs(rng, y, class_names, stats):
    """replace the placeholders: !find {_type: Class, name} only where the match set cannot change (find_stable): the
    name is unique among the classes of the model and no class entry of the document carries it; else !uuid"""
    from capellambse import decl
    if isinstance(y, RefPH):
        u, name, uniq = y.tgt
        if uniq and name not in class_names and rng.random() < 0.5:
            stats["ref_as_find"] += 1
            return decl.FindBy({"_type": "Class", "name": name})
        stats["ref_as_uuid"] += 1
        return decl.UUIDReference(u)
    if isinstance(y, dict):
        return {k: settle_refs(rng, v, class_names, stats) for k, v in y.items()}
    if isinstance(y, list):
        return [settle_refs(rng, v, class_names, stats) for v in y]
    return y


def class_entry_names(y, out):
    if isinstance(y, dict):
        for k, v in y.items():
            if k == "classes" and isinstance(v, list):
                for e in v:
                    out.add(e["find"]["name"])
            class_entry_names(v, out)
    elif isinstance(y, list):
        for v in y:
            class_entry_names(v, out)
    return out


def n_matching(find, siblings):
    return sum(1 for x in siblings if all(dict(map(tuple, x[0])).get(k, "") == v for k, v in find))


def gen_groups(rng, typ, tree, depth, names_pool, stats, targets):
    """sync groups for an object of type `typ` whose current content is `tree`; returns (yaml dict, val).
    The find keys of an entry are chosen relative to the existing siblings so that they match none, exactly one or
    several of them; their values are scalars, !uuid references or !find directives."""
    ydict, val = {}, []
    attrs = list(LISTS[typ])
    rng.shuffle(attrs)
    for a in attrs[: rng.randint(1, len(attrs))] if attrs else []:
        ct = LISTS[typ][a]
        existing = dict(tree[1]).get(a, []) if tree else []
        ex_names = [dict(map(tuple, x[0]))["name"] for x in existing]
        used = set()
        entries_y, entries_v = [], []
        for _ in range(rng.randint(1, 3)):
            keys = ["description", "summary"]
            rng.shuffle(keys)
            find = []
            sub = None
            r = rng.random()
            if existing and r < 0.5:
                # aim at an existing object: by its name alone, or by its name and further attributes as they are
                sub = rng.choice(existing)
                sa = dict(map(tuple, sub[0]))
                name = sa["name"]
                if not name:
                    continue
                find.append(("name", name))
                for k in list(keys):
                    if rng.random() < 0.25 and sa.get(k, "") not in ("",) and not any(c in sa[k] for c in "&<>\"'"):
                        find.append((k, sa[k]))
                        keys.remove(k)
                for k in RKEYS.get(ct, []):
                    if sa.get(k) and rng.random() < 0.5:
                        find.append((k, sa[k]))
            else:
                name = rng.choice(names_pool) + rng.choice(["", "", str(rng.randint(0, 9))])
                find.append(("name", name))
                if rng.random() < 0.35:
                    k = keys.pop()
                    find.append((k, rng.choice(PLAIN if k == "description" else PLAIN + NASTY[:20])))
                    stats["extra_find_key"] += 1
            # the same name twice in one list is allowed now and then (find keys that overlap inside the document)
            if name in used and rng.random() < 0.8:
                continue
            used.add(name)
            # reference-valued find key on a fresh target
            refs_y = {}
            for k in RKEYS.get(ct, []):
                if targets and not any(k == k2 for k2, _ in find) and rng.random() < 0.45:
                    yv, mv = ref_value(rng, rng.choice(targets), stats)
                    find.append((k, mv))
                    refs_y[k] = yv
                    stats["ref_find_key"] += 1
            nm = n_matching(find, existing)
            stats["match_" + ("0" if nm == 0 else "1" if nm == 1 else "many")] += 1
            sub = next(x for x in existing if n_matching(find, [x])) if nm == 1 else None
            tgt_by_mark = {REFMARK + t[0]: t for t in targets}
            fy = {}
            for k, v in find:
                if k in refs_y:
                    fy[k] = refs_y[k]
                elif v.startswith(REFMARK):
                    fy[k] = RefPH(tgt_by_mark.get(v) or (v[1:], None, False))
                    stats["ref_find_key"] += 1
                else:
                    fy[k] = v
            if rng.random() < 0.3:
                fy["_type"] = TYPEHINT[ct]
                stats["type_hint"] += 1
            sets, sets_y = [], {}
            for k in keys:
                if rng.random() < 0.5:
                    v = rng.choice(PLAIN) + str(rng.randint(0, 9))
                    sets.append((k, v))
                    sets_y[k] = v
            if ct == "PR" and targets and not any(k == "type" for k, _ in find) and rng.random() < 0.4:
                yv, mv = ref_value(rng, rng.choice(targets), stats)      # `type` is a plain attribute: exact idempotence
                sets.append(("type", mv))
                sets_y["type"] = yv
                stats["ref_set_value"] += 1
            e_y = {"find": fy}
            if sets:
                e_y["set"] = sets_y
            nested_v = []
            if depth and LISTS[ct] and rng.random() < 0.55:
                ny, nested_v = gen_groups(rng, ct, sub, depth - 1, names_pool, stats, targets)
                if ny:
                    e_y["sync"] = ny
                    stats["nested"] += 1
            entries_y.append(e_y)
            entries_v.append([[list(p) for p in find], [list(p) for p in sets], nested_v])
        if entries_y:
            ydict[a] = entries_y
            val.append([a, entries_v])
    return ydict, val


def wf_val(groups) -> bool:
    """find_keys_stable of the model (wf_groups), recomputed on the encoded document"""
    seen_attr = set()
    for a, entries in groups:
        if a in seen_attr:
            return False
        seen_attr.add(a)
        names = []
        for find, sets, nested in entries:
            fk, sk = [k for k, _ in find], [k for k, _ in sets]
            if "name" not in fk or len(set(fk)) != len(fk) or len(set(sk)) != len(sk) or set(fk) & set(sk):
                return False
            names.append(dict(map(tuple, find))["name"])
            if not wf_val(nested):
                return False
        if len(set(names)) != len(names):
            return False
    return True


def apply_twice(base, typ, ydoc, model=None):
    """returns ([tree1, tree2] or error markers, xml snapshots, text)"""
    import yaml
    from capellambse import decl
    text = yaml.dump(ydoc, Dumper=decl.YDMDumper, sort_keys=False)
    if model is None:
        model = base.load()
    parent = model.by_uuid(base.roots[typ])
    t0 = extract(parent, typ)
    trees, snaps = [], []
    for _ in range(2):
        try:
            decl.apply(model, io.StringIO(text))
        except BaseException as e:  # noqa: BLE001
            if isinstance(e, (KeyboardInterrupt, SystemExit)):
                raise
            trees.append(err_of(e))
            snaps.append(repr(e)[:200])
            break
        trees.append(extract(parent, typ))
        snaps.append(xml_snapshot(model))
    return t0, trees, snaps, text


# ------------------------------------------------------------------ (a') entries that have to wait, in every position
# level of the list under test -> the ways one of its entries can have to wait for a promise
PM_KINDS = {
    "props": ["set", "find"],                                   # owned_properties of a class (nested sync)
    "classes": ["find", "set-link", "nested-set", "nested-find", "nested-extend"],      # classes of a package
    "packages": ["nested2-set", "nested2-find"],                # packages of a package; the waiting value is two levels down
}
PM_DECLS = ["later-instruction", "later-enclosing-list", "earlier-instruction"]
PM_LP = [(L, p) for L in (1, 2, 3, 4) for p in range(L)]


def pm_combos():
    for level, kinds in PM_KINDS.items():
        for kind in kinds:
            for L, p in PM_LP:
                for decl_at in PM_DECLS:
                    for wait_exists in (False, True):
                        yield level, kind, L, p, decl_at, wait_exists


def pm_find_el(model, uuid):
    for tr in model._loader.trees.values():
        for el in tr.root.iter():
            if isinstance(el.tag, str) and el.get("id") == uuid:
                return el
    raise LookupError(uuid)


def pm_count(el, path):
    """elements reached from `el` by a path of `name` attribute values (raw lxml; children of any tag)"""
    els = [el]
    for name in path:
        els = [c for e in els for c in e if isinstance(c.tag, str) and c.get("name") == name]
    return els


def pm_canon(el, base_ids):
    """serialised subtree with every id that is not in the base model replaced by its order of first appearance"""
    import re
    from lxml import etree
    text = etree.tostring(el).decode("utf-8")
    new = []
    for i in re.findall(r'\bid="([^"]+)"', text):
        if i not in base_ids and i not in new:
            new.append(i)
    for n, i in enumerate(new):
        text = text.replace(i, "NEW%d" % n)
    return text


def pm_bag(el, base_ids):
    """the elements below `el` as a sorted bag of (tag, attributes) with every id that is not in the base model blanked"""
    import re
    out = []
    for x in el.iter():
        if isinstance(x.tag, str):
            out.append((x.tag, sorted((k, re.sub(r"[0-9a-f]{8}-[0-9a-f-]{27}", lambda m_: m_.group(0) if m_.group(0) in base_ids else "NEW", v))
                                      for k, v in x.attrib.items())))
    return sorted(out)


def pm_case(rng, model, base, idx, level, kind, L, p, decl_at, wait_exists, stats):
    """One document: a sync list of length L whose entry p has to wait for a promise (declared where `decl_at` says);
    the other entries match an object that exists or describe a new one.  Everything lives in a fresh package, so many
    documents can use one loaded model.  Returns (yaml document, expectation, sandbox uuid); the expectation is a list of
    (path of names below the sandbox, 'sync' | 'extend', must refer to the promised object)."""
    from capellambse import decl
    root = model.by_uuid(base.roots["PK"])
    sandbox = root.packages.create(name="pm%d" % idx)
    pre = rng.choice(["", "", rng.choice(NASTY[:40]) + " "])
    nm = lambda i: "%se%d" % (pre, i)           # noqa: E731
    tname, kname = pre + "T", pre + "K"
    prom = decl.Promise("pT%d" % idx)
    # an existing object can only match a find key on a reference if the promised object exists as well
    t_exists = rng.random() < 0.4 or (kind == "find" and wait_exists)
    t_in_tp = level == "packages" and decl_at == "later-enclosing-list"     # declared below a package entry of the list
    tobj = None
    if t_exists:
        tobj = (sandbox.packages.create(name=pre + "TP") if t_in_tp else sandbox).classes.create(name=tname)
    stats["promised_object_" + ("exists" if t_exists else "new")] += 1
    modes = [rng.choice(["match", "create", "create+set"]) for _ in range(L)]
    modes[p] = "wait-existing" if wait_exists else "wait-new"
    extra_wait = None
    if L > 1 and rng.random() < 0.25:             # now and then a second entry of the list waits as well
        extra_wait = rng.choice([i for i in range(L) if i != p])
        modes[extra_wait] = "wait-new"
        stats["two_waiting_entries"] += 1
    container = sandbox                              # the object that owns the list under test
    k_exists = True
    if level == "props":
        k_exists = wait_exists or rng.random() < 0.6
        if k_exists:
            container = sandbox.classes.create(name=kname)
        else:
            modes = [m if m.startswith("wait") else m.replace("match", "create") for m in modes]
    attr = {"props": "owned_properties", "classes": "classes", "packages": "packages"}[level]
    expect, entries = [], []
    prefix = [kname] if level == "props" else []

    def waiting_entry(i, exists):
        e = {"find": {"name": nm(i)}}
        obj = getattr(container, attr).create(name=nm(i)) if exists else None
        ref_path = prefix + [nm(i)]
        if kind == "set":
            e["set"] = {"type": prom}
        elif kind == "find":
            e["find"]["super" if level == "classes" else "type"] = prom
            if obj is not None:
                setattr(obj, "super" if level == "classes" else "type", tobj)
        elif kind == "set-link":
            e["set"] = {"super": prom}
        elif kind in ("nested-set", "nested-find"):
            sub = {"find": {"name": "q"}}
            if kind == "nested-set":
                sub["set"] = {"type": prom}
            else:
                sub["find"]["type"] = prom
            e["sync"] = {"owned_properties": [{"find": {"name": "q0"}}, sub, {"find": {"name": "q2"}}]}
            expect.extend((prefix + [nm(i), q], "sync", False) for q in ("q0", "q2"))
            ref_path = prefix + [nm(i), "q"]
        elif kind == "nested-extend":
            e["extend"] = {"owned_properties": [{"name": "q", "type": prom}]}
            expect.append((prefix + [nm(i), "q"], "extend", True))
            ref_path = None
        elif kind in ("nested2-set", "nested2-find"):
            sub = {"find": {"name": "q"}}
            if kind == "nested2-set":
                sub["set"] = {"type": prom}
            else:
                sub["find"]["type"] = prom
            e["sync"] = {"classes": [{"find": {"name": "k"}, "sync": {"owned_properties": [sub, {"find": {"name": "q2"}}]}},
                                     {"find": {"name": "k2"}}]}
            expect.extend((prefix + [nm(i)] + x, "sync", False) for x in (["k"], ["k", "q2"], ["k2"]))
            ref_path = prefix + [nm(i), "k", "q"]
        else:
            raise AssertionError(kind)
        expect.append((prefix + [nm(i)], "sync", False))
        if ref_path is not None:
            expect.append((ref_path, "sync", True))
        return e

    for i, mode in enumerate(modes):
        if mode.startswith("wait"):
            entries.append(waiting_entry(i, mode == "wait-existing"))
            continue
        e = {"find": {"name": nm(i)}}
        if mode == "match":
            getattr(container, attr).create(name=nm(i))
        if mode == "create+set":
            e["set"] = {"summary": "s%d" % i}
        if rng.random() < 0.2:
            e["find"]["_type"] = TYPEHINT[{"props": "PR", "classes": "K", "packages": "PK"}[level]]
        expect.append((prefix + [nm(i)], "sync", False))
        stats["other_entry_" + mode] += 1
        entries.append(e)
    t_entry = {"find": {"name": tname}, "promise_id": prom.identifier}
    t_path = [tname]
    parent = decl.UUIDReference(sandbox.uuid)
    t_ins = {"parent": parent, "sync": {"classes": [t_entry]}}
    if level == "props":
        klist = [{"find": {"name": kname}, "sync": {attr: entries}}]
        if decl_at == "later-enclosing-list":
            klist.append(t_entry)
        main = {"parent": parent, "sync": {"classes": klist}}
        expect.append(([kname], "sync", False))
    elif level == "classes":
        if decl_at == "later-enclosing-list":
            entries.append(t_entry)                 # the promise is declared by a later entry of the list under test itself
        main = {"parent": parent, "sync": {"classes": entries}}
    else:
        if decl_at == "later-enclosing-list":
            entries.append({"find": {"name": pre + "TP"}, "sync": {"classes": [t_entry]}})
            t_path = [pre + "TP", tname]
            expect.append(([pre + "TP"], "sync", False))
        main = {"parent": parent, "sync": {"packages": entries}}
    doc = [main]
    if decl_at == "later-instruction":
        doc = [main, t_ins]
    elif decl_at == "earlier-instruction":
        doc = [t_ins, main]
    expect.append((t_path, "sync", False))
    return doc, expect, sandbox.uuid, t_path


# ------------------------------------------------------------------ (a'') promises INSIDE find directives
NF_COMBOS = [(level, where, depth, nested, decl_at, exists, L, p)
             for level in ("props", "classes") for where in ("set", "find") for depth in (1, 2, 3) for nested in (False, True)
             for decl_at in PM_DECLS for exists in (False, True) for L, p in ((1, 0), (3, 0), (3, 1), (3, 2))
             if not (where == "find" and exists)]


def nested_find_matrix(chk, model, base, tag, todo, stats):
    """A sync entry whose `set` value or find key is a !find directive that CONTAINS a promise `depth` levels down
    (`!find {name: T, parent: !find {name: P2, parent: !promise p1}}`): the promised package chain P1 > .. > Pd > T is
    declared by a later instruction / later in the same instruction / earlier; the entry is new or exists, carries a nested
    sync or not, and sits at every position of its list.  Oracle on the raw XML as in the waiting-entry matrix."""
    import yaml
    from lxml import etree
    from capellambse import decl
    rng = chk.rng
    for idx, (level, where, depth, nested, decl_at, exists, L, p) in enumerate(todo):
        root = model.by_uuid(base.roots["PK"])
        sandbox = root.packages.create(name="nf%d" % idx)
        pre = rng.choice(["", "", rng.choice(NASTY[:40]) + " "])
        pnames = [pre + "P%d" % k for k in range(1, depth + 1)]
        tname, kname = pre + "T", pre + "K"
        prom = decl.Promise("nfP%d" % idx)
        # pre-existing part of the promised chain: nothing, some packages, or everything including T
        n_pre = rng.choice([0, 0, rng.randint(0, depth), depth + 1])
        holder = sandbox
        for k in range(min(n_pre, depth)):
            holder = holder.packages.create(name=pnames[k])
        if n_pre == depth + 1:
            holder.classes.create(name=tname)
        stats["chain_preexisting_%s" % ("none" if n_pre == 0 else "all" if n_pre > depth else "part")] += 1
        directive = prom
        for k in range(depth):
            fb = {"name": pnames[k + 1] if k + 1 < depth else tname, "parent": directive}
            if rng.random() < 0.95:         # an untyped !find scans every object of the model: keep those few
                fb["_type"] = "DataPkg" if k + 1 < depth else "Class"
            if rng.random() < 0.5:
                fb = dict(reversed(list(fb.items())))
            directive = decl.FindBy(fb)
        container, prefix = sandbox, []
        attr, refattr, sublist = "classes", "super", "owned_properties"
        if level == "props":
            attr, refattr, sublist = "owned_properties", "type", "constraints"
            prefix = [kname]
            if exists or rng.random() < 0.5:
                container = sandbox.classes.create(name=kname)
            else:
                container = None
        expect, entries = [], []
        for i in range(L):
            nm = "%se%d" % (pre, i)
            e = {"find": {"name": nm}}
            expect.append((prefix + [nm], False))
            if i == p:
                if exists:
                    getattr(container, attr).create(name=nm)
                if where == "set":
                    e["set"] = {refattr: directive}
                else:
                    e["find"][refattr] = directive
                expect.append((prefix + [nm], True))
                if nested:
                    e["sync"] = {sublist: [{"find": {"name": "n0"}}, {"find": {"name": "n1"}, "set": {"description": "d"}}]}
                    expect += [(prefix + [nm, "n0"], False), (prefix + [nm, "n1"], False)]
            else:
                mode = rng.choice(["match", "create", "create+set"])
                if mode == "match" and container is not None:
                    getattr(container, attr).create(name=nm)
                if mode == "create+set":
                    e["set"] = {"summary": "s%d" % i}
            entries.append(e)
        chain = {"find": {"name": tname}}
        for k in reversed(range(depth)):
            chain = {"find": {"name": pnames[k]}, "sync": {("classes" if k == depth - 1 else "packages"): [chain]}}
            expect.append((pnames[:k + 1], False))
        chain["promise_id"] = prom.identifier
        t_path = pnames + [tname]
        expect.append((t_path, False))
        parent = decl.UUIDReference(sandbox.uuid)
        main_sync = {"classes": entries} if level == "classes" else {"classes": [{"find": {"name": kname}, "sync": {attr: entries}}]}
        if level == "props":
            expect.append(([kname], False))
        if decl_at == "later-enclosing-list":
            doc = [{"parent": parent, "sync": dict(main_sync, packages=[chain])}]
        elif decl_at == "later-instruction":
            doc = [{"parent": parent, "sync": main_sync}, {"parent": parent, "sync": {"packages": [chain]}}]
        else:
            doc = [{"parent": parent, "sync": {"packages": [chain]}}, {"parent": parent, "sync": main_sync}]
        text = yaml.dump(doc, Dumper=decl.YDMDumper, sort_keys=False)
        cfg = f"{level}:{where}:depth{depth}:{'nested-sync' if nested else 'flat'}:{decl_at}:{'existing' if exists else 'new'}:L{L}:p{p}"
        stats["documents"] += 1
        for k_ in (f"{level}/{where}", f"depth{depth}", "nested-sync" if nested else "flat", decl_at):
            stats["by"][k_] = stats["by"].get(k_, 0) + 1
        chk.note_case(("nested-find", tag, cfg, text), nontrivial=True)
        replay = {"model": tag, "yaml": text, "list_under_test": level, "directive_in": where, "promise_depth_inside_find": depth,
                  "entry_has_nested_sync": nested, "promise_declared": decl_at, "waiting_entry_object": "exists" if exists else "new",
                  "preexisting_links_of_promised_chain": n_pre,
                  "note": "apply twice to the model after creating a package below la.data_package and the objects the entries match"}
        sb = pm_find_el(model, sandbox.uuid)
        snaps, bad = [], None
        for run_no in (1, 2):
            try:
                decl.apply(model, io.StringIO(text))
            except BaseException as e:  # noqa: BLE001
                if isinstance(e, (KeyboardInterrupt, SystemExit)):
                    raise
                bad = ("first-run-fails" if run_no == 1 else "second-run-fails", f"application {run_no} raises {e!r:.160}")
                break
            t_els = pm_count(sb, t_path)
            problems = []
            for path, refers in sorted(set((tuple(a), b) for a, b in expect)):
                els = pm_count(sb, path)
                if len(els) != 1:
                    problems.append(f"{'/'.join(path)}: {len(els)} object(s), expected 1")
                elif refers and len(t_els) == 1:
                    tid = t_els[0].get("id")
                    if not any(tid in v for x in els[0].iter() if isinstance(x.tag, str) for v in x.attrib.values()):
                        problems.append(f"{'/'.join(path)}: does not refer to the object the directive names ({tid})")
            if problems:
                bad = (f"run{run_no}-objects", f"after run {run_no}: " + "; ".join(list(dict.fromkeys(problems))[:6]))
                break
            snaps.append((etree.tostring(sb), [sum(1 for _ in tr.root.iter()) for _, tr in
                                               sorted(model._loader.trees.items(), key=lambda kv: str(kv[0]))]))
        if bad is None and snaps[0] != snaps[1]:
            before = etree.fromstring(snaps[0][0])
            if level == "classes" and where == "set" and snaps[0][1] == snaps[1][1] and pm_bag(sb, base.ids) == pm_bag(before, base.ids):
                # the known defect of link-valued `set`: the Generalization is deleted and re-created (fresh UUID, appended last)
                chk.violation("sync-set-link-recreates-element",
                              "re-applying `set` on a link-valued attribute deletes and re-creates the link element with a fresh UUID", replay)
                continue
            if snaps[0][1] == snaps[1][1] and pm_canon(sb, base.ids) == pm_canon(before, base.ids):
                if level == "classes" and where == "set":
                    chk.violation("sync-set-link-recreates-element",
                                  "re-applying `set` on a link-valued attribute deletes and re-creates the link element with a fresh UUID", replay)
                    continue
                bad = ("second-run-new-uuids", "the second application re-creates elements (same content, fresh UUIDs)")
            else:
                bad = ("second-run-differs", f"the second application changes the model (elements per tree {snaps[0][1]} -> {snaps[1][1]})")
        if bad is not None:
            chk.violation(f"sync-promise-inside-find:{bad[0]}:{tag}:{cfg}",
                          f"sync list of {L} entries ({level}) whose entry {p} has a !find directive in its {where} that contains a promise "
                          f"{depth} level(s) down (declared {decl_at}; nested sync: {nested}; the entry's object is "
                          f"{'there' if exists else 'new'}): {bad[1]}", replay)


def promise_matrix(chk, bases, quick):
    """Sync lists of every length 1..4 in which each position in turn holds an entry that has to wait for a promise
    declared later (in a `set` value, in a find key, in nested sync / extend), mixed with entries that match existing
    objects and entries that create.  Oracle (raw XML): after run 1 every entry's object exists exactly once and the
    waiting one refers to the promised object; run 2 raises nothing, leaves the XML below the sandbox byte-identical
    and the number of elements of every tree unchanged (documents with `extend`: every sync entry's object still
    exists exactly once)."""
    import yaml
    from lxml import etree
    from capellambse import decl
    rng = chk.rng
    stats = {"documents": 0, "first_run_errors": 0, "promised_object_exists": 0, "promised_object_new": 0,
             "two_waiting_entries": 0, "other_entry_match": 0, "other_entry_create": 0, "other_entry_create+set": 0,
             "by_level_kind": {}, "by_length_position": {}, "by_declaration": {}, "per_model": {}}
    combos = list(pm_combos())
    nf_stats = {"documents": 0, "combinations": len(NF_COMBOS), "chain_preexisting_none": 0, "chain_preexisting_part": 0,
                "chain_preexisting_all": 0, "by": {}, "per_model": {}}
    for tag, base in bases.items():
        if quick and tag != "empty52":
            todo = rng.sample(combos, 270)
        else:
            todo = combos
        model = base.load()
        stats["per_model"][tag] = len(todo)
        for idx, (level, kind, L, p, decl_at, wait_exists) in enumerate(todo):
            doc, expect, sb_uuid, t_path = pm_case(rng, model, base, idx, level, kind, L, p, decl_at, wait_exists, stats)
            text = yaml.dump(doc, Dumper=decl.YDMDumper, sort_keys=False)
            stats["documents"] += 1
            for k, v in (("by_level_kind", f"{level}/{kind}"), ("by_length_position", f"L{L}p{p}"), ("by_declaration", decl_at)):
                stats[k][v] = stats[k].get(v, 0) + 1
            cfg = f"{level}:{kind}:L{L}:p{p}:{decl_at}:{'existing' if wait_exists else 'new'}"
            chk.note_case(("promise-matrix", tag, cfg, text), nontrivial=True)
            replay = {"model": tag, "yaml": text, "list_under_test": level, "waiting_kind": kind, "length": L, "waiting_position": p,
                      "promise_declared": decl_at, "waiting_entry_object": "exists" if wait_exists else "new",
                      "note": "apply twice to the model after creating a package below la.data_package and the objects the entries match"}
            sb = pm_find_el(model, sb_uuid)
            has_extend = kind == "nested-extend"
            snaps, bad = [], None
            for run_no in (1, 2):
                try:
                    decl.apply(model, io.StringIO(text))
                except BaseException as e:  # noqa: BLE001
                    if isinstance(e, (KeyboardInterrupt, SystemExit)):
                        raise
                    if run_no == 1:
                        stats["first_run_errors"] += 1
                        bad = ("first-run-fails", f"the first application raises {e!r:.160}")
                    else:
                        bad = ("second-run-fails", f"the second application raises {e!r:.160}")
                    break
                # ---- every entry's object exists exactly once (extend children: once per run, by definition)
                t_els = pm_count(sb, t_path)
                problems = []
                for path, how, refers in sorted(set((tuple(a), b, c) for a, b, c in expect)):
                    els = pm_count(sb, path)
                    want = run_no if how == "extend" else 1
                    if len(els) != want:
                        problems.append(f"{'/'.join(path)}: {len(els)} object(s), expected {want}")
                    elif refers and len(t_els) == 1:
                        tid = t_els[0].get("id")
                        for el in els:
                            if not any(tid in v for x in el.iter() if isinstance(x.tag, str) for v in x.attrib.values()):
                                problems.append(f"{'/'.join(path)}: does not refer to the promised object {tid}")
                problems = list(dict.fromkeys(problems))
                if problems:
                    bad = (f"run{run_no}-objects", f"after run {run_no}: " + "; ".join(problems[:6]))
                    break
                snaps.append((etree.tostring(sb), [sum(1 for _ in tr.root.iter()) for _, tr in
                                                   sorted(model._loader.trees.items(), key=lambda kv: str(kv[0]))]))
            if bad is None and not has_extend and snaps[0] != snaps[1]:
                if snaps[0][1] == snaps[1][1] and pm_canon(sb, base.ids) == pm_canon(etree.fromstring(snaps[0][0]), base.ids):
                    if kind == "set-link":
                        chk.violation("sync-set-link-recreates-element",
                                      "re-applying `set` on a link-valued attribute deletes and re-creates the link element with a fresh UUID",
                                      replay)
                        continue
                    bad = ("second-run-new-uuids", "the second application re-creates elements (same content, fresh UUIDs)")
                else:
                    bad = ("second-run-differs", f"the second application changes the model (elements per tree {snaps[0][1]} -> {snaps[1][1]})")
            if bad is not None:
                chk.violation(f"sync-waiting-entry:{bad[0]}:{tag}:{cfg}",
                              f"sync list of {L} entries below a {level} parent whose entry {p} has to wait for a promise ({kind}; declared "
                              f"{decl_at}; the entry's object is {'there' if wait_exists else 'new'}): {bad[1]}", replay)
        nf_todo = NF_COMBOS if not quick else rng.sample(NF_COMBOS, 150 if tag == "empty52" else 25)
        nf_stats["per_model"][tag] = len(nf_todo)
        import time
        t0 = time.time()
        nested_find_matrix(chk, model, base, tag, nf_todo, nf_stats)
        nf_stats["seconds"] = round(nf_stats.get("seconds", 0) + time.time() - t0, 1)
    chk.coverage["sync_waiting_entry_matrix"] = stats
    chk.coverage["sync_promise_inside_find_matrix"] = nf_stats


def run(chk: lib.Check):
    logging.disable(logging.CRITICAL)
    import yaml
    from capellambse import decl, helpers
    from capellambse.model import NewObject
    chk.prove()
    quick = chk.tier == "quick"
    rng = chk.rng
    bases = {t: Base(t) for t in (["empty52", "melody52"] if quick else list(MODELS))}

    # ================================================================== (a)
    stats = {"documents": 0, "match_0": 0, "match_1": 0, "match_many": 0, "nested": 0, "type_hint": 0, "extra_find_key": 0,
             "ref_find_key": 0, "ref_set_value": 0, "ref_as_uuid": 0, "ref_as_find": 0, "setup_objects": 0, "not_wf": 0,
             "errors": 0, "first_run_ambiguous": 0, "runs": 0}
    cases, descr = [], []
    ndocs = 110 if quick else 1500
    for d in range(ndocs):
        tag = rng.choice(list(bases)) if d % 3 else "empty52"
        base = bases[tag]
        typ = rng.choice(["F", "F", "C", "PK", "PK"])
        model0 = base.load()
        pool = NASTY if rng.random() < 0.6 else PLAIN
        if rng.random() < 0.7:
            setup_state(rng, model0.by_uuid(base.roots[typ]), typ, pool, stats)
        t_init = extract(model0.by_uuid(base.roots[typ]), typ)
        gy, gv = gen_groups(rng, typ, t_init, rng.randint(0, 3), pool, stats, ref_targets(model0))
        if not gy:
            continue
        gy = settle_refs(rng, gy, class_entry_names(gy, set()), stats)
        stats["documents"] += 1
        ydoc = [{"parent": decl.UUIDReference(base.roots[typ]), "sync": gy}]
        t0, trees, snaps, text = apply_twice(base, typ, ydoc, model0)
        stats["runs"] += len(trees)
        key = f"{tag}:{typ}:{hash(text) & 0xffffffff:x}"
        chk.note_case(key, nontrivial=True)
        wf = wf_val(gv)
        stats["not_wf"] += not wf
        out = [wf]
        for tr in trees:
            if isinstance(tr, Err):
                out.append(tr)
                stats["errors"] += 1
            else:
                out.append([tsize(tr), observe(tr)])
        cases.append(([t0, gv, OKEYS, LKEYS], out))
        if isinstance(trees[0], Err) and "Ambiguous" in str(snaps[0]):
            stats["first_run_ambiguous"] += 1
        descr.append({"model": tag, "parent": typ, "yaml": text, "error": snaps[-1] if isinstance(trees[-1], Err) else None})
        # ---- oracle: the second run changes nothing (byte-identical XML of every tree, no new element)
        replay = {"model": tag, "parent_type": typ, "yaml": text}
        if len(trees) == 2 and not isinstance(trees[0], Err):
            if not wf and (isinstance(trees[1], Err) or snaps[0] != snaps[1]):
                # two entries of one list with the same name and different further find keys / set values (outside
                # find_keys_stable): one entry's creation or `set` changes what the other entry's find matches
                amb = isinstance(trees[1], Err) and "Ambiguous" in str(snaps[1])
                chk.violation("sync-overlapping-find-keys:" + ("second-run-ambiguous" if amb else "second-run-differs"),
                              "two sync entries of one list share a name and differ in further find keys: what one entry creates or "
                              "sets changes what the other one finds, the second run " +
                              (f"raises {snaps[1]}" if isinstance(trees[1], Err) else "changes the model"), replay)
            elif isinstance(trees[1], Err):
                chk.violation(f"sync-second-run-fails:{key}", f"the second application of a sync document raises {snaps[1]}", replay)
            elif snaps[0] != snaps[1]:
                n1 = sum(s.count(b" id=") for _, s in snaps[0])
                n2 = sum(s.count(b" id=") for _, s in snaps[1])
                chk.violation(f"sync-not-idempotent:{key}",
                              f"the second application of a sync document changes the model ({n1} -> {n2} elements with an id)", replay)
    chk.coverage["sync_documents"] = stats
    if cases:
        chk.samples.append({"sync_yaml": descr[0]["yaml"], "after_run1_size": cases[0][1][1][0] if not isinstance(cases[0][1][1], Err) else None})
    chk.correspond("From V Require Import Model.DeclSync.", "w_sync2", cases, tag="C13_sync", shard=60,
                   describe=lambda i: descr[i])

    # ---- streams outside the proved guard (oracle only)
    def twice_oracle(base, ydoc, key, what, replay_extra=None, setup=None):
        model = base.load()
        if setup is not None:
            ydoc = setup(model)
        text = yaml.dump(ydoc, Dumper=decl.YDMDumper, sort_keys=False)
        snaps, canons = [], []
        for i in range(2):
            try:
                decl.apply(model, io.StringIO(text))
            except BaseException as e:  # noqa: BLE001
                if isinstance(e, (KeyboardInterrupt, SystemExit)):
                    raise
                snaps.append("ERR " + repr(e)[:160])
                break
            snaps.append(xml_snapshot(model))
            canons.append(canon_tree(model, base.ids))
        chk.note_case(("oracle", key, text))
        if isinstance(snaps[0], str):
            return None          # the first run fails: nothing to say about idempotence
        if len(snaps) < 2 or snaps[0] != snaps[1]:
            if len(canons) == 2 and canons[0] == canons[1]:
                # same model up to UUIDs: an element was deleted and re-created
                chk.violation("sync-set-link-recreates-element",
                              "re-applying `set` on a link-valued attribute deletes and re-creates the link element with a fresh UUID",
                              dict(model=base.tag, yaml=text))
                return False
            chk.violation(key, what + (f" (second run: {snaps[1]})" if isinstance(snaps[-1], str) else ""),
                          dict(model=base.tag, yaml=text, **(replay_extra or {})))
            return False
        return True
    o_stats = {"html_find": 0, "promise_sync": 0, "nested_attr_find": 0}
    for tag, base in bases.items():
        rf, pk = decl.UUIDReference(base.roots["F"]), decl.UUIDReference(base.roots["PK"])
        # find key on an HTML attribute whose text needs escaping (C07 territory)
        for s in ["a&b", "a<b", "q\"uote", "it's", "x>y"]:
            twice_oracle(base, [{"parent": rf, "sync": {"functions": [{"find": {"name": "hx" + s[0], "description": s}}]}}],
                         "sync-find-html-escape", "a find key on `description` with a character that the HTML codec escapes is not "
                         "found again: the second run creates a duplicate")
            o_stats["html_find"] += 1
        # with promises: declared before / after its use, both documents applied twice
        for order in (0, 1):
            for variant in ("link", "attr", "link+nested"):
                user = {"find": {"name": "ps-K"}}
                if variant in ("link", "link+nested"):
                    user["set"] = {"super": decl.Promise("pS")}
                if variant == "attr":
                    user["sync"] = {"owned_properties": [{"find": {"name": "ps-prop"}, "set": {"type": decl.Promise("pS")}}]}
                if variant == "link+nested":
                    user["sync"] = {"owned_properties": [{"find": {"name": "ps-prop"}}]}
                i_user = {"parent": pk, "sync": {"classes": [user]}}
                i_decl = {"parent": pk, "sync": {"packages": [{"find": {"name": "ps-G"}, "sync": {
                    "classes": [{"find": {"name": "ps-S"}, "promise_id": "pS"}]}}]}}
                doc = [i_user, i_decl] if order == 0 else [i_decl, i_user]
                dupbug = variant == "link+nested" and order == 0
                k = "sync-deferred-create:duplicate-object" if dupbug else f"sync-promise-not-idempotent:{order}:{variant}"
                twice_oracle(base, copy.deepcopy(doc), k, "a sync document with promises is not idempotent"
                             + (": the deferred creation plus nested sync created the object twice, the second run finds two" if dupbug else ""))
                o_stats["promise_sync"] += 1
        # find keys on nested attributes of an object that exists
        m = base.load()
        rfo = m.by_uuid(base.roots["F"])
        kids = [f for f in rfo.functions if [g.name for g in rfo.functions].count(f.name) == 1]
        if kids:
            f0 = kids[0]
            twice_oracle(base, [{"parent": rf, "sync": {"functions": [{"find": {"name": f0.name, "parent.name": rfo.name},
                                                                          "set": {"summary": "nested attr"}}]}}],
                         f"sync-nested-attr-find:{tag}", "a sync entry with a find key on a nested attribute is not idempotent")
            o_stats["nested_attr_find"] += 1
    # find keys of every value shape (scalar, !uuid, !find, !promise) against 0, 1 and 2 existing matches, on a class
    # (key `super`) and on a property below a class (key `type`); the promise is declared by another sync entry,
    # before or after its use.  0 / 1 match: the second run changes nothing; 2 matches: the first run is refused
    # (if it is not, the second run still has to change nothing)
    o_stats["find_value_matrix"] = 0
    for tag, base in bases.items():
        for level in ("class", "property"):
            for shape in ("scalar", "uuid", "find", "promise-first", "promise-last"):
                for nmatch in (0, 1, 2):
                    def setup(model, level=level, shape=shape, nmatch=nmatch, base=base):
                        pk = model.by_uuid(base.roots["PK"])
                        tgt = pk.classes.create(name="fk-T")
                        if level == "class":
                            for _ in range(nmatch):
                                pk.classes.create(name="fk-K", super=tgt, summary="s")
                        else:
                            k = pk.classes.create(name="fk-K")
                            for _ in range(nmatch):
                                k.owned_properties.create(name="fk-p", type=tgt, summary="s")
                        ref = {"scalar": None, "uuid": decl.UUIDReference(tgt.uuid),
                               "find": decl.FindBy({"_type": "Class", "name": "fk-T"})}.get(shape, decl.Promise("pT"))
                        refkey = "super" if level == "class" else "type"
                        f = {"name": "fk-K" if level == "class" else "fk-p"}
                        if ref is None:
                            f["summary"] = "s"
                        else:
                            f[refkey] = ref
                        entry = {"find": f, "set": {"description": "synced"}}
                        if level == "property":
                            entry = {"find": {"name": "fk-K"}, "sync": {"owned_properties": [entry]}}
                        pkref = decl.UUIDReference(base.roots["PK"])
                        doc = [{"parent": pkref, "sync": {"classes": [entry]}}]
                        d_decl = {"parent": pkref, "sync": {"classes": [{"find": {"name": "fk-T"}, "promise_id": "pT"}]}}
                        if shape == "promise-first":
                            doc = [d_decl] + doc
                        elif shape == "promise-last":
                            doc = doc + [d_decl]
                        return doc
                    twice_oracle(base, None, f"sync-find-value:{level}:{shape}:{nmatch}",
                                 f"a sync entry whose find key on a {level} has a {shape} value, with {nmatch} existing match(es), "
                                 "is not idempotent", setup=setup)
                    o_stats["find_value_matrix"] += 1
    chk.coverage["sync_oracle_streams"] = o_stats
    promise_matrix(chk, bases, quick)

    # ================================================================== (b)
    UUCH = "abcdefABCDEF0123456789-_"

    def g_str():
        return rng.choice(NASTY) if rng.random() < 0.7 else "".join(rng.choice("ab :'\"\n-#!{}[],&*?|>%@`é") for _ in range(rng.randint(0, 6)))

    def g_uuid():
        return "".join(rng.choice(UUCH) for _ in range(rng.randint(1, 36)))

    def g_scalar():
        r = rng.random()
        if r < 0.55:
            return g_str()
        if r < 0.75:
            return rng.randint(-1000, 100000)
        if r < 0.85:
            return rng.random() < 0.5
        return None

    def g_key():
        return rng.choice(["name", "parent", "extend", "set", "sync", "find", "promise_id", "_x", "a b", "é", "1", "true", "null"] + NASTY[:12])

    def g_map(depth, n=None):
        d = {}
        for _ in range(rng.randint(0, 4) if n is None else n):
            d[g_key()] = g_value(depth - 1)
        return d

    def g_value(depth):
        r = rng.random()
        if depth <= 0 or r < 0.35:
            return g_scalar()
        if r < 0.45:
            return decl.Promise(g_str())
        if r < 0.55:
            return decl.UUIDReference(g_uuid())
        if r < 0.65:
            return decl.FindBy(g_map(depth))
        if r < 0.75:
            kw = {k: v for k, v in g_map(depth).items() if k != "_type"}
            return NewObject(rng.choice(["LiteralNumericValue", "T", "a b", "é:x"]), **kw)
        if r < 0.88:
            return [g_value(depth - 1) for _ in range(rng.randint(0, 4))]
        return g_map(depth)

    def g_stream():
        out = []
        for _ in range(rng.randint(0, 4)):
            ins = {"parent": rng.choice([decl.Promise(g_str()), decl.UUIDReference(g_uuid()), decl.FindBy(g_map(2))])}
            for op in rng.sample(["extend", "set", "sync", "create", "delete"], rng.randint(0, 3)):
                ins[op] = g_map(3)
            out.append(ins)
        return out

    def g_version():
        """PEP 440 public versions with every optional segment, local parts, and a few near-misses"""
        v = rng.choice(["", "", "", "1!", "2!", "v"]) + ".".join(str(rng.choice([0, 1, 6, 10, 2024])) for _ in range(rng.randint(1, 4)))
        if rng.random() < 0.3:
            v += rng.choice(["a", "b", "rc", ".rc", "-alpha"]) + str(rng.randint(0, 12))
        if rng.random() < 0.3:
            v += rng.choice([".post", "-", ".post-"]) + str(rng.randint(0, 12))
        if rng.random() < 0.4:
            v += rng.choice([".dev", "dev", "_dev"]) + str(rng.randint(0, 99))
        if rng.random() < 0.6:
            v += "+" + rng.choice([".", "-", "_"]).join(rng.choice(["g1a2b3c4", "local", "1", "d20240101", "dirty", "ubuntu", "0abc", "é", "a+b", ""])
                                                      for _ in range(rng.randint(1, 3)))
        return v

    def g_plain(depth):
        r = rng.random()
        if depth <= 0 or r < 0.6:
            return rng.choice([g_scalar(), g_version()])
        if r < 0.8:
            return [g_plain(depth - 1) for _ in range(rng.randint(0, 3))]
        return {g_key(): g_plain(depth - 1) for _ in range(rng.randint(0, 3))}

    def g_metadata():
        r = rng.random()
        if r < 0.3:
            return None
        md = {"written_by": {"capellambse": rng.choice(["1.0.0", "0.6.1.dev3", g_str(), g_version(), g_version(), g_version()])},
              "model": {"url": g_str(), "revision": g_str(), "entrypoint": rng.choice(["a/b.aird", g_str()])}}
        y_stats["metadata_version_with_local_part"] += "+" in md["written_by"]["capellambse"]
        if rng.random() < 0.5:
            md["written_by"]["generator"] = rng.choice([g_str(), "gen " + g_version()])
        # arbitrary further keys, at the top level and inside the known blocks (plain data: what a tool may record)
        for holder in (md, md["written_by"], md["model"]):
            while rng.random() < 0.25:
                holder[rng.choice(["x-tool", "capellambse+local", "written_by", "model", "version", "a+b", "generator", "url"] + NASTY[:12])] = g_plain(2)
                y_stats["metadata_extra_keys"] += 1
        if rng.random() < 0.2:
            del md["model"]
        if rng.random() < 0.1:
            md = {}
        return md

    def to_val(x):
        if isinstance(x, decl.Promise):
            return [2, x.identifier]
        if isinstance(x, decl.UUIDReference):
            return [3, x.uuid]
        if isinstance(x, NewObject):
            return [4, x._type_hint, [[k, to_val(v)] for k, v in x._kw.items()]]
        if isinstance(x, decl.FindBy):
            return [5, [[k, to_val(v)] for k, v in x.attributes.items()]]
        if isinstance(x, dict):
            return [1, [[k, to_val(v)] for k, v in x.items()]]
        if isinstance(x, (list, tuple)):
            return [0, [to_val(v) for v in x]]
        if x is None or isinstance(x, (bool, int, str)):
            return x
        raise TypeError(type(x))

    STD = "tag:yaml.org,2002:"

    def node_val(n):
        if isinstance(n, yaml.ScalarNode):
            if n.tag == STD + "str":
                return [0, n.value]
            if n.tag == STD + "int":
                return [0, int(n.value)]
            if n.tag == STD + "bool":
                return [0, n.value.lower() in ("true", "yes", "on")]
            if n.tag == STD + "null":
                return [0, None]
            return [1, n.tag, n.value]
        if isinstance(n, yaml.SequenceNode):
            return [2, None if n.tag == STD + "seq" else n.tag, [node_val(c) for c in n.value]]
        if isinstance(n, yaml.MappingNode):
            return [3, None if n.tag == STD + "map" else n.tag, [[node_val(k), node_val(v)] for k, v in n.value]]
        raise TypeError(type(n))

    def struct_eq(a, b):
        """== with NewObject compared by content"""
        if isinstance(a, NewObject) or isinstance(b, NewObject):
            return (isinstance(a, NewObject) and isinstance(b, NewObject) and a._type_hint == b._type_hint
                    and struct_eq(a._kw, b._kw))
        if isinstance(a, decl.FindBy) and isinstance(b, decl.FindBy):
            return struct_eq(dict(a.attributes), dict(b.attributes))
        if isinstance(a, dict) and isinstance(b, dict):
            return a.keys() == b.keys() and all(struct_eq(a[k], b[k]) for k in a)
        if isinstance(a, list) and isinstance(b, list):
            return len(a) == len(b) and all(struct_eq(x, y) for x, y in zip(a, b))
        return type(a) is type(b) and a == b

    def has_newobj(x):
        if isinstance(x, NewObject):
            return True
        if isinstance(x, decl.FindBy):
            return has_newobj(dict(x.attributes))
        if isinstance(x, dict):
            return any(has_newobj(v) for v in x.values())
        if isinstance(x, list):
            return any(has_newobj(v) for v in x)
        return False

    rep_cases, con_cases, load_cases, dump_cases = [], [], [], []
    nstreams = 400 if quick else 8000
    y_stats = {"streams": 0, "with_metadata": 0, "with_newobject": 0, "values": 0, "malformed_nodes": 0,
               "metadata_version_with_local_part": 0, "metadata_extra_keys": 0}
    for i in range(nstreams):
        ins = g_stream()
        md = g_metadata()
        y_stats["streams"] += 1
        y_stats["with_metadata"] += bool(md)
        y_stats["with_newobject"] += has_newobj(ins)
        chk.note_case(("stream", i), nontrivial=bool(ins))
        # the dumper's node graph of the instruction list
        rep = decl.YDMDumper(io.StringIO())
        rep_cases.append((to_val(ins), node_val(rep.represent_data(copy.deepcopy(ins)))))
        # dump, compose (samples the text layer: compose(dump(x)) == represent(x)), construct, load
        try:
            text = decl.dump(ins, metadata=md) if md is not None else decl.dump(ins)
        except Exception as e:  # noqa: BLE001
            chk.violation(f"dump-raises:{type(e).__name__}", f"decl.dump raises {e!r}", {"stream": repr(ins)[:2000]})
            continue
        docs = list(yaml.compose_all(text, Loader=decl.YDMLoader))
        dump_cases.append(([to_val(md or {}), to_val(ins)], [node_val(n) for n in docs]))
        try:
            got_md, got_ins = decl.load_with_metadata(io.StringIO(text))
            load_out = [to_val(got_md), to_val(got_ins)]
        except Exception as e:  # noqa: BLE001
            got_md = got_ins = None
            load_out = err_of(e)
        load_cases.append(([node_val(n) for n in docs], load_out))
        for n in docs[-1:]:
            ld = decl.YDMLoader(io.StringIO(""))
            try:
                con_cases.append((node_val(n), to_val(ld.construct_document(n))))
            except Exception as e:  # noqa: BLE001
                con_cases.append((node_val(n), err_of(e)))
        # ---- oracle: an equal stream comes back
        replay = {"yaml": text, "stream": repr(ins)[:3000], "metadata": repr(md)}
        if isinstance(load_out, Err):
            chk.violation(f"load-raises:{load_out.raw}", f"decl.load(dump(x)) raises {load_out.raw}", replay)
        elif not struct_eq(got_ins, ins) or not struct_eq(got_md, md or {}):
            chk.violation(f"roundtrip-differs:{i}", "decl.load(decl.dump(x)) differs from x", replay)
        elif not (got_ins == ins):
            chk.violation("newobject:no-structural-equality" if has_newobj(ins) else f"roundtrip-eq:{i}",
                          "load(dump(x)) == x is False although the content is the same"
                          + (": NewObject defines no __eq__" if has_newobj(ins) else ""), replay)
    # the empty type hint
    for kw in ({}, {"value": "1"}):
        x = [{"parent": decl.Promise("p"), "set": {"min_card": NewObject("", **kw)}}]
        chk.note_case(("empty-hint", repr(kw)))
        try:
            back = decl.load(io.StringIO(decl.dump(x)))
            if not struct_eq(back, x):
                chk.violation("newobject:empty-type-hint", "NewObject with an empty type hint comes back different", {"stream": repr(x)})
        except Exception as e:  # noqa: BLE001
            chk.violation("newobject:empty-type-hint", f"NewObject with an empty type hint (= guess the type) is dumped without "
                          f"`_type` and cannot be loaded again: {e!r}", {"stream": repr(x), "yaml": decl.dump(x)})
        rep = decl.YDMDumper(io.StringIO())
        rep_cases.append((to_val(x), node_val(rep.represent_data(copy.deepcopy(x)))))
        n = yaml.compose(decl.dump(x), Loader=decl.YDMLoader)
        try:
            con_cases.append((node_val(n), to_val(decl.YDMLoader(io.StringIO("")).construct_document(n))))
        except Exception as e:  # noqa: BLE001
            con_cases.append((node_val(n), err_of(e)))
    # malformed / hand-written node graphs for the loader
    MAL = ["!promise [a, b]", "!promise {a: b}", "!uuid [x]", "!uuid 'not a uuid!'", "!uuid ''", "!uuid abc_DEF-12",
           "!new_object {value: 1}", "!new_object [a]", "!new_object x", "!new_object {_type: T}", "!new_object {_type: T, a: !promise p}",
           "!find x", "!find [a]", "!find {}", "!find {name: !promise 'q', _type: X}", "!unknown y", "- !promise p\n- !uuid u-1\n",
           "{a: !find {b: !new_object {_type: Z, c: [1, !uuid d]}}}", "!promise ''", "!promise 12", "!promise null", "[]", "{}", "~", "x"]
    for t in MAL:
        n = yaml.compose(t, Loader=decl.YDMLoader)
        y_stats["malformed_nodes"] += 1
        try:
            con_cases.append((node_val(n), to_val(decl.YDMLoader(io.StringIO("")).construct_document(n))))
        except Exception as e:  # noqa: BLE001
            con_cases.append((node_val(n), err_of(e) if not isinstance(e, yaml.YAMLError) else Err("Other")))
        chk.note_case(("mal", t))
    # document-count handling of load_with_metadata
    for t in ["", "---\n", "[]\n", "a: 1\n---\n- parent: !promise p\n", "a: 1\n---\n", "---\n---\n", "x: 1\n---\n[]\n---\n[]\n",
              "null\n---\nnull\n", "{}\n---\n[]\n", "- parent: !uuid u1\n"]:
        docs = [d for d in yaml.compose_all(t, Loader=decl.YDMLoader)]
        dv = [node_val(n) if n is not None else [0, None] for n in docs]
        try:
            md2, ins2 = decl.load_with_metadata(io.StringIO(t))
            load_cases.append((dv, [to_val(md2), to_val(ins2)]))
        except Exception as e:  # noqa: BLE001
            load_cases.append((dv, err_of(e)))
        chk.note_case(("docs", t))
    # is_uuid_string
    ucases = [(s, bool(helpers.is_uuid_string(s))) for s in [g_uuid() for _ in range(60)] + NASTY + ["", "a b", "a-b_c", "é", "A" * 40, "-", "_", "a\n"]]
    y_stats["values"] = len(rep_cases)
    chk.coverage["yaml_streams"] = y_stats
    chk.samples.append({"dumped": decl.dump([{"parent": decl.Promise("p: 1"), "set": {"x": NewObject("T", v="!")}}])})
    chk.correspond("From V Require Import Model.DeclYaml.", "w_represent", rep_cases, tag="C13_rep", shard=120)
    chk.correspond("From V Require Import Model.DeclYaml.", "w_construct", con_cases, tag="C13_con", shard=120)
    chk.correspond("From V Require Import Model.DeclYaml.", "w_load_stream", load_cases, tag="C13_load", shard=120)
    chk.correspond("From V Require Import Model.DeclYaml.", "w_dump_stream", dump_cases, tag="C13_dump", shard=120)
    chk.correspond("From V Require Import Model.DeclYaml.", "w_is_uuid", ucases, tag="C13_uuid")
    chk.coverage["rule_waiting_entries"] = (
        "sync lists of length 1..4 x waiting position (every one) x 9 kinds of waiting (set value / find key on a property list, "
        "find key / link-valued set / nested sync with set or find key / nested extend on a class list, the same two levels down on "
        "a package list) x promise declared by a later instruction / a later entry of the enclosing list / earlier x waiting "
        "entry's object new / existing = %d combinations, all of them on empty52, a seeded sample of 270 on each other model in the "
        "quick tier; the other entries match / create / create+set at random, now and then a second waiting entry"
        % len(list(pm_combos())))
    chk.coverage["rule"] = ("(a) %d generated sync documents (1-3 entries per list, nesting <= 3, found/created mix, names from a pool of "
                            "%d nasty strings) applied twice on %s; (b) %d generated streams + metadata blocks through represent / "
                            "compose / construct / load, %d hand-written malformed node graphs" % (
                                stats["documents"], len(NASTY), ", ".join(bases), y_stats["streams"], y_stats["malformed_nodes"]))
    chk.assumptions += [
        "PyYAML's text layer (emitter, scanner, resolver, standard scalar constructors) is a stand-in: hypothesis yaml_rt of "
        "dump_load_roundtrip_partial, sampled by the w_dump_stream correspondence (compose(dump(x)) = represent(x))",
        "attribute values read back as written (C07) is assumed by the sync model; `description` (HTML) violates it for & < > quotes",
        "sync documents with promises, find keys that `set` overrides, `extend`, delete are outside the sync model (oracle streams "
        "only: the waiting-entry matrix counts every entry's object in the raw XML after each run)",
        "mappings are association lists; PyYAML's sorting of mapping pairs is invisible to dict equality",
    ]


if __name__ == "__main__":
    lib.main("C13", run)
