"""C16 — Saving to a git repository creates exactly one faithful commit, or none.

Model: coq/Model/GitTx.v (state machine over an abstract repository, fault schedule).
Implementation: real git in scratch repositories, capellambse.filehandler.git.GitFileHandler.
"""
from __future__ import annotations

import gc
import os
import pathlib
import posixpath
import subprocess
import sys

sys.path.insert(0, str(pathlib.Path(__file__).resolve().parent))
import lib
from lib import Err, err_of

ENV_AUTHOR = ("v", "v@v")
GITENV = dict(GIT_AUTHOR_NAME=ENV_AUTHOR[0], GIT_AUTHOR_EMAIL=ENV_AUTHOR[1], GIT_COMMITTER_NAME="cm",
              GIT_COMMITTER_EMAIL="cm@v", GIT_CONFIG_GLOBAL="/dev/null", GIT_CONFIG_NOSYSTEM="1")


class Injected(OSError):
    pass


class Injector:
    """Counts the interruptible steps of a transaction and raises at the k-th (once)."""

    def __init__(self):
        self.k = None
        self.n = 0
        self.armed = False
        self.fired_at = None
        self.trace = []

    def arm(self, k):
        self.k, self.n, self.armed, self.fired_at, self.trace = k, 0, True, None, []

    def disarm(self):
        self.armed = False

    def step(self, what):
        if not self.armed:
            return
        self.trace.append(what)
        if self.k is not None and self.n == self.k:
            self.k = None
            self.fired_at = what
            self.n += 1
            raise Injected(f"injected fault at step {what}")
        self.n += 1


INJ = Injector()


def git(cwd, *args, input=None, text=True):
    return subprocess.run(["git", *args], cwd=cwd, env={**os.environ, **GITENV}, check=True,
                          capture_output=True, text=text, input=input).stdout


class Repo:
    """Independent view of a scratch repository (plain git plumbing, no capellambse code)."""

    def __init__(self, path: pathlib.Path):
        self.path = path
        self.sha2id: dict[str, int] = {}
        self.blobs: dict[str, bytes] = {}

    def blob(self, sha: str) -> bytes:
        if sha not in self.blobs:
            self.blobs[sha] = git(self.path, "cat-file", "blob", sha, text=False)
        return self.blobs[sha]

    def tree(self, rev: str) -> dict[str, bytes]:
        out = git(self.path, "ls-tree", "-r", "-z", rev)
        t = {}
        for ent in out.split("\0"):
            if ent:
                info, name = ent.split("\t", 1)
                _, typ, sha = info.split(" ")
                t[name] = self.blob(sha) if typ == "blob" else b"<" + typ.encode() + b">"
        return t

    def refs(self) -> dict[str, str]:
        out = git(self.path, "for-each-ref", "--format=%(refname) %(objectname)")
        return dict(ln.split(" ") for ln in out.splitlines())

    def commit_objects(self) -> list[str]:
        out = git(self.path, "cat-file", "--batch-all-objects", "--batch-check")
        return [ln.split()[0] for ln in out.splitlines() if ln.split()[1] == "commit"]

    def commit_info(self, sha: str):
        raw = git(self.path, "cat-file", "commit", sha, text=False)
        head, _, body = raw.partition(b"\n\n")
        parents, author = [], (b"", b"")
        for ln in head.split(b"\n"):
            k, _, v = ln.partition(b" ")
            if k == b"parent":
                parents.append(v.decode())
            elif k == b"author":
                name, _, rest = v.rpartition(b" <")
                email = rest.split(b">")[0]
                author = (name, email)
        return parents, author, body

    def rev_list(self, sha: str) -> list[str]:
        return git(self.path, "rev-list", sha).split()

    def register_new(self) -> list[str]:
        """commit objects not seen before, parents first; assigns the next ids"""
        new = [s for s in self.commit_objects() if s not in self.sha2id]
        order = []
        while new:
            progressed = False
            for s in sorted(new):
                ps, _, _ = self.commit_info(s)
                if all(p in self.sha2id or p in order for p in ps) and s not in order:
                    order.append(s)
                    progressed = True
            new = [s for s in new if s not in order]
            if not progressed:
                order += sorted(new)
                break
        for s in order:
            self.sha2id[s] = len(self.sha2id)
        return order

    def commit_val(self, sha: str):
        ps, (an, ae), body = self.commit_info(sha)
        if len(ps) > 1:
            raise ValueError("merge commit")
        par = self.sha2id[ps[0]] if ps else -1
        msg = body[:-1] if body.endswith(b"\n") else body + b"<no-newline>"
        return [par, canon(self.tree(sha)), msg, an, ae]


def canon(t: dict[str, bytes]):
    return [[k.encode(), t[k]] for k in sorted(t, key=lambda s: list(s.encode()))]


def worktree_files(root: pathlib.Path) -> dict[str, bytes]:
    out = {}
    for dp, dn, fn in os.walk(root):
        for f in fn:
            full = pathlib.Path(dp, f)
            rel = full.relative_to(root).as_posix()
            if rel == ".git":
                continue
            out[rel] = full.read_bytes()
    return out


def index_files(rp: Repo, wt: pathlib.Path) -> dict[str, bytes]:
    out = git(wt, "ls-files", "-s", "-z")
    t = {}
    for ent in out.split("\0"):
        if ent:
            info, name = ent.split("\t", 1)
            _, sha, stage = info.split(" ")
            t[name if stage == "0" else f"{name}#{stage}"] = rp.blob(sha)
    return t


# --------------------------------------------------------------------------- scratch repository
INIT_TREE = {"a.txt": b"a0\n", "b.txt": b"b0", "sub/c.txt": b"c0\r\n", "sub/deep/e.bin": b"\x00\xff\x80e"}


def make_repo(root: pathlib.Path) -> Repo:
    root.mkdir()
    git(root, "init", "-q", "-b", "main")
    n = [0]

    def commit(msg, changes):
        for k, v in changes.items():
            p = root / k
            p.parent.mkdir(parents=True, exist_ok=True)
            p.write_bytes(v)
        git(root, "add", "-A")
        n[0] += 1
        os.environ["GIT_COMMITTER_DATE"] = os.environ["GIT_AUTHOR_DATE"] = f"{1600000000 + n[0]} +0000"
        git(root, "commit", "-q", "-m", msg)
    commit("c0", INIT_TREE)
    git(root, "branch", "cafe")           # object-like branch name
    git(root, "tag", "v1")
    git(root, "checkout", "-q", "-b", "other")
    commit("c2 on other", {"sub/d.txt": b"d2", "b.txt": b"b-other"})
    git(root, "checkout", "-q", "main")
    commit("c1 on main", {"a.txt": b"a1\n"})
    git(root, "branch", "third")
    # leave the main checkout on a branch nobody writes to, so that update-ref never touches a checked-out branch
    git(root, "checkout", "-q", "-b", "parking")
    rp = Repo(root)
    rp.register_new()
    return rp


# --------------------------------------------------------------------------- running hops on the implementation
class Outcome:
    def __init__(self):
        self.exc = None            # exception escaping the transaction
        self.phase = "init"        # where it escaped: init / enter / body
        self.fired_at = None
        self.closed_writes = {}    # effective path -> bytes, completed and closed
        self.unclosed = False
        self.steps = 0


def effective(sub: str, name: str) -> str:
    return posixpath.normpath(posixpath.join(sub.strip("/"), name)) if sub.strip("/") else posixpath.normpath(name)


def exec_tx(h, sub, o, body, fault) -> Outcome:
    res = Outcome()
    keep = []
    kw = dict(dry_run=o["dry_run"], ignore_empty=o["ignore_empty"], commit_msg=o["msg"], push=False)
    if o["remote_branch"] is not None:
        kw["remote_branch"] = o["remote_branch"]
    if o["author"][0]:
        kw["author_name"] = o["author"][0]
    if o["author"][1]:
        kw["author_email"] = o["author"][1]
    try:
        tx = h.write_transaction(**kw)
        res.phase = "enter"
        INJ.arm(fault)
        with tx:
            res.phase = "body"
            for op in body:
                if op[0] == "w":
                    _, name, data, closed = op
                    if closed == "close":            # explicit close() instead of a with-block
                        f = h.open(name, "wb")
                        keep.append(f)
                        INJ.step(("write", name))
                        f.write(data)
                        f.close()
                        keep.remove(f)
                        res.closed_writes[effective(sub, name)] = data
                    elif closed:
                        with h.open(name, "wb") as f:
                            INJ.step(("write", name))
                            f.write(data)
                        res.closed_writes[effective(sub, name)] = data
                    else:
                        f = h.open(name, "wb")
                        keep.append(f)
                        res.unclosed = True
                        INJ.step(("write", name))
                        f.write(data)
                        f.flush()
                elif op[0] == "raise":
                    raise KeyError("caller error")
                elif op[0] == "badopen":
                    h.open(op[1], "wb")
                elif op[0] == "nested":
                    with h.write_transaction(push=False):
                        pass
            res.phase = "exit"
    except BaseException as e:  # noqa: BLE001
        res.exc = e
    finally:
        INJ.disarm()
        if res.exc is not None:
            res.exc.__traceback__ = None
        res.fired_at = INJ.fired_at
        res.steps = INJ.n
        res.trace = list(INJ.trace)
        for f in keep:
            try:
                f.close()
            except BaseException:  # noqa: BLE001  (record_update asserts the transaction is still the current one)
                pass
        keep.clear()
    return res


def install_hooks(gh):
    orig_git = gh.GitFileHandler._git
    orig_open = pathlib.Path.open

    def _git(self, *cmd, **kw):
        INJ.step(("git",) + tuple(str(c) for c in cmd[:2]))
        return orig_git(self, *cmd, **kw)

    def p_open(self, mode="r", *a, **k):
        if INJ.armed and "w" in mode and self.name != "capellambse.lock":
            INJ.step(("open", self.name))
        return orig_open(self, mode, *a, **k)
    gh.GitFileHandler._git = _git
    pathlib.Path.open = p_open

    def undo():
        gh.GitFileHandler._git = orig_git
        pathlib.Path.open = orig_open
    return undo


# --------------------------------------------------------------------------- encodings for the model
def enc_opts(o):
    return [o["dry_run"], o["ignore_empty"], o["remote_branch"], o["author"][0], o["author"][1], o["msg"]]


def enc_body(sub, body):
    out = []
    for op in body:
        if op[0] == "w":
            out.append([0, effective(sub, op[1]).encode(), op[2], bool(op[3])])
        elif op[0] == "raise":
            out.append([1])
        elif op[0] == "badopen":
            out.append([2, effective(sub, op[1]).encode()])
        elif op[0] == "nested":
            out.append([3])
    return out


def enc_hop(sub, hop):
    if hop[0] == "tx":
        _, o, body, fault = hop
        return [0, enc_opts(o), enc_body(sub, body), fault]
    return [1]


class Snapshot:
    def __init__(self, rp: Repo, h):
        self.refs = rp.refs()
        self.head = git(h.cache_dir, "rev-parse", "HEAD").strip()
        self.status = git(h.cache_dir, "status", "--porcelain")
        self.wt = worktree_files(pathlib.Path(h.cache_dir))
        self.index = index_files(rp, h.cache_dir)
        self.slot = h._transaction is not None
        self.objects = set(rp.commit_objects())
        try:
            self.rev_sha = git(rp.path, "rev-parse", "--verify", h.revision).strip()
        except subprocess.CalledProcessError:
            self.rev_sha = None


def observe(rp: Repo, snap: Snapshot, res: Outcome | None, new: list[str], kind: str):
    """the observation the model must reproduce (see GitTx.obs)"""
    if kind == "outside":
        out = [5, err_of(res)] if res is not None else [1]
    elif res.exc is not None:
        out = [5 if res.phase in ("init", "enter") else 3, err_of(res.exc)]
    else:
        moved = [r for r in snap.refs if snap.refs[r] in new]
        if moved:
            out = [0, rp.sha2id[snap.refs[moved[0]]]]
        elif new:
            out = [2, rp.sha2id[new[0]]]
        else:
            out = [1]
    return [out,
            [[r.encode(), rp.sha2id.get(snap.refs[r], -7)] for r in sorted(snap.refs, key=lambda s: list(s.encode()))],
            rp.sha2id.get(snap.head, -7), canon(snap.index), canon(snap.wt), snap.slot,
            [rp.commit_val(s) for s in new]]


# --------------------------------------------------------------------------- the property, on the implementation
def oracle(chk, rp: Repo, h, sub, hop, res: Outcome, pre: Snapshot, post: Snapshot, new: list[str], desc):
    """Evaluates the statement of C16 for one transaction with plain git plumbing."""
    _, o, body, fault = hop
    bad: list[str] = []
    if pre.status != "":
        return          # left dirty by an interrupted rollback or a reported defect: restoring is judged from clean states only
    target = o["remote_branch"] or h.revision
    if not target.startswith("refs/heads/"):
        target = "refs/heads/" + target
    moved = {r for r in set(pre.refs) | set(post.refs) if pre.refs.get(r) != post.refs.get(r)}
    rollback_interrupted = res.fired_at is not None and res.fired_at[0] == "git" and (
        res.fired_at[1:] == ("reset", "--hard") or res.fired_at[1] == "clean") and res.phase != "exit"
    if post.slot:
        bad.append("handler still has a transaction open")
    if res.exc is None and not o["dry_run"]:
        old_tree = rp.tree(pre.head)
        changed = {p for p, b in res.closed_writes.items() if old_tree.get(p) != b}
        if not changed and o["ignore_empty"]:
            if moved:
                bad.append(f"no file changed but refs moved: {sorted(moved)}")
            if new:
                bad.append("no file changed but a commit object was created")
            if post.head != pre.head:
                bad.append("no file changed but HEAD moved")
        else:
            if moved != {target}:
                bad.append(f"refs moved {sorted(moved)}, expected exactly [{target}]")
            else:
                c = post.refs[target]
                if rp.rev_list(c) != [c] + rp.rev_list(pre.head):
                    bad.append("target branch history is not old history + exactly one commit")
                parents, (an, ae), bodytxt = rp.commit_info(c)
                if parents != [pre.head]:
                    bad.append(f"parent of the new commit is {parents}, handler was at {pre.head}")
                want = dict(old_tree)
                want.update(res.closed_writes)
                if rp.tree(c) != want:
                    bad.append("tree of the new commit is not parent tree + written files with the written bytes")
                dt = set(filter(None, git(rp.path, "diff-tree", "-r", "--name-only", "--no-commit-id", "-z", pre.head, c).split("\0")))
                if dt != changed:
                    bad.append(f"diff-tree shows {sorted(dt)}, written and changed {sorted(changed)}")
                if bodytxt != o["msg"].encode() + b"\n":
                    bad.append(f"commit message {bodytxt!r}")
                if an.decode() != (o["author"][0] or ENV_AUTHOR[0]) or ae.decode() != (o["author"][1] or ENV_AUTHOR[1]):
                    bad.append(f"author {an!r} {ae!r}")
                if post.head != c:
                    bad.append("work tree HEAD is not the new commit")
                if len(new) != 1:
                    bad.append(f"{len(new)} commit objects created")
        if not res.unclosed and post.status != "":
            bad.append(f"work tree not clean after commit: {post.status!r}")
    else:
        # dry run, aborted, or refused
        if moved:
            bad.append(f"refs moved: {sorted(moved)}")
        if not rollback_interrupted:
            if post.head != pre.head:
                bad.append(f"HEAD moved from {pre.head[:8]} to {post.head[:8]}")
            if post.status != pre.status:
                bad.append(f"git status is {post.status!r}, was {pre.status!r}")
            if post.wt != pre.wt:
                diff = sorted(p for p in set(pre.wt) | set(post.wt) if pre.wt.get(p) != post.wt.get(p))
                bad.append(f"work tree files differ from before the transaction: {diff}")
            if post.index != pre.index:
                bad.append("index differs from before the transaction")
        if res.exc is None and o["dry_run"] and len(new) > 1:
            bad.append(f"{len(new)} commit objects created")
    if not bad:
        return
    if pre.rev_sha != pre.head:
        key = "diverged-head:" + desc
    elif res.exc is None and o["dry_run"] and not moved:
        key = "dry_run leaves worktree dirty"
    else:
        key = ("abort:" if res.exc is not None else "dry:" if o["dry_run"] else "commit:") + desc
    chk.violation(key, "; ".join(bad), {"revision": h.revision, "subdir": sub, "options": o, "body": body, "fault_at_step": fault,
                                       "fault_fired_at": res.fired_at, "exception": repr(res.exc), "pre_status": pre.status,
                                       "history": "see desc", "desc": desc})


# --------------------------------------------------------------------------- generation
def opts(**kw):
    o = dict(dry_run=False, ignore_empty=True, remote_branch=None, author=("", ""), msg="save")
    o.update(kw)
    return o


def W(name, data, closed=True):
    return ("w", name, data, closed)


def fault_sweep(o, body, upto):
    """the same transaction with a fault at every step, then without"""
    return [("tx", o, body, k) for k in range(upto)] + [("tx", o, body, None)]


def systematic(quick: bool):
    """(revision, subdir, hops) — every step of representative transactions is interrupted once"""
    hs = []
    mod2 = [W("a.txt", b"A-new"), W("sub/c.txt", b"C-new\n", "close")]
    hs.append(("main", "/", fault_sweep(opts(), mod2, 13) + [("outside",)]))
    hs.append(("main", "/", fault_sweep(opts(dry_run=True), mod2, 13) + [("tx", opts(), [W("b.txt", b"only-b")], None)]))
    hs.append(("main", "/", fault_sweep(opts(ignore_empty=False, author=("A U", "a@u"), msg="new + nested"),
                                        [W("n1.txt", b"new1", "close"), W("sub/deep/n2.bin", b"\x00\x01\xfe")], 12)))
    hs.append(("main", "/", fault_sweep(opts(), [W("a.txt", b"a1\n"), W("b.txt", b"b0")], 10)))         # unchanged content
    hs.append(("main", "/", fault_sweep(opts(ignore_empty=False), [W("a.txt", b"a1\n")], 8)))           # empty commit asked for
    hs.append(("main", "/", fault_sweep(opts(), [W("n1.txt", b"x"), ("raise",)], 7)
               + fault_sweep(opts(), [W("a.txt", b"y"), W("n3.txt", b"z", False), ("raise",)], 8)
               + fault_sweep(opts(), [W("a.txt", b"q"), ("badopen", "nodir/x.txt")], 7)
               + fault_sweep(opts(), [W("n4.txt", b"q"), ("nested",)], 7)
               + [("tx", opts(), [W("b.txt", b"after aborts")], None)]))
    hs.append(("other", "/", fault_sweep(opts(remote_branch="other"), [W("sub/d.txt", b"D"), W("a.txt", b"a-o")], 12)))
    hs.append(("main", "sub", fault_sweep(opts(), [W("c.txt", b"via subdir"), W("n5.txt", b"n5")], 12)))
    hs.append(("main", "/", fault_sweep(opts(remote_branch="fresh"), [W("a.txt", b"to fresh")], 9)))
    hs.append(("main", "/", fault_sweep(opts(dry_run=True, ignore_empty=False), [W("n1.txt", b"")], 9)
               + fault_sweep(opts(dry_run=True), [W("a.txt", b"a1\n")], 7)))
    for rb in ("deadbeef", "HEAD", "x_HEAD", "feature/FETCH_HEAD", "refs/heads/cafe"):
        hs.append(("main", "/", [("tx", opts(remote_branch=rb), [W("a.txt", b"refused")], None),
                                  ("tx", opts(), [W("a.txt", b"accepted")], None)]))
    hs.append(("cafe", "/", [("tx", opts(), [W("a.txt", b"refused")], None), ("outside",)]))
    # histories that leave the handler's own branch (remote_branch) — see known finding
    hs.append(("main", "/", [("tx", opts(remote_branch="other"), [W("sub/c.txt", b"c-1")], None),
                              ("tx", opts(remote_branch="other"), [W("n1.txt", b"n-1")], None),
                              ("tx", opts(remote_branch="other"), [W("n2.txt", b"n-2"), ("raise",)], None)]))
    hs.append(("v1", "/", [("tx", opts(), [W("a.txt", b"on a tag")], None)]))
    if not quick:
        bodies = {
            "modified": [W("a.txt", b"M1"), W("sub/deep/e.bin", b"\x00M2", "close")],
            "new": [W("n1.txt", b"N1", "close"), W("sub/n2.txt", b"")],
            "unchanged": [W("b.txt", b"b0") if True else None, W("sub/c.txt", b"c0\r\n")],
            "mixed": [W("a.txt", b"first"), W("a.txt", b"second"), W("b.txt", b"b0"), W("n 4.txt", b"sp")],
        }
        for rev in ("main", "third"):
            for dry in (False, True):
                for ign in (True, False):
                    for name, body in bodies.items():
                        if rev == "third" and name == "unchanged":
                            continue
                        o = opts(dry_run=dry, ignore_empty=ign, msg=f"{name} dry={dry} ign={ign}",
                                 author=("T H", "t@h") if dry else ("", ""))
                        hs.append((rev, "/", fault_sweep(o, body, 3 * len(body) + 7)))
    return hs


NAMES = ["a.txt", "b.txt", "sub/c.txt", "sub/deep/e.bin", "n1.txt", "sub/n2.txt", "sub/deep/n3", "n 4.txt", "é.txt"]
DATA = [b"", b"x", b"a1\n", b"b0", b"c0\r\n", b"line1\nline2\n", b"\x00\xff\x80e", b"crlf\r\n", bytes(range(256))]
BRANCHES = [None, None, None, "", "main", "other", "fresh", "refs/heads/pre/fix", "third", "abc", "deadbeef", "HEAD", "y_HEAD"]


def random_history(rng, own_branch_only: bool):
    rev = rng.choice(["main", "main", "other", "third"])
    sub = rng.choice(["/", "/", "/", "sub"])
    names = [n for n in NAMES if not n.startswith("sub/")] if sub == "/" else []
    names = NAMES if sub == "/" else ["c.txt", "deep/e.bin", "n2.txt", "deep/n3", "d.txt"]
    hops = []
    for _ in range(rng.randint(3, 7)):
        if rng.random() < 0.06:
            hops.append(("outside",))
            continue
        body = []
        for _ in range(rng.choice([0, 1, 1, 2, 2, 3, 4])):
            body.append(W(rng.choice(names), rng.choice(DATA) if rng.random() < 0.7 else bytes(rng.randrange(256) for _ in range(rng.randint(1, 12))),
                          rng.choice([True, True, "close"])))
        will_abort = False
        r = rng.random()
        if r < 0.12:
            body.insert(rng.randint(0, len(body)), ("raise",)); will_abort = True
        elif r < 0.17:
            body.insert(rng.randint(0, len(body)), ("badopen", "missing-dir/f.txt")); will_abort = True
        elif r < 0.20:
            body.insert(rng.randint(0, len(body)), ("nested",)); will_abort = True
        dry = rng.random() < 0.2
        if (will_abort or dry) and body and rng.random() < 0.4:
            i = rng.randrange(len(body))
            if body[i][0] == "w":
                body[i] = W(body[i][1], body[i][2], False)
        rb = rng.choice(BRANCHES)
        if own_branch_only and rb not in (None, "", "deadbeef", "HEAD", "y_HEAD"):
            rb = rev
        o = opts(dry_run=dry, ignore_empty=rng.random() < 0.75, remote_branch=rb,
                 author=rng.choice([("", ""), ("", ""), ("Ann Author", "ann@example.org"), ("Only Name", ""), ("", "only@mail")]),
                 msg=rng.choice(["save", "Changes made with python-capellambse", "multi word: message #2", "x"]))
        fault = rng.randrange(0, 14) if rng.random() < 0.35 else None
        hops.append(("tx", o, body, fault))
    return rev, sub, hops


# --------------------------------------------------------------------------- main
def run_history(chk, gh, tmp, n, rev, sub, hops, stats):
    rp = make_repo(tmp / f"repo{n}")
    h = gh.GitFileHandler(str(rp.path), rev, subdir=sub)
    init_commits = [rp.commit_val(s) for s in sorted(rp.sha2id, key=rp.sha2id.get)]
    refs0 = rp.refs()
    head0 = git(h.cache_dir, "rev-parse", "HEAD").strip()
    init = [init_commits, [[r.encode(), rp.sha2id[refs0[r]]] for r in refs0], rp.sha2id[head0],
            h.revision, ENV_AUTHOR[0], ENV_AUTHOR[1]]
    observations = []
    try:
        for i, hop in enumerate(hops):
            os.environ["GIT_COMMITTER_DATE"] = os.environ["GIT_AUTHOR_DATE"] = f"{1700000000 + 100 * n + i} +0000"
            pre = Snapshot(rp, h)
            desc = f"rev={rev} sub={sub} hop={i} {hop!r}"[:400]
            if hop[0] == "tx":
                res = exec_tx(h, sub, hop[1], hop[2], hop[3])
                new = rp.register_new()
                post = Snapshot(rp, h)
                observations.append(observe(rp, post, res, new, "tx"))
                stats["tx"] += 1
                stats["steps_max"] = max(stats["steps_max"], res.steps)
                kind = ("refused" if res.exc is not None and res.phase in ("init", "enter") else
                        "aborted" if res.exc is not None else "dry" if hop[1]["dry_run"] and new else
                        "committed" if new else "nochange")
                stats[kind] += 1
                if res.fired_at:
                    stats["faults_fired"] += 1
                    stats["fault_sites"].add(" ".join(res.fired_at[1:3] if res.fired_at[1] == "reset" else res.fired_at[1:2]) if res.fired_at[0] == "git" else res.fired_at[0])
                if pre.rev_sha != pre.head:
                    stats["diverged_prestate"] += 1
                if not (res.unclosed and res.exc is None):
                    # a file still open when the transaction commits is documented data loss (not judged);
                    # the next transactions are judged again as soon as the work tree is clean
                    oracle(chk, rp, h, sub, hop, res, pre, post, new, desc)
                    chk.note_case(("tx", rev, sub, repr(hop)), nontrivial=bool(hop[2]))
            else:
                err = None
                try:
                    h.open("a.txt" if sub == "/" else "c.txt", "wb")
                except BaseException as e:  # noqa: BLE001
                    err = e
                new = rp.register_new()
                post = Snapshot(rp, h)
                observations.append(observe(rp, post, err, new, "outside"))
                stats["outside"] += 1
                if not isinstance(err, RuntimeError) or post.wt != pre.wt or post.refs != pre.refs or post.status != pre.status:
                    chk.violation(f"write-outside:{desc}", f"open(..., 'wb') without a transaction: {err!r}, status {post.status!r}",
                                  {"desc": desc})
    finally:
        del h
        gc.collect()
    return ([init, [enc_hop(sub, hp) for hp in hops]], observations)


def run(chk: lib.Check):
    quick = chk.tier == "quick"
    rng = chk.rng
    chk.prove()
    from capellambse.filehandler import git as gh

    os.environ.update(GITENV)
    import logging
    logging.getLogger("capellambse").setLevel(logging.CRITICAL + 1)
    stats = {k: 0 for k in ("tx", "committed", "nochange", "dry", "aborted", "refused", "outside", "faults_fired",
                            "diverged_prestate", "steps_max")}
    stats["fault_sites"] = set()
    cases = []
    descs = []
    with lib.scratch("c16-") as tmp:
        os.environ["XDG_CACHE_HOME"] = str(tmp / "cache")
        gh.WTBASE = pathlib.Path(tmp / "cache" / "capellambse" / "worktrees")
        undo = install_hooks(gh)
        try:
            plan = systematic(quick)
            for _ in range(25 if quick else 400):
                plan.append(random_history(rng, own_branch_only=rng.random() < 0.7))
            for n, (rev, sub, hops) in enumerate(plan):
                cases.append(run_history(chk, gh, tmp, n, rev, sub, hops, stats))
                descs.append({"revision": rev, "subdir": sub, "hops": len(hops)})
        finally:
            undo()
            gc.collect()
    badi = chk.correspond("From V Require Import Model.GitTx.", "w_history", cases, tag="C16_hist", shard=8,
                          describe=lambda i: descs[i])
    for i in badi[:3]:
        # first transaction of the history whose observation the model does not reproduce
        (init, hops), observations = cases[i]
        pref = [([init, hops[:j]], observations[:j]) for j in range(1, len(hops) + 1)]
        fails, _ = lib.coq_failing("From V Require Import Model.GitTx.", "w_history", pref, tag="C16_shrink", shard=4)
        if fails:
            j = fails[0]
            chk.corr_disagreements.append({"fn": "w_history", "history": descs[i], "first_disagreeing_hop": j,
                                           "hop": lib.jsonable(plan[i][2][j]), "impl_observation": lib.jsonable(observations[j])})

    # the object-name regex and the refs/heads/ prefixing
    import itertools
    segs = ["", "a", "HEAD", "_HEAD", "x_HEAD", "FETCH_HEAD", "abc", "abcd", "ABCDEF0", "cafe", "cafes", "12345", "g123", "head", "HEAD2"]
    names = set(segs)
    for a, b in itertools.product(segs, repeat=2):
        names.add(a + "/" + b)
        names.add(a + b)
    for _ in range(300 if quick else 5000):
        names.add("".join(rng.choice("aF0_/HEAD9gx-.") for _ in range(rng.randint(0, 9))))
    names = sorted(names)
    chk.correspond("From V Require Import Model.GitTx.", "w_objectlike",
                   [(s, bool(gh._git_object_name.search(s))) for s in names], tag="C16_objl")
    stats["fault_sites"] = sorted(stats["fault_sites"])
    chk.coverage.update(stats)
    chk.coverage["histories"] = len(cases)
    chk.coverage["rule"] = ("every step (each _git call, each open/write of a writable file) of 10 representative transactions "
                            "(modify, new, nested dir, unchanged, empty commit, dry run, remote_branch existing/new, subdir handler, "
                            "caller exception / missing directory / nested transaction / unclosed file) interrupted once, plus seeded random "
                            "histories of 3-7 transactions over 9 file names x 9+random contents x 13 remote_branch values x options x "
                            "fault positions; each history replayed by the Coq model (refs, HEAD, index, work tree, slot, created commits "
                            "after every transaction) and judged by a plain-git oracle")
    if cases:
        chk.samples.append({"history": descs[0], "first_observation": lib.jsonable(cases[0][1][0])})
    chk.assumptions += [
        "git plumbing (rev-parse, add, write-tree, cat-file, commit-tree, reset, clean, update-ref) is a Gallina stand-in sampled against git on every run",
        "single handler per repository, nobody else moves refs; push=False (no remote offline); no .gitignore/LFS/hooks; file names without newline",
        "fault = exception raised instead of the step, once per transaction; a fault inside the rollback commands themselves is modelled but not required to restore",
    ]


if __name__ == "__main__":
    lib.main("C16", run)
