"""Access to the model corpus under <repo>/tests/data (shared by several checks)."""
from __future__ import annotations

import pathlib
import lib

DATA = lib.REPO / "tests" / "data"


def model_specs(tier: str) -> list[dict]:
    """(name, kwargs for MelodyModel) — quick: 5_2 test model + the project/library pair."""
    specs = [
        {"name": "melody52", "path": DATA / "melodymodel" / "5_2" / "Melody Model Test.aird"},
        {"name": "libproj", "path": DATA / "Library Project" / "Library Project.aird",
         "resources": {"Library Test": str(DATA / "Library Test")}},
    ]
    if tier == "thorough":
        specs += [
            {"name": "melody50", "path": DATA / "melodymodel" / "5_0" / "Melody Model Test.aird"},
            {"name": "melody60", "path": DATA / "melodymodel" / "6_0" / "Melody Model Test.aird"},
            {"name": "libtest", "path": DATA / "Library Test" / "Library Test.aird"},
        ]
        for extra in ("writemodel/WriteTestModel.aird", "pvmt/PVMTTest.aird", "filtering/filtering.aird",
                      "decl/empty_project_52/empty_project_52.aird"):
            p = DATA / extra
            if p.exists():
                specs.append({"name": p.stem, "path": p})
    return specs


def load(spec: dict, **kw):
    import capellambse
    args = {k: v for k, v in spec.items() if k not in ("name", "path")}
    args.update(kw)
    return capellambse.MelodyModel(str(spec["path"]), **args)
