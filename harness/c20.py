"""C20 — ReqIF export is closed, unique and covers every requirement exactly once."""
from __future__ import annotations

import collections
import datetime
import io
import pathlib
import re
import sys
import traceback
import zipfile

sys.path.insert(0, str(pathlib.Path(__file__).resolve().parent))
import lib
from lib import Err, err_of

from lxml import etree
import lxml.html

XSI_TYPE = "{http://www.w3.org/2001/XMLSchema-instance}type"
RNS = "{http://www.omg.org/spec/ReqIF/20110401/reqif.xsd}"
KINDS = ["BOOLEAN", "DATE", "ENUMERATION", "INTEGER", "REAL", "STRING"]
UUID_RE = re.compile(r"[0-9A-Fa-f]{8}-[0-9A-Fa-f]{4}-[0-9A-Fa-f]{4}-[0-9A-Fa-f]{4}-[0-9A-Fa-f]{12}")
FIXED_TIME = datetime.datetime(2024, 1, 2, 3, 4, 5, tzinfo=datetime.timezone.utc)
MODELS = ["5_0", "5_2", "6_0"]


# ------------------------------------------------------------------ independent views
def lname(el) -> str:
    return etree.QName(el).localname if isinstance(el.tag, str) else "#node"


def esc(t: str) -> str:
    return t.replace("&", "&amp;").replace("<", "&lt;").replace(">", "&gt;")


def plain_text(el) -> str:
    return "".join(el.itertext())


def canon(el) -> str:
    """canonical text of an (X)HTML tree: local names, sorted attributes, text and tails"""
    if not isinstance(el.tag, str):
        return "<!>"
    out = ["<", lname(el)]
    for k in sorted(el.attrib):
        out.append(f' {etree.QName(k).localname}="{el.attrib[k]}"')
    out.append(">")
    out.append(esc(el.text or ""))
    for c in el:
        out.append(canon(c))
        out.append(esc(c.tail or ""))
    out.append(f"</{lname(el)}>")
    return "".join(out)


def xhtml_of(html_val: str):
    """the external function of the model: lxml's HTML parser + html_to_xhtml; None = cannot parse"""
    try:
        el = lxml.html.fromstring(html_val)
        lxml.html.html_to_xhtml(el)
        # what survives a serialise/parse round trip is what a reader of the file sees
        el = etree.fromstring(etree.tostring(el))
        return canon(el)
    except Exception as e:  # noqa: BLE001
        return err_of(e)


def text_of(html_val: str):
    try:
        return "".join(lxml.html.fromstring(html_val).itertext())
    except Exception:  # noqa: BLE001
        return None


class RawIndex:
    """id -> element over every tree of the loaded model (plain lxml, no capellambse index)"""

    def __init__(self, model):
        self.model = model
        self.refresh()

    def refresh(self):
        self.byid = {}
        for tree in self.model._loader.trees.values():
            for el in tree.root.iter():
                i = el.get("id")
                if i is not None:
                    self.byid[i] = el

    def links(self, el, attr):
        v = el.get(attr)
        if not v:
            return []
        return [part.split("#")[-1] for part in v.split() if "#" in part]

    def link1(self, el, attr):
        ls = self.links(el, attr)
        return ls[0] if ls else None


def xt(el) -> str:
    return (el.get(XSI_TYPE) or "").split(":")[-1]


def abstract_attr(ix: RawIndex, a):
    kindname = xt(a)[: -len("ValueAttribute")].upper()
    k = KINDS.index(kindname)
    du = ix.link1(a, "definition")
    d = None
    if du is not None:
        de = ix.byid[du]
        tu = ix.link1(de, "definitionType")
        dt = None
        if tu is not None:
            te = ix.byid[tu]
            dt = [tu, [v.get("id") for v in te if v.tag == "specifiedValues"]]
        d = [du, xt(de) == "AttributeDefinitionEnumeration", de.get("multiValued") == "true", dt]
    raw = a.get("value")
    if kindname == "BOOLEAN":
        p = [0, raw == "true"]
    elif kindname == "DATE":
        if raw is None:
            p = [1, None]
        else:
            ts = datetime.datetime.strptime(raw, "%Y-%m-%dT%H:%M:%S.%f%z")
            p = [1, ts.astimezone(datetime.timezone.utc).strftime("%Y-%m-%dT%H:%M:%SZ")]
    elif kindname == "ENUMERATION":
        p = [2, ix.links(a, "values")]
    elif kindname == "INTEGER":
        p = [3, int(raw) if raw is not None else 0]
    elif kindname == "REAL":
        x = float(raw) if raw is not None else 0.0
        p = [4, 1 if x == float("inf") else 2 if x == float("-inf") else 0, repr(x)]
    else:
        p = [5, raw or ""]
    return [d, p]


def abstract_req(ix: RawIndex, r):
    return [r.get("id"), ix.link1(r, "requirementType"), r.get("ReqIFLongName") or "", r.get("ReqIFIdentifier") or "",
            r.get("ReqIFChapterName") or "", r.get("ReqIFName") or "", r.get("ReqIFText") or "",
            [abstract_attr(ix, a) for a in r if a.tag == "ownedAttributes"]]


def abstract_folder(ix: RawIndex, el):
    kids = [c for c in el if c.tag == "ownedRequirements"]
    return [[abstract_req(ix, c) for c in kids if xt(c) == "Requirement"],
            [abstract_folder(ix, c) for c in kids if xt(c) == "Folder"]]


def dfs_plain(folder):
    out = [r for r in folder[0]]
    for sub in folder[1]:
        out.extend(dfs_plain(sub))
    return out


def abstract_module(model, mod, ix: RawIndex):
    el = mod._element
    root = abstract_folder(ix, el)
    m = [model.uuid, el.get("id"), ix.link1(el, "moduleType"), el.get("ReqIFLongName") or "", root]
    table = {}
    for r in dfs_plain(root):
        for v in r[4:7]:
            hv = v if v else "<div></div>"
            table.setdefault(hv, xhtml_of(hv))
    hv = f"<div>{m[3]}</div>"
    table.setdefault(hv, xhtml_of(hv))
    return m, [[k, v] for k, v in table.items()]


doc_texts: dict = {}


def abstract_doc(data: bytes):
    """re-parse the exported bytes with lxml only and reduce to the model's observable"""
    root = etree.fromstring(data)
    problems = []
    xtexts = {}
    if root.tag != RNS + "REQ-IF":
        problems.append(f"root is {root.tag}")
    content = root.find(f"{RNS}CORE-CONTENT/{RNS}REQ-IF-CONTENT")
    header = root.find(f"{RNS}THE-HEADER/{RNS}REQ-IF-HEADER")
    if content is None or header is None:
        return None, ["header or content missing"], root
    secs = [lname(c) for c in content]
    if secs != ["DATATYPES", "SPEC-TYPES", "SPEC-OBJECTS", "SPEC-RELATIONS", "SPECIFICATIONS", "SPEC-RELATION-GROUPS"]:
        problems.append(f"sections {secs}")

    def sect(n):
        return content.find(RNS + n)

    def ref_of(parent, wrapper, expect_tag=None):
        w = parent.find(RNS + wrapper)
        if w is None or len(w) != 1:
            problems.append(f"{lname(parent)}/{wrapper} missing")
            return ""
        if expect_tag and lname(w[0]) != expect_tag:
            problems.append(f"{lname(parent)}/{wrapper}/{lname(w[0])} should be {expect_tag}")
        return w[0].text or ""

    def addecl(a):
        t = lname(a)
        if not t.startswith("ATTRIBUTE-DEFINITION-"):
            problems.append(f"unexpected {t} in SPEC-ATTRIBUTES")
        suffix = t[len("ATTRIBUTE-DEFINITION-"):]
        mv = a.get("MULTI-VALUED")
        if mv not in (None, "true", "false"):
            problems.append(f"MULTI-VALUED={mv}")
        return [suffix, a.get("IDENTIFIER"), ref_of(a, "TYPE", f"DATATYPE-DEFINITION-{suffix}-REF"),
                None if mv is None else mv == "true"]

    def spectype(st):
        attrs = st.find(RNS + "SPEC-ATTRIBUTES")
        decls = [addecl(a) for a in (attrs if attrs is not None else [])]
        std = [d for d in decls if (d[1] or "").startswith("_STD-")]
        oth = sorted((d for d in decls if not (d[1] or "").startswith("_STD-")), key=lambda d: d[1])
        if decls[: len(std)] != std:
            problems.append("standard attribute definitions are not first")
        return [st.get("IDENTIFIER"), std, oth]

    def value(v):
        t = lname(v)
        if not t.startswith("ATTRIBUTE-VALUE-"):
            problems.append(f"unexpected {t} in VALUES")
        suffix = t[len("ATTRIBUTE-VALUE-"):]
        dref = ref_of(v, "DEFINITION", f"ATTRIBUTE-DEFINITION-{suffix}-REF")
        if suffix == "XHTML":
            tv = v.find(RNS + "THE-VALUE")
            if tv is None or len(tv) != 1:
                problems.append("XHTML THE-VALUE without exactly one child")
                return [1, dref, ""]
            if not tv[0].tag.startswith("{http://www.w3.org/1999/xhtml}"):
                problems.append("XHTML content outside the xhtml namespace")
            xtexts[dref] = plain_text(tv[0])
            return [1, dref, canon(tv[0])]
        if suffix == "ENUMERATION":
            vals = v.find(RNS + "VALUES")
            refs = [] if vals is None else [(e.text or "") for e in vals]
            if vals is not None and any(lname(e) != "ENUM-VALUE-REF" for e in vals):
                problems.append("non ENUM-VALUE-REF in VALUES")
            return [2, dref, refs]
        tv = v.get("THE-VALUE")
        if tv is None:
            problems.append(f"{t} without THE-VALUE")
        return [0, suffix, tv or "", dref]

    dts = []
    for d in sect("DATATYPES"):
        t = lname(d)
        if not t.startswith("DATATYPE-DEFINITION-"):
            problems.append(f"unexpected {t} in DATATYPES")
        sv = d.find(RNS + "SPECIFIED-VALUES")
        dts.append([t[len("DATATYPE-DEFINITION-"):], d.get("IDENTIFIER"),
                    [e.get("IDENTIFIER") for e in (sv if sv is not None else [])]])
    dts.sort(key=lambda x: x[1])
    sts = list(sect("SPEC-TYPES"))
    if not sts or lname(sts[-1]) != "SPECIFICATION-TYPE" or any(lname(s) != "SPEC-OBJECT-TYPE" for s in sts[:-1]):
        problems.append("SPEC-TYPES layout")
        return None, problems, root
    sots = sorted((spectype(s) for s in sts[:-1]), key=lambda s: s[0])
    stype = spectype(sts[-1])
    objs = []
    otexts = []
    for o in sect("SPEC-OBJECTS"):
        xtexts = {}
        otexts.append(xtexts)
        if lname(o) != "SPEC-OBJECT":
            problems.append(f"unexpected {lname(o)} in SPEC-OBJECTS")
        vals = o.find(RNS + "VALUES")
        objs.append([o.get("IDENTIFIER"), o.get("LONG-NAME"), [value(v) for v in (vals if vals is not None else [])],
                     ref_of(o, "TYPE", "SPEC-OBJECT-TYPE-REF")])
    specs = list(sect("SPECIFICATIONS"))
    if len(specs) != 1:
        problems.append(f"{len(specs)} SPECIFICATION elements")
        return None, problems, root
    sp = specs[0]
    hier = []
    ch = sp.find(RNS + "CHILDREN")
    for h in (ch if ch is not None else []):
        if lname(h) != "SPEC-HIERARCHY" or h.find(RNS + "CHILDREN") is not None:
            problems.append("unexpected hierarchy shape")
        hier.append([h.get("IDENTIFIER"), ref_of(h, "OBJECT", "SPEC-OBJECT-REF")])
    spvals = sp.find(RNS + "VALUES")
    spec = [sp.get("IDENTIFIER"), ref_of(sp, "TYPE", "SPECIFICATION-TYPE-REF"),
            [value(v) for v in (spvals if spvals is not None else [])], hier]
    ids = [e.get("IDENTIFIER") for e in root.iter() if isinstance(e.tag, str) and e.get("IDENTIFIER") is not None]
    refs = [(e.text or "") for e in root.iter() if isinstance(e.tag, str) and e.tag.startswith(RNS) and e.tag.endswith("-REF")]
    doc = [header.get("IDENTIFIER"), dts, sots, stype, objs, spec, sorted(ids), sorted(refs)]
    doc_texts[id(doc)] = otexts
    return doc, problems, root


def pattern(s: str) -> str:
    return UUID_RE.sub("<U>", s)


# ------------------------------------------------------------------ the property oracle on one export
def export_bytes(mod, **kw):
    buf = io.BytesIO()
    mod.to_reqif(buf, metadata={"creation_time": FIXED_TIME}, **kw)
    return buf.getvalue()


def classify_raise(exc: BaseException, m_abs) -> str:
    tb = traceback.extract_tb(exc.__traceback__)
    site = next((f.name for f in reversed(tb) if f.filename.endswith("reqif/exporter.py")), "?")
    reqs = dfs_plain(m_abs[4])
    name = type(exc).__name__
    why = "unexplained"
    if name == "AssertionError" and site == "_build_spec_object_types":
        if any(a[1][0] == 2 and a[0] is None for r in reqs for a in r[7]):
            why = "enum-attr-without-definition"
    elif name == "AttributeError" and site == "_build_datatypes":
        if any(a[0] is not None and a[0][1] and a[0][3] is None for r in reqs for a in r[7]):
            why = "enum-definition-without-datatype"
    elif site == "_build_standard_attribute_values":
        bad = [f for r in reqs for f, v in zip(("chapter_name", "name", "text"), r[4:7]) if v and xhtml_of(v) == err_of(exc)]
        if bad:
            why = "unparsable-xhtml-field"
    elif site == "_build_specifications":
        if xhtml_of(f"<div>{m_abs[3]}</div>") == err_of(exc):
            why = "module-long-name-as-html"
    return f"raises:{name}:{site}:{why}"


def oracle(chk, label: str, m_abs, data: bytes, counts) -> None:
    """uniqueness, closure (with kind agreement), coverage/order, values — on the XML, with plain Python"""
    def viol(key, what, extra=None):
        counts["violations"][key.split(":")[0]] += 1
        stream = re.sub(r"\d+$", "", label.split(":")[1]) if label.count(":") >= 2 and label.split(":")[1][:4] in ("hist", "ungu", "find") else "corpus"
        counts["by_stream"][stream][key.split(":")[0]] += 1
        chk.violation(key, f"{label}: {what}", {"module": label, "what": what, "abstract_module": m_abs, **(extra or {})})

    try:
        doc, problems, root = abstract_doc(data)
    except etree.XMLSyntaxError as e:
        viol("structure:not-well-formed-xml", f"exported bytes do not parse: {e}")
        return None
    for p in problems:
        viol("structure:" + pattern(p), p)
    if doc is None:
        return None
    # uniqueness
    owners = collections.defaultdict(list)
    for e in root.iter():
        if isinstance(e.tag, str) and e.get("IDENTIFIER") is not None:
            owners[e.get("IDENTIFIER")].append(e)
    for ident, els in owners.items():
        if len(els) > 1:
            tags = sorted({lname(e) for e in els})
            parents = {id(e.getparent().getparent()) for e in els}
            if (all(t.startswith("ATTRIBUTE-DEFINITION-") for t in tags) and not ident.startswith("_STD-")
                    and len(parents) == len(els)
                    and all(lname(e.getparent().getparent()) == "SPEC-OBJECT-TYPE" for e in els)):
                key = "dup-id:attrdef-across-types:" + pattern(ident)
            else:
                key = "dup-id:other:" + ",".join(tags) + ":" + pattern(ident)
            viol(key, f"IDENTIFIER {ident} occurs {len(els)} times ({', '.join(tags)})", {"identifier": ident})
    # closure with kind agreement
    for e in root.iter():
        if isinstance(e.tag, str) and e.tag.startswith(RNS) and e.tag.endswith("-REF"):
            tgt = owners.get(e.text or "")
            want = lname(e)[: -len("-REF")]
            if not tgt:
                viol(f"dangling:{lname(e)}:{pattern(e.text or '')}", f"{lname(e)} -> {e.text!r} resolves to nothing in the document",
                     {"ref": e.text})
            elif any(lname(t) != want for t in tgt):
                viol(f"ref-kind:{lname(e)}:{lname(tgt[0])}", f"{lname(e)} -> {e.text!r} resolves to a {lname(tgt[0])}", {"ref": e.text})
    # coverage and order
    reqs = dfs_plain(m_abs[4])
    want_ids = ["_" + r[0].upper() for r in reqs]
    got_objs = [o[0] for o in doc[4]]
    got_hier = [h[1] for h in doc[5][3]]
    if got_objs != want_ids:
        viol("coverage:spec-objects", f"SPEC-OBJECTS {got_objs} != depth-first requirements {want_ids}")
    if got_hier != want_ids:
        viol("coverage:hierarchy", f"SPEC-HIERARCHY object refs {got_hier} != depth-first requirements {want_ids}")
    # values
    if got_objs == want_ids:
        for r, o, xt_ in zip(reqs, doc[4], doc_texts.pop(id(doc))):
            vals = o[2]
            std, rest = vals[:4], vals[4:]
            byname = {}
            for v in std:
                mm = re.search(r"-ReqIF\.(\w+)$", v[-1] if v[0] == 0 else v[1])
                if mm:
                    byname[mm.group(1)] = v
            if sorted(byname) != ["ChapterName", "ForeignID", "Name", "Text"] or len(std) != 4:
                viol("values:standard-fields-missing", f"{o[0]}: standard fields {sorted(byname)}")
                continue
            if byname["ForeignID"][0] != 0 or byname["ForeignID"][2] != r[3]:
                viol("values:ForeignID", f"{o[0]}: ForeignID {byname['ForeignID']} != identifier {r[3]!r}")
            if (o[1] or "") != r[2]:
                viol("values:LONG-NAME", f"{o[0]}: LONG-NAME {o[1]!r} != long_name {r[2]!r}")
            for fname, plain, raw in (("ChapterName", True, r[4]), ("Name", True, r[5]), ("Text", False, r[6])):
                v = byname[fname]
                if v[0] != 1:
                    viol(f"values:{fname}", f"{o[0]}: {fname} is not an XHTML value")
                    continue
                got_text = xt_.get(v[1], "")
                if raw and v[2] != xhtml_of(raw):
                    viol(f"values:{fname}:markup", f"{o[0]}: {fname} {v[2]!r} is not the XHTML form of {raw!r}")
                elif not raw and got_text != "":
                    viol(f"values:{fname}", f"{o[0]}: empty {fname} exported as {v[2]!r}")
                elif plain and raw and got_text != raw:
                    # plain-text field (ReqIFName / ReqIFChapterName) whose characters were taken as markup
                    viol(f"not-intact:plain-text-as-html:{fname}",
                         f"{o[0]}: plain-text {fname} {raw!r} exported with text {got_text!r} ({v[2]!r})", {"field": raw})
                elif not plain and raw and got_text != (text_of(raw) or ""):
                    viol(f"values:{fname}:text", f"{o[0]}: Text content {got_text!r} != {text_of(raw)!r}")
            if len(rest) != len(r[7]):
                viol("values:attribute-count", f"{o[0]}: {len(rest)} attribute values for {len(r[7])} attributes")
                continue
            for (d, p), v in zip(r[7], rest):
                kind = KINDS[[0, 1, 2, 3, 4, 5][p[0]]]
                if p[0] == 2:
                    want = [2, None, ["_" + x.upper() for x in p[1]]]
                    if v[0] != 2 or v[2] != want[2]:
                        viol("values:enum-choices", f"{o[0]}: enumeration choices {v} != {want[2]}")
                else:
                    exp = {0: lambda: "true" if p[1] else "false",
                           1: lambda: p[1] if p[1] is not None else "1990-01-01T00:00:00Z",
                           3: lambda: str(p[1]),
                           4: lambda: "Infinity" if p[1] == 1 else "-Infinity" if p[1] == 2 else p[2],
                           5: lambda: p[1]}[p[0]]()
                    if v[0] != 0 or v[1] != kind or v[2] != exp:
                        viol(f"values:{kind}", f"{o[0]}: {kind} attribute exported as {v}, expected THE-VALUE {exp!r}")
                if d is not None and not v[-1 if v[0] == 0 else 1].startswith("_" + d[0].upper()):
                    viol("values:definition-ref", f"{o[0]}: attribute of definition {d[0]} references {v}")
            want_t = "_" + r[1].upper() if r[1] else None
            if want_t is not None and o[3] != want_t:
                viol("values:type-ref", f"{o[0]}: type ref {o[3]} != {want_t}")
    return doc


# ------------------------------------------------------------------ edit histories through the public API
PLAIN = ["Pump", "a < b", "x & y", "q \"d\" 'r'", "1 > 0", "Größe µ", "tab\tsep", "50% & more; done", "R-1.2", "x", "A  B"]
MARKUPISH = ["a<b then c>d", "&amp;", "<p>hi</p>", "x &lt; y", "<br>", "if a<b"]
BLANKISH = [" ", "\n", "<!-- c -->", "</div>"]
TEXTS = ["<p>Hello &amp; <b>bold</b> &lt;tag&gt;</p>", "plain text", "<ul><li>a</li><li>b &quot;q&quot;</li></ul>",
         "<p>x</p><p>y</p>", "a < b", "<div><span style=\"c\">s</span></div>", "line1<br>line2", "<p>&nbsp;é</p>", ""]


class History:
    """one module built and edited through the public API; `guard` keeps it inside the hypotheses of
    the guarded theorems (so the whole property is expected to hold)"""

    def __init__(self, model, rng, n, guard=True):
        self.model, self.rng, self.guard = model, rng, guard
        layer = rng.choice([model.oa, model.sa, model.la, model.pa])
        self.mod = layer.requirement_modules.create(name=f"H{n}", long_name=rng.choice(["Spec", "S & T", "", "A < B"]))
        self.tf = self.mod.requirement_types_folders.create(long_name="types")
        self.types, self.defs, self.edefs, self.dts, self.ets, self.mts = [], [], [], [], [], []
        self.tdefs = {}          # type uuid -> ([plain defs], [enum defs])
        self.key_owner = {}      # (def uuid|None, kind) -> type uuid|None   (guard: no key under two types)
        self.ops = collections.Counter()

    # containers
    def folders(self):
        out, todo = [], list(self.mod.folders)
        while todo:
            f = todo.pop()
            out.append(f)
            todo.extend(f.folders)
        return out

    def containers(self):
        return [self.mod] + self.folders()

    def reqs(self):
        return [r for c in self.containers() for r in c.requirements]

    def pick_plain(self):
        r = self.rng.random()
        if r < 0.15:
            return ""
        return self.rng.choice(PLAIN)

    # operations
    def op_type(self):
        if self.rng.random() < 0.3 and not self.dts:
            self.dts.append(self.tf.data_type_definitions.create("DataTypeDefinition", long_name=f"DT{len(self.dts)}"))
        if self.rng.random() < 0.4 or not self.ets:
            et = self.tf.data_type_definitions.create("EnumerationDataTypeDefinition", long_name=f"ET{len(self.ets)}")
            for i in range(self.rng.randint(0, 3)):
                et.values.create(long_name=f"v{i}")
            self.ets.append(et)
        rt = self.tf.requirement_types.create(long_name=self.rng.choice(["RT", "R&T", ""]))
        mine = self.tdefs.setdefault(rt.uuid, ([], []))
        for _ in range(self.rng.choice([0, 2, 3, 4, 5])):       # types with and without attribute definitions
            if self.rng.random() < 0.45:
                d = rt.attribute_definitions.create("AttributeDefinitionEnumeration", long_name=f"E{len(self.edefs)}",
                                                    data_type=self.rng.choice(self.ets),
                                                    multi_valued=self.rng.random() < 0.5)
                mine[1].append(d)
                self.edefs.append(d)
            else:
                kw = {}
                if self.dts and self.rng.random() < 0.6:
                    kw["data_type"] = self.rng.choice(self.dts)
                d = rt.attribute_definitions.create("AttributeDefinition", long_name=f"D{len(self.defs)}", **kw)
                mine[0].append(d)
                self.defs.append(d)
        self.types.append(rt)

    def op_module_type(self):
        if self.rng.random() < 0.3 and self.mod.type is not None:
            del self.mod.type
        else:
            if not self.mts or self.rng.random() < 0.3:
                self.mts.append(self.tf.module_types.create(long_name=f"MT{len(self.mts)}"))
            self.mod.type = self.rng.choice(self.mts)

    def op_req(self):
        c = self.rng.choice(self.containers())
        kw = dict(name=self.pick_plain(), chapter_name=self.pick_plain(), long_name=self.pick_plain(),
                  identifier=self.rng.choice(["", "REQ-1", "id & <x>", "7"]), text=self.rng.choice(TEXTS))
        if self.types and self.rng.random() < 0.7:
            kw["type"] = self.rng.choice(self.types)
        r = c.requirements.create(**kw)
        for _ in range(self.rng.choice([0, 1, 2, 4])):
            self.op_attr(r)

    def op_folder(self):
        c = self.rng.choice(self.containers())
        c.folders.create(name=self.pick_plain(), text=self.rng.choice(TEXTS))

    def op_attr(self, r=None):
        rs = self.reqs()
        if r is None:
            if not rs:
                return
            r = self.rng.choice(rs)
        rt = r.type
        tkey = rt.uuid if rt is not None else None
        kind = self.rng.choice(["bool", "date", "enum", "int", "real", "str"])
        own_defs, own_edefs = self.tdefs.get(tkey, ([], []))
        if kind == "enum":
            cands = own_edefs if self.guard else (self.edefs or [None])
            if not cands:
                return
            d = self.rng.choice(cands)
        else:
            cands = own_defs if self.guard else self.defs
            d = self.rng.choice(cands) if cands and self.rng.random() < 0.6 else None
        key = (d.uuid if d is not None else None, kind)
        if self.guard and self.key_owner.setdefault(key, tkey) != tkey:
            return                                     # would put one attribute definition under two spec object types
        kw = {}
        if d is not None:
            kw["definition"] = d
        if kind == "enum":
            vals = list(d.data_type.values) if d is not None and d.data_type is not None else []
            self.rng.shuffle(vals)
            kw["values"] = vals[: self.rng.randint(0, len(vals))]
        elif kind == "bool":
            kw["value"] = self.rng.random() < 0.5
        elif kind == "int":
            kw["value"] = self.rng.choice([0, 1, -5, 2**31, -(2**40), 10**20, 42])
        elif kind == "real":
            kw["value"] = self.rng.choice([0.0, -0.0, 1.5, 1e22, 1e-7, 123456789.125, -3.25, 0.1])
        elif kind == "str":
            kw["value"] = self.rng.choice(["", "a<b>&\"'", "line1\nline2\ttab", "ünï", "]]>", "  spaced  "])
        a = r.attributes.create(kind, **kw)
        if kind == "date" and self.rng.random() < 0.7:
            tz = datetime.timezone(datetime.timedelta(hours=self.rng.choice([0, 2, -5, 5.5])))
            a.value = datetime.datetime(self.rng.randint(1971, 2037), self.rng.randint(1, 12), self.rng.randint(1, 28),
                                        self.rng.randint(0, 23), self.rng.randint(0, 59), self.rng.randint(0, 59), tzinfo=tz)
        if kind == "real" and self.rng.random() < 0.15:
            a._element.set("value", self.rng.choice(["inf", "-inf", "Infinity"]))   # a file may hold these

    def op_enum_values(self):
        cands = [a for r in self.reqs() for a in r.attributes if type(a).__name__ == "EnumerationValueAttribute"
                 and a.definition is not None and a.definition.data_type is not None]
        if not cands:
            return
        a = self.rng.choice(cands)
        vals = list(a.definition.data_type.values)
        self.rng.shuffle(vals)
        a.values = vals[: self.rng.randint(0, len(vals))]

    def op_remove(self):
        c = self.rng.choice(self.containers())
        if self.rng.random() < 0.6 and len(c.requirements):
            c.requirements.remove(self.rng.choice(list(c.requirements)))
        elif len(c.folders):
            c.folders.remove(self.rng.choice(list(c.folders)))

    def op_move(self):
        cs = self.containers()
        dst = self.rng.choice(cs)
        if self.rng.random() < 0.6:
            rs = self.reqs()
            if not rs:
                return
            r = self.rng.choice(rs)
            if self.rng.random() < 0.5:
                dst.requirements.append(r)
            else:
                dst.requirements.insert(self.rng.randint(0, len(dst.requirements)), r)
        else:
            fs = self.folders()
            if not fs:
                return
            f = self.rng.choice(fs)
            anc = dst._element
            while anc is not None:                      # never move a folder below itself
                if anc is f._element:
                    return
                anc = anc.getparent()
            dst.folders.append(f)

    def op_edit_text(self):
        rs = self.reqs()
        if not rs:
            return
        r = self.rng.choice(rs)
        which = self.rng.choice(["name", "chapter_name", "text", "long_name", "identifier"])
        if which == "text":
            r.text = self.rng.choice(TEXTS)
        else:
            setattr(r, which, self.pick_plain())

    def op_retype(self):
        rs = self.reqs()
        if not rs or self.guard:
            return
        r = self.rng.choice(rs)
        if self.types and self.rng.random() < 0.7:
            r.type = self.rng.choice(self.types)
        elif r.type is not None:
            del r.type

    OPS = [("type", 2), ("module_type", 1), ("req", 6), ("folder", 3), ("attr", 5), ("enum_values", 2),
           ("remove", 2), ("move", 3), ("edit_text", 2), ("retype", 1)]

    def step(self):
        names = [n for n, w in self.OPS for _ in range(w)]
        n = self.rng.choice(names)
        getattr(self, "op_" + n)()
        self.ops[n] += 1


# ------------------------------------------------------------------ the check
def run(chk: lib.Check):
    import os
    os.environ.pop("CAPELLAMBSE_XHTML", None)
    import capellambse

    pr = chk.prove()
    quick = chk.tier == "quick"
    rng = chk.rng
    counts = {"by_stream": collections.defaultdict(collections.Counter), "violations": collections.Counter(), "exports": 0, "raises": collections.Counter(), "ops": collections.Counter(),
              "reqs": 0, "max_depth": 0, "attrs": collections.Counter(), "null_defs": 0, "untyped": 0, "compressed": 0}
    cases = []          # ([module, xhtml table], abstract document | Err)
    descr = []
    ccases = []
    dfs_cases = []

    def depth(f):
        return 1 + max([depth(s) for s in f[1]] or [0])

    def check_module(model, mod, ix, label, compress_too=False, scratch=None):
        ix.refresh()
        m_abs, table = abstract_module(model, mod, ix)
        reqs = dfs_plain(m_abs[4])
        counts["reqs"] += len(reqs)
        counts["max_depth"] = max(counts["max_depth"], depth(m_abs[4]))
        for r in reqs:
            counts["untyped"] += r[1] is None
            for d, p in r[7]:
                counts["attrs"][KINDS[p[0]]] += 1
                counts["null_defs"] += d is None
        # API view of the tree agrees with the raw view (what the exporter walks)
        dfs_cases.append((m_abs[4], [r[0] for r in reqs]))
        try:
            data = export_bytes(mod)
        except Exception as e:  # noqa: BLE001
            key = classify_raise(e, m_abs)
            counts["raises"][key] += 1
            chk.violation(key, f"{label}: to_reqif raised {type(e).__name__}: {e}",
                          {"module": label, "abstract_module": m_abs, "error": repr(e)})
            out = err_of(e)
            chk.note_case((label, "raise", key))
            cases.append(([m_abs, table], out))
            descr.append(label)
            return None
        counts["exports"] += 1
        doc = oracle(chk, label, m_abs, data, counts)
        chk.note_case((label, len(data), hash(data)), nontrivial=len(reqs) > 0)
        if doc is not None:
            cases.append(([m_abs, table], doc))
            descr.append(label)
        if compress_too and scratch is not None:
            # every way of asking for (un)compressed output
            variants = []
            for cflag in (None, True, False):
                for name in ("out.reqifz", "out.reqif", "weird.reqifz.txt", None):
                    variants.append((cflag, name))
            for cflag, name in variants:
                try:
                    if name is None:
                        buf = io.BytesIO()
                        mod.to_reqif(buf, metadata={"creation_time": FIXED_TIME}, compress=cflag)
                        got = buf.getvalue()
                    else:
                        p = scratch / name
                        try:
                            mod.to_reqif(p, metadata={"creation_time": FIXED_TIME}, compress=cflag)
                            got = p.read_bytes()
                        finally:
                            if p.exists():
                                p.unlink()
                except Exception as e:  # noqa: BLE001
                    import gc
                    gc.collect()
                    chk.violation(f"compress:raises:{type(e).__name__}",
                                  f"{label}: to_reqif({name!r}, compress={cflag}) raised {type(e).__name__}: {e}",
                                  {"module": label, "compress": cflag, "name": name, "error": repr(e)})
                    # the modelled decision is still observable: an archive was being written
                    ccases.append(([cflag, name is not None, name or ""], True))
                    continue
                is_zip = got[:2] == b"PK"
                ccases.append(([cflag, name is not None, name or ""], is_zip))
                if is_zip:
                    counts["compressed"] += 1
                    with zipfile.ZipFile(io.BytesIO(got)) as zf:
                        names = zf.namelist()
                        inner = zf.read(names[0]) if names else b""
                    if names != ["export.reqif"] or inner != data:
                        chk.violation("compress:different-document", f"{label}: archive members {names}; same bytes: {inner == data}",
                                      {"module": label, "compress": cflag, "name": name})
                elif got != data:
                    chk.violation("compress:plain-differs", f"{label}: uncompressed output for compress={cflag}, name={name} differs",
                                  {"module": label, "compress": cflag, "name": name})
                if name and name.endswith(".reqifz") and cflag is None and not is_zip:
                    chk.violation("compress:not-compressed", f"{label}: '{name}' was not written as an archive", {"module": label})
        return doc

    n_hist = 14 if quick else 150
    n_steps = (10, 28) if quick else (10, 60)
    with lib.scratch("c20-") as tmp:
        for mi, ver in enumerate(MODELS):
            model = capellambse.MelodyModel(lib.REPO / "tests/data/melodymodel" / ver / "Melody Model Test.aird")
            ix = RawIndex(model)
            # ---- every module of the corpus model, unedited
            for mod in model.search("CapellaModule"):
                check_module(model, mod, ix, f"{ver}:{mod.name or mod.uuid}:unedited", compress_too=True, scratch=tmp)
            # ---- guarded edit histories on fresh modules (the property is expected to hold)
            for h in range(n_hist):
                hist = History(model, rng, f"{ver}-{h}", guard=True)
                hist.op_type()
                for s in range(rng.randint(*n_steps)):
                    hist.step()
                    if s % 9 == 8:
                        check_module(model, hist.mod, ix, f"{ver}:hist{h}:step{s}")
                check_module(model, hist.mod, ix, f"{ver}:hist{h}:final", compress_too=(h == 0), scratch=tmp)
                counts["ops"].update(hist.ops)
            # ---- unguarded histories: definitions shared across types, retyped requirements
            for h in range(max(2, n_hist // 4)):
                hist = History(model, rng, f"{ver}-u{h}", guard=False)
                hist.op_type(); hist.op_type()
                for s in range(rng.randint(*n_steps)):
                    hist.step()
                # keep to the stream's purpose: enum attributes still need a complete definition
                for r in hist.reqs():
                    for a in list(r.attributes):
                        if type(a).__name__ == "EnumerationValueAttribute" and (a.definition is None or a.definition.data_type is None):
                            r.attributes.remove(a)
                check_module(model, hist.mod, ix, f"{ver}:unguarded{h}:final")
                counts["ops"].update(hist.ops)
            # ---- edits of the corpus modules themselves
            for mod in model.search("CapellaModule"):
                if not (mod.name or "").startswith("H"):
                    hist = History.__new__(History)
                    hist.model, hist.rng, hist.guard, hist.mod = model, rng, True, mod
                    hist.types, hist.defs, hist.edefs, hist.dts, hist.ets, hist.mts = [], [], [], [], [], []
                    hist.key_owner = {}
                    hist.tdefs = {}
                    hist.ops = collections.Counter()
                    tfs = list(mod.requirement_types_folders)
                    hist.tf = tfs[0] if tfs else mod.requirement_types_folders.create(long_name="types")
                    # existing keys of the module stay where they are
                    m_abs, _ = abstract_module(model, mod, ix)
                    for r in dfs_plain(m_abs[4]):
                        for d, p in r[7]:
                            hist.key_owner[(d[0] if d else None, ["bool", "date", "enum", "int", "real", "str"][p[0]])] = r[1]
                    for s in range(12 if quick else 40):
                        hist.step()
                    check_module(model, mod, ix, f"{ver}:{mod.name or mod.uuid}:edited")
            # ---- the recorded defects, each on a minimal module (kept narrow: one cause per module)
            if mi == 1 or not quick:
                def fresh(n):
                    hh = History(model, rng, f"{ver}-f{n}", guard=False)
                    return hh
                # (1) attribute without definition under two requirement types
                hh = fresh(1)
                rt = hh.tf.requirement_types.create(long_name="T")
                a = hh.mod.requirements.create(name="typed", type=rt)
                b = hh.mod.requirements.create(name="untyped")
                a.attributes.create("bool", value=True)
                b.attributes.create("bool", value=False)
                check_module(model, hh.mod, ix, f"{ver}:finding:null-definition-under-two-types")
                # (2) one attribute definition used by requirements of two types
                hh = fresh(2)
                rt1 = hh.tf.requirement_types.create(long_name="T1")
                rt2 = hh.tf.requirement_types.create(long_name="T2")
                d = rt1.attribute_definitions.create("AttributeDefinition", long_name="D")
                hh.mod.requirements.create(name="a", type=rt1).attributes.create("str", value="x", definition=d)
                hh.mod.requirements.create(name="b", type=rt2).attributes.create("str", value="y", definition=d)
                check_module(model, hh.mod, ix, f"{ver}:finding:definition-under-two-types")
                # (3) enumeration attribute without definition
                hh = fresh(3)
                hh.mod.requirements.create(name="e").attributes.create("enum")
                check_module(model, hh.mod, ix, f"{ver}:finding:enum-without-definition")
                # (4) enumeration definition without data type
                hh = fresh(4)
                rt = hh.tf.requirement_types.create(long_name="T")
                d = rt.attribute_definitions.create("AttributeDefinitionEnumeration", long_name="E")
                hh.mod.requirements.create(name="e", type=rt).attributes.create("enum", definition=d)
                check_module(model, hh.mod, ix, f"{ver}:finding:enum-definition-without-datatype")
                # (5) blank / unparsable XHTML-typed standard field
                for i, s in enumerate(BLANKISH if not quick else BLANKISH[:2]):
                    hh = fresh(50 + i)
                    hh.mod.requirements.create(**{rng.choice(["name", "chapter_name"]): s})
                    check_module(model, hh.mod, ix, f"{ver}:finding:blank-field-{i}")
                # (7) module long_name taken as HTML
                hh = fresh(7)
                hh.mod.long_name = "A<B"
                hh.mod.requirements.create(name="r")
                check_module(model, hh.mod, ix, f"{ver}:finding:module-long-name")
                # (6) plain-text field with markup-significant characters
                for i, s in enumerate(MARKUPISH if not quick else MARKUPISH[:3]):
                    hh = fresh(60 + i)
                    hh.mod.requirements.create(name=s, chapter_name="ok")
                    check_module(model, hh.mod, ix, f"{ver}:finding:plain-text-markup-{i}")
            del model

    # ---------------- correspondence: model export = re-parsed implementation output
    chk.coverage.update({
        "exports": counts["exports"], "export_raises": dict(counts["raises"]), "requirements_exported": counts["reqs"],
        "max_folder_depth": counts["max_depth"], "attributes_by_kind": dict(counts["attrs"]),
        "attributes_without_definition": counts["null_defs"], "untyped_requirements": counts["untyped"],
        "edit_operations": dict(counts["ops"]), "compressed_outputs_checked": counts["compressed"],
        "oracle_violations_by_class": dict(counts["violations"]),
        "oracle_violations_by_stream": {k: dict(v) for k, v in counts["by_stream"].items()},
        "rule": "every CapellaModule of melodymodel 5_0/5_2/6_0 unedited; seeded edit histories through the public API on fresh "
                "modules (guarded stream inside the theorems' hypotheses, unguarded stream with shared definitions / retyped "
                "requirements), edits of the corpus modules, one minimal module per recorded defect; each export re-parsed with "
                "lxml only; non-trivial = module with at least one requirement",
    })
    if cases:
        big = max(range(len(cases)), key=lambda i: len(dfs_plain(cases[i][0][0][4])))
        chk.samples.append({"module": descr[big], "requirements": len(dfs_plain(cases[big][0][0][4])),
                            "identifiers": len(cases[big][1][6]) if not isinstance(cases[big][1], Err) else None})
    chk.correspond("From V Require Import Model.Reqif.", "w_export", cases, tag="C20_export", shard=12,
                   describe=lambda i: {"module": descr[i]})
    chk.correspond("From V Require Import Model.Reqif.", "w_compress", ccases, tag="C20_compress")
    chk.correspond("From V Require Import Model.Reqif.", "w_dfs", dfs_cases, tag="C20_dfs", shard=40)
    ints = [0, 1, -1, 9, 10, -10, 99, 100, 2**31, -(2**31), 10**20, -(10**25)] + [rng.randint(-10**12, 10**12) for _ in range(60)]
    chk.correspond("From V Require Import Model.Reqif.", "w_dec", [(i, str(i)) for i in ints], tag="C20_dec")
    ups = ["3c2d312c-37c9-41b5-8c32-67578fa52dc3", "ABC-def", "", "0123456789abcdef-"] + \
          ["".join(rng.choice("0123456789abcdefABCDEF-") for _ in range(rng.randint(1, 36))) for _ in range(40)]
    chk.correspond("From V Require Import Model.Reqif.", "w_upper", [(s, s.upper()) for s in ups], tag="C20_upper")
    chk.assumptions += [
        "lxml's HTML parser/html_to_xhtml and zipfile are external: Section variables [xhtml]/[zip] of Model/Reqif.v, "
        "instantiated per case from an independent call of lxml (sampled here)",
        "harness abstraction of the module reads the raw XML tree (ids, xsi:type, link attributes), not capellambse accessors",
        "depth-first order = a container's own requirements, then its folders in order (the order the API exposes)",
        "UUIDs are ASCII (str.upper modelled on ASCII); requirement relations are not exported by the code and are out of scope",
    ]


if __name__ == "__main__":
    lib.main("C20", run)
