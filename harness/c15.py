"""C15 — A failed save leaves the files on disk exactly as they were."""
from __future__ import annotations

import contextlib
import errno
import os
import pathlib
import re
import shutil
import sys

sys.path.insert(0, str(pathlib.Path(__file__).resolve().parent))
import lib
from lib import Err, err_of

sys.path.insert(0, str(lib.VERIF / "tools"))
import gen_savetxn

IMPORTS = "From V Require Import Model.SaveTxn."
WRITE_PHASE = ("open", "serialize", "write", "close")

KINDS = {
    "ENOSPC": lambda: OSError(errno.ENOSPC, "No space left on device (injected)"),
    "EACCES": lambda: PermissionError(errno.EACCES, "Permission denied (injected)"),
    "EIO": lambda: OSError(errno.EIO, "Input/output error (injected)"),
    "ValueError": lambda: ValueError("cannot serialize (injected)"),
    "KeyboardInterrupt": lambda: KeyboardInterrupt(),
}


class Injector:
    """Counts the fault points of a save in the order they are reached and raises the scheduled
    exception at the chosen ones.  Instruments from outside: Path.open (write modes), the returned
    file object's write/close, Path.replace, Path.unlink (all below `root`), and exs.serialize."""

    def __init__(self, root: pathlib.Path, sched: dict[int, BaseException]):
        self.root = str(root)
        self.sched = sched
        self.trace: list[tuple[str, str]] = []       # (kind, relative path)
        self.fired: list[tuple[int, str, str, BaseException]] = []

    def point(self, kind: str, path) -> None:
        k = len(self.trace)
        rel = os.path.relpath(str(path), self.root) if path else ""
        self.trace.append((kind, rel))
        if k in self.sched:
            exc = self.sched[k]
            self.fired.append((k, kind, rel, exc))
            raise exc

    def mine(self, p) -> bool:
        return str(p).startswith(self.root + os.sep)

    @contextlib.contextmanager
    def active(self):
        from capellambse.loader import exs
        inj = self
        o_open, o_replace, o_unlink = pathlib.Path.open, pathlib.Path.replace, pathlib.Path.unlink
        o_ser = exs.serialize

        class File:
            def __init__(self, real, path):
                self.real, self.path = real, path

            def write(self, data):
                try:
                    inj.point("write", self.path)
                except BaseException:
                    self.real.write(bytes(data)[: len(data) // 2])     # a torn write
                    raise
                return self.real.write(data)

            def flush(self):
                inj.point("flush", self.path)
                return self.real.flush()

            def close(self):
                if self.real.closed:
                    return None
                try:
                    inj.point("close", self.path)
                finally:
                    self.real.close()
                return None

            def __enter__(self):
                return self

            def __exit__(self, *exc):
                self.close()
                return False

            def __getattr__(self, a):
                return getattr(self.real, a)

        def p_open(self, mode="r", *a, **k):
            if inj.mine(self) and ("w" in mode or "a" in mode or "+" in mode):
                inj.point("open", self)
                return File(o_open(self, mode, *a, **k), self)
            return o_open(self, mode, *a, **k)

        def p_replace(self, target):
            if inj.mine(self):
                inj.point("replace", self)
            return o_replace(self, target)

        def p_unlink(self, *a, **k):
            if inj.mine(self):
                inj.point("unlink", self)
            return o_unlink(self, *a, **k)

        def p_ser(*a, **k):
            inj.point("serialize", None)
            return o_ser(*a, **k)

        pathlib.Path.open, pathlib.Path.replace, pathlib.Path.unlink = p_open, p_replace, p_unlink
        exs.serialize = p_ser
        try:
            yield self
        finally:
            pathlib.Path.open, pathlib.Path.replace, pathlib.Path.unlink = o_open, o_replace, o_unlink
            exs.serialize = o_ser


CURRENT: list = [None]       # the active injector (handler-level transactions announce their serialisation step)


def snapshot(root: pathlib.Path) -> dict[str, bytes]:
    return {str(p.relative_to(root)): p.read_bytes() for p in sorted(root.rglob("*")) if p.is_file()}


def tmp_of(consts, name: str) -> str:
    """independent re-statement of the temp-file naming rule (dot prefix beside the target)"""
    d, _, b = name.rpartition("/")
    keep = consts["limit"] - (len(consts["prefix"]) + len(consts["suffix"]))
    return (d + "/" if d else "") + consts["prefix"] + b[:keep] + consts["suffix"]


def run(chk: lib.Check):
    import capellambse
    from capellambse import loader
    from capellambse.filehandler import local as fhlocal

    pr = chk.prove()
    quick = chk.tier == "quick"
    rng = chk.rng
    consts = gen_savetxn.extract(lib.REPO)
    C = [consts["prefix"], consts["suffix"], consts["limit"]]
    data = lib.REPO / "tests" / "data"

    # ---------------- _tmpname: model vs implementation
    tn_cases = []
    names = ["a", "a.capella", "d/a.aird", "d/e/f.x", ".hidden", "d/.h.tmp", "x" * 249, "x" * 250 + ".y", "x" * 255,
             "d/" + "y" * 300, "Melody Model Test.aird", "fragments/Extra.capellafragment", "é.capella", "a.b/c"]
    for _ in range(40 if quick else 400):
        n = "/".join("".join(rng.choice("ab./é ") for _ in range(rng.randint(1, 6))).strip("/") or "z" for _ in range(rng.randint(1, 3)))
        if n and not n.endswith(("/", "/.", "/..")) and n.split("/")[-1] not in (".", "..", ""):
            names.append(n)
    for n in names:
        pp = pathlib.PurePosixPath(n)
        if str(pp) != n:
            continue
        tn_cases.append(([C[0], C[1], C[2], n], str(fhlocal._tmpname(pp))))
        if str(fhlocal._tmpname(pp)) != tmp_of(consts, n):
            chk.broken.append(f"harness: temp-name rule restated wrongly for {n!r}")
    chk.correspond(IMPORTS, "w_tmpname", tn_cases, tag="C15_tmp", describe=lambda i: {"_tmpname": tn_cases[i][0][3]})

    save_cases: list = []
    save_desc: list = []
    stats = {"runs": 0, "write-phase faults": 0, "cleanup/commit-phase faults": 0, "no fault reached": 0,
             "dry runs": 0, "retries ok": 0, "double faults": 0}
    per_kind: dict[str, int] = {}

    def model_case(snap, old, frag_names, order, dry, faults, idle, after, idle_after, exc, newref, desc):
        """One differential case.  File contents are abstracted to tokens old:<name> / new:<name> / other:<name>
        by byte comparison with the state before the first save (`old`) and the fault-free reference (`newref`)."""
        tmpnames = {tmp_of(consts, n) for n in frag_names}
        allnames = sorted(set(snap) | set(after) | set(frag_names) | tmpnames)

        def token(n, st):
            if n not in st:
                return None
            if n in old and st[n] == old[n]:
                return ("old:" + n).encode()
            if n in newref and st[n] == newref[n]:
                return ("new:" + n).encode()
            return ("other:" + n).encode()
        files = [[n, b"stale" if n in tmpnames else token(n, snap)] for n in sorted(snap)]
        frags = [[n, ("new:" + n).encode()] for n in frag_names]
        obs = [n for n in allnames if n not in tmpnames]
        obsp = sorted(tmpnames)
        out = [[token(n, after) for n in obs], [n in after for n in obsp], idle_after,
               None if exc is None else err_of(exc)]
        save_cases.append(([C, True, files, idle, frags, order, dry,
                            [[k, lib.ERRS[err_of(e).name]] for k, e in faults], obs, obsp], out))
        save_desc.append(desc)

    def scenario(kind_name: str, build, frag_order, sched_spec, dry: bool, newref: dict[str, bytes] | None, *, handler_level=None):
        """build(dir) -> (root, saver, handler): a fresh copy; saver(**kw) performs the save on the SAME object.
        sched_spec: list of (k, kindname).  Returns (trace, fired)."""
        with lib.scratch("c15-") as tmp:
            root, saver, handler, frag_names = build(tmp)
            before = snapshot(root)
            sched = {k: KINDS[kn]() for k, kn in sched_spec}
            inj = Injector(root, sched)
            exc = None
            with inj.active():
                CURRENT[0] = inj
                try:
                    saver(dry_run=dry)
                except BaseException as e:  # noqa: BLE001 - KeyboardInterrupt is one of the injected kinds
                    exc = e
                finally:
                    CURRENT[0] = None
            after = snapshot(root)
            idle_after = handler._LocalFileHandler__transaction is None
            stats["runs"] += 1
            desc = {"model": kind_name, "dry_run": dry, "faults": [[k, kn] for k, kn in sched_spec],
                    "fault_points_reached": [f"{i}:{k}:{p}" for i, (k, p) in enumerate(inj.trace)],
                    "exception": repr(exc)}
            key = f"{kind_name}:dry={dry}:faults={sched_spec}"
            tmpnames = {tmp_of(consts, n) for n in frag_names}
            # iteration order of the transaction set as observed (+ the names not reached)
            name_of_tmp = {tmp_of(consts, n): n for n in frag_names}
            order = [name_of_tmp[p] for k, p in inj.trace if k in ("unlink", "replace") and p in name_of_tmp]
            order = list(dict.fromkeys(order)) + [n for n in frag_names if n not in order]
            fired = inj.fired
            ref = newref if newref is not None else {}
            if newref is not None:
                model_case(before, before, frag_names, order, dry, [(k, sched[k]) for k in sorted(sched)], True,
                           after, idle_after, exc, ref, desc)
            # ---------------- independent oracle on the implementation
            def viol(what):
                chk.violation(key, f"{kind_name} save(dry_run={dry}) with injected {[(k, kn, inj.trace[k] if k < len(inj.trace) else None) for k, kn in sched_spec]}: {what}",
                              dict(desc, how="harness/c15.py Injector: the k-th fault point (Path.open for writing, exs.serialize, file write/close, Path.replace, Path.unlink) raises the listed exception"))
            changed = sorted(n for n in set(before) | set(after) if before.get(n) != after.get(n))
            if len(fired) == 0:
                stats["no fault reached"] += 1
                if exc is not None:
                    viol(f"no fault fired but save raised {exc!r}")
                if dry:
                    stats["dry runs"] += 1
                    if changed:
                        viol(f"dry run changed {changed}")
                elif newref is not None:
                    bad = [n for n in frag_names if after.get(n) != newref[n]]
                    oth = [n for n in changed if n not in frag_names]
                    if bad or oth:
                        viol(f"successful save: fragments without their complete new content {bad}; other files changed {oth}")
                if not idle_after:
                    viol("handler still has an open transaction after a successful save")
            elif len(fired) == 1 and fired[0][1] in WRITE_PHASE:
                stats["write-phase faults"] += 1
                per_kind[fired[0][1]] = per_kind.get(fired[0][1], 0) + 1
                if exc is not fired[0][3]:
                    viol(f"the caller sees {exc!r} instead of the injected {fired[0][3]!r}")
                if changed:
                    viol(f"files differ after the failed save: {changed}")
            else:
                # a fault during clean-up / commit (or several faults): the statement's first sentence does not apply;
                # still no file may ever hold anything but its old or its complete new content
                stats["cleanup/commit-phase faults" if len(fired) == 1 else "double faults"] += 1
                if len(fired) == 1:
                    per_kind[fired[0][1]] = per_kind.get(fired[0][1], 0) + 1
                if exc is None:
                    viol("an injected fault was swallowed")
                for n in changed:
                    if n in tmpnames:
                        continue
                    if not (n in frag_names and newref is not None and after.get(n) == newref[n]):
                        viol(f"{n} holds neither its old nor its complete new content")
            # ---------------- retry on the same object
            exc2 = None
            try:
                saver(dry_run=False)
            except BaseException as e:  # noqa: BLE001
                exc2 = e
            after2 = snapshot(root)
            idle2 = handler._LocalFileHandler__transaction is None
            if newref is not None:
                model_case(after, before, frag_names, frag_names, False, [], idle_after, after2, idle2, exc2, ref,
                           dict(desc, retry=True, retry_exception=repr(exc2)))
            write_phase_single = len(fired) == 1 and fired[0][1] in WRITE_PHASE
            if write_phase_single or len(fired) == 0:
                if exc2 is not None:
                    chk.violation(key + ":retry", f"{kind_name}: saving the same model again after the failed save raises {exc2!r}",
                                  dict(desc, retry_exception=repr(exc2)))
                elif newref is not None:
                    bad = [n for n in frag_names if after2.get(n) != newref[n]]
                    left = [n for n in after2 if n in tmpnames]
                    oth = [n for n in set(before) | set(after2) if n not in frag_names and n not in tmpnames and before.get(n) != after2.get(n)]
                    if bad or left or oth:
                        chk.violation(key + ":retry", f"{kind_name}: retry left fragments {bad} incomplete / temp files {left} / other files changed {oth}",
                                      dict(desc, retry=True))
                    else:
                        stats["retries ok"] += 1
            chk.note_case(key, nontrivial=bool(fired))
            return inj.trace, fired

    # ---------------- model builders
    def touch(trees):
        for t in trees:
            t.root.set("verifTouched", "1")       # every fragment gets new content

    def frag_names_of(ldr):
        return [str(pathlib.PurePosixPath(*k.parts[1:])) for k in ldr.trees if k.parts[0] == "\0"]

    def build_write3(tmp):
        root = tmp / "m"
        shutil.copytree(data / "writemodel", root)
        m = capellambse.MelodyModel(root / "WriteTestModel.aird")
        touch(m._loader.trees.values())
        return root, m.save, m._loader.filehandler, frag_names_of(m._loader)

    def build_frag5(tmp):
        root = tmp / "m"
        shutil.copytree(data / "writemodel", root)
        (root / "fragments").mkdir()
        shutil.copy(data / "decl" / "empty_project_52" / "empty_project_52.capella", root / "fragments" / "Extra.capellafragment")
        ea = (data / "decl" / "empty_project_52" / "empty_project_52.aird").read_text()
        ea = re.sub(r"\s*<semanticResources>.*?</semanticResources>", "", ea)
        (root / "fragments" / "Extra.airdfragment").write_text(ea)
        a = (root / "WriteTestModel.aird").read_text()
        a = a.replace("<semanticResources>WriteTestModel.capella</semanticResources>",
                      "<semanticResources>WriteTestModel.capella</semanticResources>\n"
                      "    <semanticResources>fragments/Extra.capellafragment</semanticResources>\n"
                      "    <referencedAnalysis href=\"fragments/Extra.airdfragment#x\"/>", 1)
        (root / "WriteTestModel.aird").write_text(a)
        m = capellambse.MelodyModel(root / "WriteTestModel.aird")
        touch(m._loader.trees.values())
        return root, m.save, m._loader.filehandler, frag_names_of(m._loader)

    def build_two(tmp):
        """the smallest saveable model: .aird + .afm (loader level)"""
        root = tmp / "m"
        root.mkdir()
        ea = (data / "decl" / "empty_project_52" / "empty_project_52.aird").read_text()
        ea = re.sub(r"\s*<semanticResources>empty_project_52.capella</semanticResources>", "", ea)
        (root / "empty_project_52.aird").write_text(ea)
        shutil.copy(data / "decl" / "empty_project_52" / "empty_project_52.afm", root)
        ldr = loader.MelodyLoader(root / "empty_project_52.aird")
        touch(ldr.trees.values())
        return root, ldr.save, ldr.filehandler, frag_names_of(ldr)

    def build_melody(tmp):
        root = tmp / "m"
        shutil.copytree(data / "melodymodel" / "5_2", root)
        m = capellambse.MelodyModel(root / "Melody Model Test.aird")
        touch(m._loader.trees.values())
        return root, m.save, m._loader.filehandler, frag_names_of(m._loader)

    def handler_builder(files: dict[str, bytes], frags: list[tuple[str, bytes]]):
        """handler level: one transaction through LocalFileHandler written the way save() does it"""
        def build(tmp):
            root = tmp / "h"
            root.mkdir()
            for n, b in files.items():
                (root / n).parent.mkdir(parents=True, exist_ok=True)
                (root / n).write_bytes(b)
            h = fhlocal.LocalFileHandler(root)

            def saver(**kw):
                with h.write_transaction(**kw):
                    for n, c in frags:
                        with h.open(n, "wb") as f:
                            if CURRENT[0] is not None:          # the place where save() serialises the fragment
                                CURRENT[0].point("serialize", None)
                            f.write(b"")
                            f.write(c)
            return root, saver, h, [n for n, _ in frags]
        return build

    # reference "complete new content": one fault-free save per model kind
    def reference(build):
        with lib.scratch("c15ref-") as tmp:
            root, saver, handler, frag_names = build(tmp)
            before = snapshot(root)
            saver()
            after = snapshot(root)
            return before, {n: after[n] for n in frag_names}, frag_names

    MODELS = [("writemodel(3 files)", build_write3), ("fragmented(5 files, subdir)", build_frag5), ("aird+afm(2 files)", build_two)]
    if not quick:
        MODELS.append(("melodymodel-5_2(3 files)", build_melody))
    kinds_all = list(KINDS)
    for mi, (mname, build) in enumerate(MODELS):
        before0, newref, frag_names = reference(build)
        same = [n for n in frag_names if before0.get(n) == newref[n]]
        if same:
            chk.broken.append(f"harness: {mname}: new content equals old content for {same}; commits would be invisible")
        # the theorems' side conditions hold for these names
        chk.correspond(IMPORTS, "w_tmp_ok", [([C, frag_names], True)], tag=f"C15_ok{mi}",
                       describe=lambda i: {"tmp_ok": frag_names})
        nfrag = len(frag_names)
        npoints = 5 * nfrag + nfrag          # write phase + one rename/unlink per file
        for dry in (False, True):
            for k in range(npoints + 1):     # the last k is beyond every fault point: nothing fires
                if quick:
                    ks = kinds_all if (mi == 0 and not dry) else [kinds_all[(k + mi) % 5], "KeyboardInterrupt" if k % 2 else "ENOSPC"]
                    ks = list(dict.fromkeys(ks))
                else:
                    ks = kinds_all
                for kn in ks:
                    trace, fired = scenario(mname, build, frag_names, [(k, kn)], dry, newref)
                    if k == npoints and fired:
                        chk.broken.append(f"harness: {mname}: more fault points than expected ({len(trace)})")
                    if k < npoints and not fired:
                        chk.broken.append(f"harness: {mname}: fault point {k} was never reached (trace {trace})")
        # double faults: a write-phase fault followed by a failing unlink during the clean-up
        for _ in range(6 if quick else 60):
            k1 = rng.randrange(0, 5 * nfrag)
            if k1 % 5 == 0:          # not an open: whether a failed open still takes part in the clean-up is left open
                k1 += 1
            k2 = rng.randrange(k1 + 1, npoints + 2)
            scenario(mname, build, frag_names, [(k1, rng.choice(kinds_all)), (k2, rng.choice(kinds_all))], rng.random() < 0.3, newref)

    # ---------------- handler level: one file, odd names, stale temp files, colliding temp names
    H = []
    H.append(("one file", {"a.capella": b"old"}, [("a.capella", b"new")]))
    H.append(("new file in subdir", {"d/keep.txt": b"k"}, [("d/new.capella", b"new")]))
    H.append(("stale temp file present", {"a.x": b"old", ".a.x.tmp": b"junk"}, [("a.x", b"new")]))
    H.append(("hidden target", {".a": b"old", "b": b"old"}, [(".a", b"new"), ("b", b"new")]))
    H.append(("long names", {"x" * 249 + "1": b"o1", "y" * 250: b"o2"}, [("x" * 249 + "1", b"n1"), ("y" * 250, b"n2")]))
    H.append(("same file twice", {"a": b"old", "b": b"old"}, [("a", b"n1"), ("b", b"n2"), ("a", b"n3")]))
    for hname, files, frags in H:
        build = handler_builder(files, frags)
        fn = [n for n, _ in frags]
        newref = dict(frags) if len(set(fn)) == len(fn) else None
        hyp_ok = hname not in ("same file twice", "colliding temp names", "stale temp file present")
        npoints = 6 * len(frags)
        for dry in (False, True):
            for k in range(npoints + 1):
                for kn in (["ENOSPC", "KeyboardInterrupt"] if quick else kinds_all):
                    if hyp_ok:
                        scenario("handler:" + hname, build, fn, [(k, kn)], dry, dict(frags))
                    else:
                        hyp_violating(chk, build, hname, fn, frags, files, k, kn, dry, C, consts, save_cases, save_desc)

    # ---------------- failures before the transaction opens: nothing is touched
    with lib.scratch("c15pre-") as tmp:
        root = tmp / "one"
        root.mkdir()
        ea = (data / "decl" / "empty_project_52" / "empty_project_52.aird").read_text()
        (root / "One.aird").write_text(re.sub(r"\s*<semanticResources>.*?</semanticResources>", "", ea))
        ldr = loader.MelodyLoader(root / "One.aird")
        touch(ldr.trees.values())
        b = snapshot(root)
        inj = Injector(root, {})
        with inj.active():
            r = None
            try:
                ldr.save()
            except Exception as e:  # noqa: BLE001
                r = e
        if r is None or snapshot(root) != b or inj.trace or ldr.filehandler._LocalFileHandler__transaction is not None:
            chk.violation("pre:no-afm", f"save() of a model without .afm: outcome {r!r}, fault points reached {inj.trace}, files changed {snapshot(root) != b}",
                          {"model": "single .aird without .afm", "expected": "error before the transaction opens, nothing touched"})
        chk.note_case("pre:no-afm")
    with lib.scratch("c15dup-") as tmp:
        root, saver, handler, fn = build_write3(tmp)
        m_dir = snapshot(root)
        # duplicate UUID in memory -> check_duplicate_uuids refuses before anything is written
        mm = capellambse.MelodyModel(root / "WriteTestModel.aird")
        elems = [e for e in mm._loader.trees[next(k for k in mm._loader.trees if str(k).endswith(".capella"))].root.iter() if e.get("id")]
        if len(elems) >= 2:
            elems[1].set("id", elems[0].get("id"))
            inj = Injector(root, {})
            with inj.active():
                r = None
                try:
                    mm.save()
                except Exception as e:  # noqa: BLE001
                    r = e
            if r is None:
                pass            # accepting the duplicate is C04's subject, not C15's
            elif snapshot(root) != m_dir or inj.trace:
                chk.violation("pre:dup-uuid", f"save() refused with {r!r} but touched the directory (fault points reached: {inj.trace})",
                              {"model": "writemodel with a duplicated id"})
            chk.note_case("pre:dup-uuid")

    chk.coverage["fault_runs"] = stats
    chk.coverage["single_faults_by_point_kind"] = per_kind
    chk.coverage["rule"] = ("for each model (3-file, 5-file with subdirectory, 2-file%s) and handler-level transactions (1 file, odd names): "
                            "a fault at EVERY k-th fault point until none is reached x fault kinds %s x real/dry-run, each followed by a "
                            "retry on the same object; plus seeded double faults; non-trivial = a fault fired"
                            % ("" if quick else ", melodymodel 5_2", kinds_all))
    chk.coverage["exhaustive"] = True
    n = len(save_cases)
    chk.correspond(IMPORTS, "w_save", save_cases, tag="C15_save", describe=lambda i: save_desc[i], shard=max(40, -(-n // 13)))
    if save_cases:
        i = next((j for j, d in enumerate(save_desc) if d.get("faults") and d["faults"][0][0] == 6 and not d.get("retry")), 0)
        chk.samples.append({"case": save_desc[i], "observed [contents, temp present, idle, error]": save_cases[i][1]})
    chk.assumptions += [
        "the OS file system is modelled as a finite map name -> bytes; open('wb') creates/truncates, replace and unlink are atomic; a failing call has no effect (the injector raises before the real call; a failing write tears the data, a failing close still closes)",
        "iteration order of the transaction set is an input of the model (observed from the calls)",
        "file contents are abstracted to old/new/other tokens by byte comparison with a fault-free reference save",
        "model follows the transaction code with proposed_fixes/C15-txn-cleanup.diff applied",
    ]


def hyp_violating(chk, build, hname, fn, frags, files, k, kn, dry, C, consts, save_cases, save_desc):
    """Transactions outside the theorems' hypotheses (same name twice, colliding or stale temp names):
    only model conformance is checked, with literal contents."""
    with lib.scratch("c15h-") as tmp:
        root, saver, handler, _ = build(tmp)
        before = snapshot(root)
        exc0 = KINDS[kn]()
        inj = Injector(root, {k: exc0})
        exc = None
        with inj.active():
            CURRENT[0] = inj
            try:
                saver(dry_run=dry)
            except BaseException as e:  # noqa: BLE001
                exc = e
            finally:
                CURRENT[0] = None
        after = snapshot(root)
        idle = handler._LocalFileHandler__transaction is None
        tmpnames = sorted({tmp_of(consts, n) for n in fn})
        order = []
        for kk, p in inj.trace:
            if kk in ("unlink", "replace"):
                cands = [n for n in dict.fromkeys(fn) if tmp_of(consts, n) == p and n not in order]
                if cands:
                    order.append(cands[0])
        order += [n for n in dict.fromkeys(fn) if n not in order]
        obs = sorted((set(before) | set(after) | set(fn)) - set(tmpnames))
        out = [[after.get(n) for n in obs], [n in after for n in tmpnames], idle, None if exc is None else err_of(exc)]
        if inj.fired and inj.fired[0][1] == "open" and any(t in before for t in tmpnames):
            return      # whether a stale temp file survives a failed re-open of it is left open (both repairs of the defect are fine)
        save_cases.append(([C, True, [[n, b] for n, b in sorted(before.items())], True, [[n, c] for n, c in frags], order, dry,
                            [[k, lib.ERRS[err_of(exc0).name]]], obs, tmpnames], out))
        save_desc.append({"model": "handler:" + hname, "dry_run": dry, "faults": [[k, kn]], "outside_hypotheses": True,
                          "fault_points_reached": [f"{i}:{a}:{b}" for i, (a, b) in enumerate(inj.trace)], "exception": repr(exc)})
        chk.note_case(("hv", hname, k, kn, dry), nontrivial=bool(inj.fired))


if __name__ == "__main__":
    lib.main("C15", run)
